"""C12 — Grid distances equal closed-form geometry and are metrics.

proof  : lean/Pyunicorn/Properties/C12.lean about the model
         lean/Pyunicorn/Model/Geo.lean (angular / Euclidean kernels with their
         triangular fill, lookups, rectangular grids, cos-lat weights, AWC)
tie    : * exact correspondence (Rat) with the compiled kernels
           `_calculate_angular_distance`, `_calculate_euclidean_distance` on
           dyadic inputs for which float32 arithmetic is exact,
         * exact correspondence with `Grid.node_number` (integer / half-integer
           data: every decision exact) and `coord_sequence_from_rect_grid`,
         * Float correspondence (model in IEEE double) with
           `GeoGrid.angular_distance`, `Grid.euclidean_distance`,
           `GeoGrid.node_number`, `GeoNetwork.node_weights`,
           `*area_weighted_connectivity` under the property's tolerances
         * round 2: exact correspondence (Rat) with `convert_lon_coordinates`,
           `max_link_distance`, `(in|out|)average_link_distance(geometry_corrected)`
           on the implementation's own distance matrix; the translator
           translate/gen_C12.py regenerates Generated/StructC12.lean (loops,
           expressions, clamps, stores, wiring) for the `src_*` theorems
search : float64 closed forms (atan2 form cross-checked with haversine),
         bitwise symmetry, diagonal, range, triangle inequality over all
         triples, brute-force argmin in `Fraction`, `itertools.product`,
         `cos(lat_i)` per node, link-distance measures from the closed form;
         round 2: twin objects (caller array width / layout, node permutation,
         power-of-two rescaling), histories on one object, geometry_corrected,
         area-weighted distance measures, the cosine-error hypotheses of theorem
         angular_entry_error_combined measured on every run
round 3: Lean theorems rcos_core / angular_entry_error_rounded (rounded angular kernel);
         their elementary hypotheses (table error delta, radian error eps) measured and
         the conclusion of rcos_core checked exactly in Fractions on every stored entry;
         Model/GeoHist.lean (area-weighted histograms, neighbour AWC, distance
         histograms) in exact correspondence with geographical_(cumulative_)distribution,
         (average|max)_neighbor_area_weighted_connectivity,
         geometric_distance_distribution, link_distance_distribution; oracles for the
         wrappers, region_indices (exact crossing number) and network-level histories
         that must leave the grid's cached distance matrices untouched (seeded C12-3)
round 4: every generated case runs under ImplGuard: an exception raised by the code under
         test is an oracle failure with a replay, not a harness error (seeded C12-5);
         Model/GeoArea.lean (the grid as an object of any dimension, GeoGrid.distance,
         GeoGrid.coord_sequence_from_rect_grid, connectivity weighted and total link
         distances) in correspondence (requests eucobj2, cwd, tld, georect; angdist / eucld
         answered by the object-level models); Euclidean grids of dimension 1-5 in every
         suite, regular grids from 1-3 axes, one 130-node grid per distance suite
round 5: Lemmas/GeoRoundNN.lean + Properties: both nearest-node lookups and the radian
         conversion in rounded arithmetic (gridNodeNumber_rounded / _separated / _first,
         geoNodeNumber_rounded, rRad_error), the linear regime of the rounded angular kernel;
         the conclusion of gridNodeNumber_rounded decided in Fractions on float queries incl.
         near-ties; the models executed in IEEE Float / Float32 against Grid.node_number
         (gridnnf, gridnnf32) and against the compiled angular kernel on the grid's own
         generic tables (cosangf32, all sizes incl. 130 nodes) under tolerances derived from
         the theorems; symBlock read-out (theorem fillSym_block) for kernels beyond 16 / 27 nodes
"""
import contextlib
import io
import itertools
import math
import struct
import traceback
from collections import Counter
from fractions import Fraction as Fr

import numpy as np

from . import common

# ---- tolerances (property statement; see design/C12.md) ----------------------
ABS_ANG = 2.0 ** -10          # absolute, everywhere (radians)
REL_ANG = 2.0 ** -17          # relative, for closed-form angles in [MID, pi-MID]
MID = 0.25
REL_EUC = 2.0 ** -20          # relative error of float32 Euclidean distances
TOL_W = 2.0 ** -20            # cos(lat) evaluated in float32
F32PI = float(np.float32(np.pi))


# --------------------------------------------------------------------------
# encoding
# --------------------------------------------------------------------------

def enc_rat(x):
    f = x if isinstance(x, Fr) else Fr(float(x))
    return str(f.numerator) if f.denominator == 1 else f"{f.numerator}/{f.denominator}"


def enc_rats(xs):
    return ",".join(enc_rat(x) for x in xs) or "-"


def enc_ratmat(M):
    return ";".join(enc_rats(r) for r in M) or "-"


def enc_ints(xs):
    return ",".join(str(int(x)) for x in xs) or "-"


def dec_floats(s):
    if s == "-":
        return []
    return [struct.unpack("<d", struct.pack("<Q", int(t)))[0] for t in s.split(",")]


def dec_floatmat(s):
    if s == "-":
        return []
    return [dec_floats(r) for r in s.split(";")]


def dec_ratmat(s):
    if s == "-":
        return []
    return [[Fr(t) for t in r.split(",")] if r != "-" else [] for r in s.split(";")]


def custom_correspond(ctx, name, reqs, judge):
    """Like Ctx.correspond, but the comparison of answer `i` is `judge(i, model_answer)`
    -> None (agree) or a detail string.  Used where the comparison is a stated
    tolerance or an exact rational bracket instead of string equality."""
    model = common.driver(ctx.pid, reqs)
    bad = []
    for i, m in enumerate(model):
        d = judge(i, m)
        if d is not None:
            bad.append((i, d))
    ctx.obligation(f"correspondence: {name} ({len(reqs)} requests)", "correspondence",
                   not bad, "\n".join(f"{reqs[i][:300]} :: {d[:300]}" for i, d in bad[:5]))
    ctx.extra["requests_compared"] = ctx.extra.get("requests_compared", 0) + len(reqs)
    return [i for i, _ in bad], model


# --------------------------------------------------------------------------
# round 4: an exception raised by the code under test is a reported failure, never a
# harness error (seeded C12-5 made `Grid.distance()` raise IndexError for 1-D grids in a
# suite that called it unprotected and the whole check died with exit 2)
# --------------------------------------------------------------------------

def impl_frames(tb):
    """the frames of a traceback that lie in the code under test (the pyunicorn package built
    from the working tree, incl. its compiled extensions), outermost first"""
    out = []
    for fs in traceback.extract_tb(tb):
        fn = fs.filename.replace("\\", "/")
        if "/pyunicorn/" in fn or fn.startswith("pyunicorn/"):
            out.append(f"{fn.rsplit('/', 1)[-1]}:{fs.name}")
    return out


def jsonable(o):
    if isinstance(o, dict):
        return {str(k): jsonable(v) for k, v in o.items()}
    if isinstance(o, (list, tuple)):
        return [jsonable(v) for v in o]
    if isinstance(o, np.ndarray):
        return o.tolist()
    if isinstance(o, np.generic):
        return o.item()
    if isinstance(o, Fr):
        return float(o)
    return o


class ImplGuard:
    """`with ImplGuard(ctx, suite, cur, lists):` around the body of one generated case.
    `cur` is filled by the body with the inputs of the case as soon as they exist.  An
    exception whose traceback passes through the code under test becomes an oracle failure
    (signature kind=exception, the public entry point, the exception type) with `cur` as the
    replay; the per-case request / answer lists are cut back to their length at the start of
    the case so that the correspondences of the suite stay aligned.  An exception that never
    entered the code under test is a bug of the harness and propagates (exit 2)."""

    def __init__(self, ctx, suite, cur, lists=()):
        self.ctx, self.suite, self.cur, self.lists = ctx, suite, cur, lists

    def __enter__(self):
        self.lens = [len(l) for l in self.lists]
        return self

    def __exit__(self, et, ev, tb):
        if et is None or not issubclass(et, Exception):
            return False
        fr = impl_frames(tb)
        if not fr:
            return False
        for l, k in zip(self.lists, self.lens):
            del l[k:]
        report_impl_exception(self.ctx, self.suite, self.cur, et, ev, fr)
        return True


def report_impl_exception(ctx, suite, cur, et, ev, fr):
    entry = fr[0].split(":", 1)[1]
    ctx.count(f"impl-exception:{suite}")
    ctx.fail({"kind": "exception", "suite": suite, "call": entry, "error": et.__name__},
             f"{suite}: {entry}() raised {et.__name__}: {str(ev)[:200]} (raised in {fr[-1]})",
             dict(jsonable(cur), suite=suite, call=entry, error=et.__name__,
                  message=str(ev)[:300], frames=fr))


def guarded_suite(ctx, fn, *args):
    """last resort around a whole suite (code outside the per-case guards)"""
    try:
        fn(ctx, *args)
    except Exception as e:  # noqa
        fr = impl_frames(e.__traceback__)
        if not fr:
            raise
        report_impl_exception(ctx, fn.__name__, {"note": "raised outside a per-case guard; "
                              "re-run ./check C12 with the same VERIF_SEED"}, type(e), e, fr)


# --------------------------------------------------------------------------
# closed forms (float64), independent of the Lean model
# --------------------------------------------------------------------------

def gc_atan2(la1, lo1, la2, lo2):
    """great-circle distance, atan2 (Vincenty-sphere) form; radians in, accurate everywhere"""
    dl = lo1 - lo2
    a = math.cos(la2) * math.sin(dl)
    b = math.cos(la1) * math.sin(la2) - math.sin(la1) * math.cos(la2) * math.cos(dl)
    c = math.sin(la1) * math.sin(la2) + math.cos(la1) * math.cos(la2) * math.cos(dl)
    return math.atan2(math.hypot(a, b), c)


def gc_haversine(la1, lo1, la2, lo2):
    h = math.sin((la1 - la2) / 2) ** 2 + \
        math.cos(la1) * math.cos(la2) * math.sin((lo1 - lo2) / 2) ** 2
    return 2 * math.asin(min(1.0, math.sqrt(h)))


def gc_matrix(lat32, lon32):
    la = [math.radians(float(v)) for v in lat32]
    lo = [math.radians(float(v)) for v in lon32]
    n = len(la)
    R = np.zeros((n, n))
    for i in range(n):
        for j in range(n):
            r = gc_atan2(la[i], lo[i], la[j], lo[j])
            h = gc_haversine(la[i], lo[i], la[j], lo[j])
            # the two closed forms agree in float64 (haversine loses accuracy near pi only)
            assert abs(r - h) <= 1e-7, (r, h)
            R[i, j] = r
    return R


def ang_violations(D, R):
    """property clauses on an angular distance matrix D given the closed form R"""
    out = []
    n = len(R)
    if D.shape != (n, n):
        return [("shape", f"shape {D.shape}")]
    if np.isnan(D).any():
        return [("nan", "NaN entries")]
    if not np.array_equal(D, D.T):
        out.append(("symmetry", "matrix not exactly symmetric"))
    if n and (D.min() < 0 or float(D.max()) > F32PI):
        out.append(("range", f"entries outside [0, pi]: min {D.min()} max {D.max()}"))
    Dd = D.astype(np.float64)
    err = np.abs(Dd - R)
    if n and err.max() >= ABS_ANG:
        i, j = np.unravel_index(err.argmax(), err.shape)
        out.append(("closed-form-abs",
                    f"|D[{i},{j}]-closed form| = {err[i, j]:.3e} >= 2^-10 "
                    f"(D={float(Dd[i, j])!r}, closed form={float(R[i, j])!r})"))
    mid = (R >= MID) & (R <= math.pi - MID)
    if mid.any():
        rel = np.where(mid, err / np.where(mid, R, 1.0), 0.0)
        if rel.max() > REL_ANG:
            i, j = np.unravel_index(rel.argmax(), rel.shape)
            out.append(("closed-form-rel",
                        f"relative error {rel[i, j]:.3e} > 2^-17 at [{i},{j}] "
                        f"(D={float(Dd[i, j])!r}, closed form={float(R[i, j])!r})"))
    if n and np.abs(np.diag(Dd)).max() >= ABS_ANG:
        out.append(("diagonal", f"self-distance {np.abs(np.diag(Dd)).max():.3e} >= 2^-10"))
    if n:
        # triangle inequality over all triples, slack 3 * 2^-10 (one error per entry)
        # T[i, j, k] = D[i,k] - D[i,j] - D[j,k]
        T = Dd[:, None, :] - Dd[:, :, None] - Dd[None, :, :]
        if T.max() > 3 * ABS_ANG:
            i, j, k = np.unravel_index(T.argmax(), T.shape)
            out.append(("triangle", f"D[{i},{k}] > D[{i},{j}] + D[{j},{k}] + 3*2^-10"))
    return out


def euc_matrix(X32):
    X = np.asarray(X32, dtype=np.float64)
    d, n = X.shape
    R = np.zeros((n, n))
    for i in range(n):
        for j in range(n):
            R[i, j] = math.sqrt(math.fsum((X[k, i] - X[k, j]) ** 2 for k in range(d)))
    return R


def euc_violations(D, R):
    out = []
    n = len(R)
    if D.shape != (n, n):
        return [("shape", f"shape {D.shape}")]
    if np.isnan(D).any():
        return [("nan", "NaN entries")]
    if not np.array_equal(D, D.T):
        out.append(("symmetry", "matrix not exactly symmetric"))
    if n and np.any(np.diag(D) != 0):
        out.append(("diagonal", f"self-distance not exactly zero: {np.diag(D)}"))
    Dd = D.astype(np.float64)
    err = np.abs(Dd - R)
    bad = err > REL_EUC * R
    if bad.any():
        i, j = np.argwhere(bad)[0]
        out.append(("closed-form",
                    f"D[{i},{j}]={float(Dd[i, j])!r}, closed form {float(R[i, j])!r}"))
    if n:
        T = Dd[:, None, :] - Dd[:, :, None] - Dd[None, :, :]
        slack = 3 * REL_EUC * max(1e-300, float(Dd.max()))
        if T.max() > slack:
            i, j, k = np.unravel_index(T.argmax(), T.shape)
            out.append(("triangle", f"D[{i},{k}] > D[{i},{j}] + D[{j},{k}] (+3*2^-20*max)"))
    return out


# --------------------------------------------------------------------------
# generators
# --------------------------------------------------------------------------

def f32(x):
    return float(np.float32(x))


def gen_geo_coords(rng, n):
    """coordinate set with the special points the property names"""
    lat, lon = [], []
    kind = rng.choice(["random", "special", "special", "cluster", "rect", "decimal"])
    for _ in range(n):
        lat.append(f32(rng.uniform(-90, 90)))
        lon.append(f32(rng.uniform(-180, 360)))
    if kind == "decimal":
        lat = [f32(round(v, 1)) for v in lat]
        lon = [f32(round(v, 1)) for v in lon]
    if kind == "rect":
        la = sorted(set(f32(rng.choice([-90, -60, -45, -2.5, 0, 2.5, 30, 87.5, 90]))
                        for _ in range(3)))
        lo = sorted(set(f32(rng.choice([-180, -90, 0, 2.5, 90, 180, 270, 357.5, 360]))
                        for _ in range(4)))
        pts = list(itertools.product(la, lo))[:n]
        lat, lon = [p[0] for p in pts], [p[1] for p in pts]
    if kind in ("special", "cluster") and n >= 2:
        for i in range(1, n):
            j = rng.randrange(i)
            c = rng.random()
            if kind == "cluster":
                c = c * 0.3 + 0.35            # only near-coincident / coincident
            if c < 0.12:
                lat[i] = f32(rng.choice([90, -90]))                 # pole
            elif c < 0.22:
                lon[i] = f32(rng.choice([180, -180, 0, 360]))       # antimeridian / Greenwich
            elif c < 0.36:
                lat[i], lon[i] = lat[j], lon[j]                     # coincident
            elif c < 0.46:
                lat[i], lon[i] = lat[j], f32(lon[j] + rng.choice([360, -360]))  # same point
            elif c < 0.62:
                eps = rng.choice([2.0 ** -e for e in range(3, 18)])
                lat[i] = f32(max(-90, min(90, lat[j] + eps * rng.choice([-1, 0, 1]))))
                lon[i] = f32(lon[j] + eps * rng.choice([-1, 1]))    # near-coincident
            elif c < 0.74:
                lat[i], lon[i] = f32(-lat[j]), f32(lon[j] + 180)    # antipodal
            elif c < 0.82:
                eps = rng.choice([2.0 ** -e for e in range(3, 14)])
                lat[i] = f32(max(-90, min(90, -lat[j] + eps)))
                lon[i] = f32(lon[j] - 180 + eps)                    # near-antipodal
            elif c < 0.88:
                lat[i] = 0.0                                        # equator
    return kind, lat, lon


def gen_euc_coords(rng, d, n):
    kind = rng.choice(["lattice", "float", "float", "scaled", "dups"])
    if kind == "lattice":
        X = [[float(rng.randrange(-8, 9)) for _ in range(n)] for _ in range(d)]
    elif kind == "scaled":
        sc = rng.choice([2.0 ** -8, 1e3, 1e5])
        X = [[f32(rng.uniform(-1, 1) * sc) for _ in range(n)] for _ in range(d)]
    else:
        X = [[f32(rng.uniform(-10, 10)) for _ in range(n)] for _ in range(d)]
    if kind == "dups" and n >= 2:
        for i in range(1, n):
            if rng.random() < 0.4:
                j = rng.randrange(i)
                for k in range(d):
                    X[k][i] = X[k][j]
    return kind, X


def twin_1d(rng, vals):
    """the same (float32-representable) values as a caller array of another width / layout"""
    a = np.array(vals, dtype=np.float64)
    kind = rng.choice(["f32", "strided", "int", "f16-or-f32"])
    if kind == "strided":
        buf = np.zeros(2 * len(a) + 1)
        buf[1::2] = a
        return kind, buf[1::2]
    if kind == "int" and all(float(v).is_integer() for v in vals):
        return kind, a.astype(np.int64)
    if kind == "f16-or-f32" and np.array_equal(a.astype(np.float16).astype(np.float64), a):
        return "f16", a.astype(np.float16)
    return "f32", a.astype(np.float32)


def twin_2d(rng, X):
    a = np.array(X, dtype=np.float64)
    kind = rng.choice(["f32", "fortran", "transposed-view", "int"])
    if kind == "fortran":
        return kind, np.asfortranarray(a)
    if kind == "transposed-view":
        return kind, np.ascontiguousarray(a.T).T
    if kind == "int" and np.array_equal(a, np.round(a)):
        return kind, a.astype(np.int64)
    return "f32", a.astype(np.float32)


# hypotheses of theorem `angular_entry_error_combined` (m = MEND), measured on every run
MEND = 0.05
ETA_END = 2.0 ** -21 - 2.0 ** -39
ETA_ALL = 2.0 ** -10 * 2 * math.sin(MEND) / math.pi


def cos_matrix(lat32, lon32):
    """float64 value of the exact cosine  <v_i, v_j>  of the float32-stored coordinates"""
    la = np.radians(np.asarray(lat32, dtype=np.float64))
    lo = np.radians(np.asarray(lon32, dtype=np.float64))
    return (np.sin(la)[:, None] * np.sin(la)[None, :]
            + np.cos(la)[:, None] * np.cos(la)[None, :] * np.cos(lo[:, None] - lo[None, :]))


# --------------------------------------------------------------------------

def run(ctx):
    from pyunicorn.core._ext import numerics as K
    from pyunicorn.core.grid import Grid
    from pyunicorn.core.geo_grid import GeoGrid
    from pyunicorn.core.geo_network import GeoNetwork
    from pyunicorn.core.spatial_network import SpatialNetwork
    rng = ctx.rng
    quick = ctx.tier == "quick"
    S = 3 if quick else 120          # budget scale (thorough: ~6 min)
    ctx.rule = (
        "kernel level: dyadic sine/cosine tables (k/16, |k|<=20, incl. values that make the "
        "expression leave [-1,1]) and dyadic coordinates (k/4) for which float32 arithmetic is "
        "exact; object level: coordinate sets with poles, antimeridian, coincident, "
        "near-coincident, antipodal, near-antipodal, equatorial points, rectangular grids, "
        "decimal coordinates; Euclidean grids of dimension 1-5 (thorough: 1-6) in every Euclidean suite incl. regular grids built from 1-3 axes; lookups at "
        "nodes, near nodes, poles and random points; rectangular grids with 1-4 axes of length "
        "0-4; distinct = distinct (suite, canonical input); non-trivial = at least 2 nodes "
        "(distance suites), at least 2 nodes at different distances (lookups), at least two "
        "axes of length >= 2 (rect grids); round 2: caller arrays as float64 / float32 / float16 / "
        "int64 / strided / Fortran / transposed views; node permutations; Euclidean coordinates "
        "rescaled by 2^-10..2^30, lookups by 2^-20..2^40; 2-5 step histories on one grid / network "
        "object; adjacency random / empty / isolated node / complete; geometry_corrected both ways; "
        "longitudes k/4 in [-400, 800] for convert_lon_coordinates with sequences shorter / longer "
        "than the grid; round 3: sequences dyadic / constant / degree / AWC / random floats with 1-8 "
        "bins for the area-weighted histograms; adjacency random / isolated node / complete / empty; "
        "distance histograms with 1-8 (and 0) bins on geo and Euclidean grids of 1-12 nodes, "
        "grid_type euclidean / spherical, geometry_corrected both ways; polygons with 3-5 vertices in "
        "both orientations passed as float64 / float32 / list / read-only arrays on grids with and "
        "without negative longitudes; 2-6 step histories of 21 public network measures on two "
        "networks sharing one grid; round 4: one angular and one Euclidean grid of 130 nodes per run; "
        "geo networks' connectivity weighted and total link distances (all six wrappers, "
        "geometry_corrected both ways, directed and undirected); an exception raised by the code "
        "under test in any suite is reported as a violation with the inputs of the case; round 5: "
        "Grid.node_number on float32 grids (scaled 2^-8 / 1 / 2^10, coincident nodes) with float "
        "queries at / near a node, random, and within 2^-60..2^-20 of a bisector, passed as tuple / "
        "list / float64 array / float32 array; the angular kernel on every grid's own tables incl. "
        "the 130-node grid; the Euclidean kernel at 130 and 260 nodes")
    ctx.trusted = common.DEFAULT_TRUSTED + [
        "IEEE-754: float32 arithmetic on the dyadic kernel inputs is exact (all intermediate "
        "values have < 24 significant bits) — the reason the Rat model can be compared exactly",
        "angular accuracy: proved from a bound eta on the float32 evaluation error of the cosine "
        "(theorems angular_entry_*); round 3 proves eta under the standard model of float32 "
        "arithmetic for the kernel from the table error delta and the radian error eps "
        "(angular_entry_error_rounded: 3*2^-11 for delta <= 3*2^-25, 2^-10 for delta <= 2^-25); delta "
        "and eps are measured (table_error_observed), the standard model is checked exactly on every "
        "sampled entry (oracle kernel-rounding); the property's 2^-10 abs / 2^-17 rel on "
        "[0.25, pi-0.25] themselves are sampled (partial)",
        "Euclidean accuracy 2^-20: proved under the standard model of floating point arithmetic "
        "(|rnd v - v| <= 2^-24 |v| per operation, powf within 1 ulp, no overflow / underflow, <= 6 "
        "dimensions: theorem euclidean_entry_accuracy_float32); that the hardware satisfies the "
        "model is trusted, the bound is also sampled",
        "libm / numpy sin, cos, arccos, sqrt, powf: modelled as the real functions",
        "round 5: lookups and radian conversion are theorems under the standard model (u = 2^-53 "
        "/ 2^-24 per operation, correctly rounded square root); numpy's np.sum(axis=1) is a left "
        "fold below 8 summands (the order the model has); IEEE-754 semantics of Lean's Float / "
        "Float32 runtime (no fused multiply-add contraction) for the float model streams, which "
        "are judged under tolerances derived from the theorems, never by float equality",
    ]
    ctx.assumptions = [
        "coordinates are finite; |lat| <= 90; Euclidean coordinates stay far from float32 "
        "overflow / underflow (|x| <= 1e5, non-zero differences >= 2^-20)",
        "no NaN coordinates (numpy argmin would return the first NaN)",
        "reference distances are the closed forms of the float32-stored coordinates "
        "(the grid casts its input to float32 at construction)",
    ]
    ctx.proofs()
    if not quick:
        rc, out = common._run(["lake", "env", "leanchecker", "Pyunicorn.Properties.C12"],
                              cwd=common.LEAN, timeout=1800)
        ctx.obligation("leanchecker replays Pyunicorn.Properties.C12 through the kernel",
                       "lean-kernel", rc == 0, out[-600:])

    guarded_suite(ctx, suite_kernel_angular, K, rng, 250 * S)
    guarded_suite(ctx, suite_kernel_euclid, K, rng, 200 * S, 5 if quick else 6)
    guarded_suite(ctx, suite_grid_node_number, Grid, rng, 250 * S)
    guarded_suite(ctx, suite_rect, Grid, GeoGrid, rng, 150 * S)
    guarded_suite(ctx, suite_angular, GeoGrid, rng, 120 * S, K)
    guarded_suite(ctx, suite_euclid, Grid, rng, 120 * S, 5 if quick else 6)
    guarded_suite(ctx, suite_geo_node_number, GeoGrid, rng, 60 * S)
    guarded_suite(ctx, suite_weights, GeoGrid, GeoNetwork, rng, 60 * S)
    guarded_suite(ctx, suite_link_distance, Grid, GeoGrid, GeoNetwork, SpatialNetwork, rng, 30 * S)
    guarded_suite(ctx, suite_climate_weights, GeoGrid, rng, 24 * S)
    guarded_suite(ctx, suite_convlon, GeoGrid, rng, 80 * S)
    # round 3
    guarded_suite(ctx, suite_geo_hist, GeoGrid, GeoNetwork, rng, 50 * S)
    guarded_suite(ctx, suite_dist_hist, Grid, GeoGrid, GeoNetwork, SpatialNetwork, rng, 50 * S)
    guarded_suite(ctx, suite_region, GeoGrid, rng, 40 * S)
    guarded_suite(ctx, suite_region_model, GeoGrid, rng, 3 * S)   # round 5e
    guarded_suite(ctx, suite_net_history, Grid, GeoGrid, GeoNetwork, SpatialNetwork, rng, 20 * S)


# --------------------------------------------------------------------------
# A. angular kernel, exact
# --------------------------------------------------------------------------

def suite_kernel_angular(ctx, K, rng, ncases):
    reqs, impl, meta = [], [], []
    for c in range(ncases):
        n = rng.choice([0, 1, 2, 3, 4, 5, 6, 8, 11])
        mode = rng.choice(["dyadic", "dyadic", "axis", "big"])
        tabs = []
        for _ in range(4):
            if mode == "axis":
                tabs.append([Fr(rng.choice([-1, 0, 1])) for _ in range(n)])
            elif mode == "big":
                tabs.append([Fr(rng.randrange(-20, 21), 16) for _ in range(n)])
            else:
                tabs.append([Fr(rng.randrange(-16, 17), 16) for _ in range(n)])
        sl, cl, sn, cn = tabs
        arr = [np.array([float(v) for v in t], dtype=np.float32) for t in (cl, sl, cn, sn)]
        M = np.zeros((n, n), dtype=np.float32)
        try:
            K._calculate_angular_distance(arr[0], arr[1], arr[2], arr[3], M, n)
            ans = enc_ratmat(M.astype(np.float64).tolist())
        except Exception as e:  # noqa
            ans = "raise:" + type(e).__name__
        reqs.append(f"cosang {n} {enc_rats(sl)} {enc_rats(cl)} {enc_rats(sn)} {enc_rats(cn)}")
        impl.append(ans)
        meta.append((n, sl, cl, sn, cn, M))
        ctx.count(f"kernel-angular:{mode}")
        ctx.count(f"kernel-angular:n={n}")
        ctx.case(("ka", reqs[-1]), n >= 2,
                 {"suite": "kernel-angular", "request": reqs[-1]} if n <= 3 else None)
    bad, _ = ctx.correspond("Lean cosAngKernel (Rat) == compiled _calculate_angular_distance",
                            reqs, impl)
    # oracle: plain Fraction evaluation of the documented expression, clamped
    nclamp = 0
    for (n, sl, cl, sn, cn, M), ans in zip(meta, impl):
        exp = [[None] * n for _ in range(n)]
        for i in range(n):
            for j in range(n):
                e = sl[i] * sl[j] + cl[i] * cl[j] * (sn[i] * sn[j] + cn[i] * cn[j])
                if e > 1 or e < -1:
                    nclamp += 1
                exp[i][j] = max(Fr(-1), min(Fr(1), e))
        if ans != enc_ratmat(exp):
            ctx.fail({"kind": "kernel", "kernel": "_calculate_angular_distance"},
                     "_calculate_angular_distance differs from the clamped closed-form expression",
                     {"N": n, "sin_lat": enc_rats(sl), "cos_lat": enc_rats(cl),
                      "sin_lon": enc_rats(sn), "cos_lon": enc_rats(cn),
                      "expected": enc_ratmat(exp), "observed": ans})
    ctx.count("kernel-angular:entries-clamped", nclamp)


# --------------------------------------------------------------------------
# B. Euclidean kernel, exact squared distances + 1-ulp square root
# --------------------------------------------------------------------------

def within_one_ulp(dv, s):
    """|dv - sqrt(s)| <= ulp(dv), decided exactly"""
    if s == 0:
        return dv == 0.0
    if not (dv > 0) or math.isinf(dv):
        return False
    u = Fr(float(np.spacing(np.float32(dv))))
    f = Fr(dv)
    lo = max(Fr(0), f - u)
    return lo * lo <= s <= (f + u) * (f + u)


def suite_kernel_euclid(ctx, K, rng, ncases, maxdim):
    reqs, outs, meta = [], [], []
    for c in range(ncases):
        n = rng.choice([0, 1, 2, 3, 4, 5, 7, 10])
        if c in (1, 2):
            # round 5: beyond the range of 8-bit counters / indices (the driver answers through
            # `symBlock`, theorem euclKernel_block)
            n = (130, 260)[c - 1]
            ctx.count(f"kernel-euclid:N={n}")
        d = rng.randrange(1, maxdim + 1)
        X = [[Fr(rng.randrange(-64, 65), 4) for _ in range(n)] for _ in range(d)]
        Xa = np.array([[float(v) for v in r] for r in X], dtype=np.float32).reshape(d, n)
        D = np.zeros((n, n), dtype=np.float32)
        err = None
        try:
            K._calculate_euclidean_distance(Xa, D, d, n)
        except Exception as e:  # noqa
            err = "raise:" + type(e).__name__
        reqs.append(f"eucl2 {d} {n} {enc_ratmat(X)}")
        outs.append((D, err))
        meta.append((d, n, X))
        ctx.count(f"kernel-euclid:d={d}")
        ctx.case(("ke", reqs[-1]), n >= 2,
                 {"suite": "kernel-euclid", "request": reqs[-1]} if n <= 3 and d <= 2 else None)

    def judge(i, m):
        D, err = outs[i]
        if err:
            return f"implementation {err}"
        S2 = dec_ratmat(m)
        n = meta[i][1]
        if len(S2) != n:
            return f"model shape {len(S2)}"
        for a in range(n):
            for b in range(n):
                if not within_one_ulp(float(D[a, b]), S2[a][b]):
                    return (f"entry [{a},{b}]: impl {float(D[a, b])!r} not within 1 ulp of "
                            f"sqrt(model {S2[a][b]})")
        return None

    custom_correspond(ctx, "Lean euclKernel (Rat, squared) == compiled "
                      "_calculate_euclidean_distance (sqrt within 1 float32 ulp)", reqs, judge)
    for (d, n, X), (D, err) in zip(meta, outs):
        exp = [[sum((X[k][i] - X[k][j]) ** 2 for k in range(d)) for j in range(n)]
               for i in range(n)]
        ok = err is None and all(within_one_ulp(float(D[i, j]), exp[i][j])
                                 for i in range(n) for j in range(n)) \
            and np.array_equal(D, D.T)
        if not ok:
            ctx.fail({"kind": "kernel", "kernel": "_calculate_euclidean_distance"},
                     "_calculate_euclidean_distance differs from sqrt(sum (x_i-x_j)^2)",
                     {"N_dim": d, "N_nodes": n, "x": enc_ratmat(X),
                      "expected_squares": enc_ratmat(exp),
                      "observed": err or D.astype(float).tolist()})


# --------------------------------------------------------------------------
# C. Grid.node_number, exact
# --------------------------------------------------------------------------

def suite_grid_node_number(ctx, Grid, rng, ncases):
    reqs, impl, meta = [], [], []
    for c in range(ncases):
        cur = {}
        with ImplGuard(ctx, "Grid.node_number", cur, [reqs, impl, meta]):
            n = rng.choice([1, 2, 3, 4, 6, 9, 14])
            d = rng.choice([1, 2, 3, 4, 5])
            span = rng.choice([2, 3, 6])
            X = [[Fr(rng.randrange(-span, span + 1)) for _ in range(n)] for _ in range(d)]
            qk = rng.choice(["node", "half", "int", "far"])
            if qk == "node":
                j = rng.randrange(n)
                q = [X[k][j] for k in range(d)]
            elif qk == "half":
                q = [Fr(rng.randrange(-2 * span, 2 * span + 1), 2) for _ in range(d)]
            elif qk == "far":
                q = [Fr(rng.choice([-50, 50, 0])) for _ in range(d)]
            else:
                q = [Fr(rng.randrange(-span, span + 1)) for _ in range(d)]
            cur.update(space_seq=X, x=q)
            g = Grid(np.arange(2), np.array([[float(v) for v in r] for r in X]).reshape(d, n),
                     silence_level=3)
            qf = [float(v) for v in q]
            qc = rng.choice(["tuple", "list", "f64", "f32", "int"])
            if qc == "int" and not all(v.is_integer() for v in qf):
                qc = "tuple"
            qx = {"tuple": tuple(qf), "list": list(qf), "f64": np.array(qf),
                  "f32": np.array(qf, dtype=np.float32),
                  "int": np.array(qf).astype(np.int64) if qc == "int" else None}[qc]
            ctx.count(f"grid-node_number:x-as={qc}")
            try:
                got = g.node_number(qx)
                ans = str(int(got))
            except Exception as e:  # noqa
                got, ans = None, "raise:" + type(e).__name__
            if got is not None and rng.random() < 0.3:
                # twin: grid and query rescaled by the same power of two (exact) -> same node
                k = rng.choice([-20, -7, 5, 18, 40])
                g2 = Grid(np.arange(2), np.array([[float(v) for v in r] for r in X]).reshape(d, n)
                          * 2.0 ** k, silence_level=3)
                got2 = int(g2.node_number(tuple(v * 2.0 ** k for v in qf)))
                ctx.count("grid-node_number:scaled-twin")
                if got2 != int(got):
                    ctx.fail({"kind": "lookup", "class": "Grid", "method": "node_number",
                              "clause": "power-of-two-scaling"},
                             f"Grid.node_number returns node {got2} after rescaling grid and query by "
                             f"2^{k}, node {int(got)} before",
                             {"space_seq": enc_ratmat(X), "x": enc_rats(q), "scale_log2": k})
            reqs.append(f"gridnn {d} {n} {enc_ratmat(X)} {enc_rats(q)}")
            impl.append(ans)
            s2 = [sum((X[k][i] - q[k]) ** 2 for k in range(d)) for i in range(n)]
            meta.append((d, n, X, q, s2))
            ties = s2.count(min(s2)) > 1
            ctx.count(f"grid-node_number:query={qk}")
            ctx.count("grid-node_number:ties" if ties else "grid-node_number:unique")
            ctx.case(("gn", reqs[-1]), len(set(s2)) >= 2,
                     {"suite": "Grid.node_number", "request": reqs[-1], "answer": ans}
                     if n <= 3 else None)
            # oracle: brute-force minimum in exact arithmetic
            if got is None or not (0 <= int(got) < n) or s2[int(got)] != min(s2):
                ctx.fail({"kind": "lookup", "class": "Grid", "method": "node_number"},
                         "Grid.node_number does not return a node at minimal distance",
                         {"space_seq": enc_ratmat(X), "x": enc_rats(q), "observed": ans,
                          "squared_distances": enc_rats(s2)})
    ctx.correspond("Lean gridNodeNumber (Rat) == Grid.node_number", reqs, impl)
    # round 5 — generic float coordinates / queries.  Theorem gridNodeNumber_rounded: under the
    # standard model (u = 2^-53 for float64 queries, 2^-24 for float32 query arrays, correctly
    # rounded square root) the node returned satisfies, for every node m,
    #     (1-u)^(d+5) * |x_k - q|^2  <=  (1+u)^(d+5) * |x_m - q|^2        (squared form, w = u)
    # The oracle checks exactly that in Fractions (it replaces the former ad-hoc 1e-12), on
    # queries that include near-ties (points within 2^-60 .. 2^-20 relative of a bisector), and
    # the Lean model evaluated in IEEE double / single arithmetic in the order of the source
    # must take the same decision (requests gridnnf / gridnnf32).
    freqs, fimpl, fmeta = [], [], []
    flipped = 0
    fstat = {"same": 0, "other-near-tie": 0}
    for c in range(ncases // 2):
        cur = {}
        with ImplGuard(ctx, "Grid.node_number:float-stream", cur, [freqs, fimpl, fmeta]):
            n = rng.choice([2, 3, 5, 9, 20])
            d = rng.choice([1, 2, 3, 4, 5])
            scale = 2.0 ** rng.choice([0, 0, 0, -8, 10])
            X = np.array([[f32(rng.uniform(-10, 10) * scale) for _ in range(n)]
                          for _ in range(d)], dtype=np.float64)
            if n >= 3 and rng.random() < 0.2:
                X[:, 1] = X[:, 0]                      # coincident nodes: exact tie
            qk = rng.choice(["near-node", "bisector", "bisector", "random", "at-node"])
            j = rng.randrange(n)
            if qk == "near-node":
                q = [float(X[k, j]) + scale * rng.choice([rng.uniform(-1, 1),
                                                           rng.uniform(-1e-3, 1e-3)])
                     for k in range(d)]
            elif qk == "at-node":
                q = [float(X[k, j]) for k in range(d)]
            elif qk == "bisector":
                j2 = rng.randrange(n)
                eps = rng.choice([0.0, 2.0 ** -60, 2.0 ** -50, 2.0 ** -45, 2.0 ** -30, 2.0 ** -20])
                q = [(float(X[k, j]) + float(X[k, j2])) / 2 * (1 + rng.choice([-1, 1]) * eps)
                     for k in range(d)]
                if d >= 2 and rng.random() < 0.5:      # slide along the bisector (2 coordinates)
                    a, b = rng.sample(range(d), 2)
                    va, vb = float(X[a, j] - X[a, j2]), float(X[b, j] - X[b, j2])
                    t = rng.uniform(-1, 1)
                    q[a] += t * vb
                    q[b] -= t * va
            else:
                q = [rng.uniform(-12, 12) * scale for _ in range(d)]
            qc = rng.choice(["tuple", "f64", "f32", "f32", "list"])
            if qc == "f32":
                q = [f32(v) for v in q]
                qx, u, tag = np.array(q, dtype=np.float32), Fr(1, 2 ** 24), "gridnnf32"
            else:
                qx = {"tuple": tuple(q), "list": list(q), "f64": np.array(q)}[qc]
                u, tag = Fr(1, 2 ** 53), "gridnnf"
            cur.update(space_seq=X, x=q, x_as=qc)
            g = Grid(np.arange(2), X.reshape(d, n), silence_level=3)
            s2 = [sum((Fr(float(X[k, i])) - Fr(q[k])) ** 2 for k in range(d)) for i in range(n)]
            try:
                got = int(g.node_number(qx))
                ans = str(got)
            except Exception as e:  # noqa
                got, ans = None, "raise:" + type(e).__name__
            ctx.count(f"grid-node_number:float-stream:x-as={qc}")
            ctx.count(f"grid-node_number:float-stream:query={qk}")
            ctx.case(("gnf", X.tobytes().hex(), tuple(q), qc), True)
            freqs.append(f"{tag} {d} {n} {enc_ratmat(X.tolist())} {enc_rats(q)}")
            fimpl.append(ans)
            lo, hi = (1 - u) ** (d + 5), (1 + u) ** (d + 5)
            fmeta.append((s2, lo, hi, [tuple(X[:, i]) for i in range(n)]))
            ok = got is not None and 0 <= got < n and lo * s2[got] <= hi * min(s2)
            if ok and s2[got] != min(s2):
                flipped += 1
            if ok and sum(1 for v in s2 if lo * v <= hi * min(s2)) > 1:
                ctx.count("grid-node_number:float-stream:near-tie-within-rounding-factor")
            if ok:
                # theorem gridNodeNumber_rounded_first: first among nodes with identical coordinates
                first = min(i for i in range(n) if all(X[k, i] == X[k, got] for k in range(d)))
                if first != got:
                    ctx.fail({"kind": "lookup", "class": "Grid", "method": "node_number",
                              "clause": "first-identical"},
                             f"Grid.node_number returned node {got} although node {first} has "
                             "identical coordinates (argmin must return the first minimiser)",
                             {"space_seq": X.tolist(), "x": q, "x_as": qc, "observed": ans})
            if not ok:
                ctx.fail({"kind": "lookup", "class": "Grid", "method": "node_number"},
                         "Grid.node_number does not return a node at minimal distance (up to the "
                         "rounding factor of theorem gridNodeNumber_rounded)",
                         {"space_seq": X.tolist(), "x": q, "x_as": qc, "observed": ans,
                          "squared_distances": [float(v) for v in s2]})
    ctx.extra["grid_node_number_float"] = {
        "cases": len(freqs), "rounding_changed_the_exact_argmin": flipped,
        "bound": "(1-u)^(d+5) s2[k] <= (1+u)^(d+5) min s2, u = 2^-53 (float64) / 2^-24 (float32)"}

    def judge_f(i, m):
        # the model evaluated in IEEE arithmetic in the order of the source and the implementation
        # must agree — up to what theorem gridNodeNumber_rounded leaves open: two different nodes
        # are accepted only if each is nearest up to the rounding factor (decided in Fractions)
        # and they do not have identical coordinates (then both must return the first)
        s2, lo, hi, cols = fmeta[i]
        if m == fimpl[i]:
            fstat["same"] += 1
            return None
        if m.isdigit() and fimpl[i].isdigit() and int(m) < len(s2) and int(fimpl[i]) < len(s2):
            a, b = int(m), int(fimpl[i])
            if lo * s2[a] <= hi * s2[b] and lo * s2[b] <= hi * s2[a] and cols[a] != cols[b]:
                fstat["other-near-tie"] += 1
                return None
        return f"model={m} impl={fimpl[i]}"

    custom_correspond(ctx, "Lean gridNodeNumber in IEEE Float / Float32 (source order) ~ Grid.node_number "
                      "on float queries incl. near-ties (same node, or two nodes within the rounding "
                      "factor of gridNodeNumber_rounded)", freqs, judge_f)
    ctx.extra["grid_node_number_float"]["model_same_node"] = fstat["same"]
    ctx.extra["grid_node_number_float"]["model_other_node_within_rounding_factor"] = \
        fstat["other-near-tie"]


# --------------------------------------------------------------------------
# D. rectangular grids, exact
# --------------------------------------------------------------------------

def suite_rect(ctx, Grid, GeoGrid, rng, ncases):
    reqs, impl = [], []
    greqs, gimpl = [], []           # round 4: GeoGrid.coord_sequence_from_rect_grid
    shapes = set()
    for c in range(ncases):
        cur = {}
        with ImplGuard(ctx, "rect", cur, [reqs, impl, greqs, gimpl]):
            d = rng.choice([1, 2, 2, 2, 3, 3, 4])
            sizes = [rng.choice([0, 1, 2, 2, 3, 3, 4]) if rng.random() < 0.9 else 5
                     for _ in range(d)]
            if c < 60:      # systematic small shapes first
                sizes = [(c // (4 ** k)) % 4 for k in range(3)][: 1 + c % 3]
                d = len(sizes)
            axes = []
            base = 0
            for s in sizes:
                vals = rng.sample(range(base, base + 40), s)    # distinct values, distinct per axis
                if rng.random() < 0.5:
                    vals.sort()
                axes.append(vals)
                base += 100
            shapes.add(tuple(sizes))
            cur.update(space_grid=axes)
            try:
                seq = Grid.coord_sequence_from_rect_grid(
                    [np.array(a, dtype=np.int64) for a in axes])
                seq = np.asarray(seq)
                if seq.ndim != 2 or seq.shape[0] != d:
                    ans = f"shape:{seq.shape}"
                else:
                    ans = ";".join(enc_ints(r) for r in seq)
            except Exception as e:  # noqa
                seq, ans = None, "raise:" + type(e).__name__
            reqs.append("rect " + (";".join(enc_ints(a) for a in axes)))
            impl.append(ans)
            nontriv = sum(1 for s in sizes if s >= 2) >= 2
            ctx.count(f"rect:dims={d}")
            ctx.count("rect:some-axis-empty" if 0 in sizes else "rect:all-axes-nonempty")
            ctx.case(("rect", reqs[-1]), nontriv,
                     {"suite": "coord_sequence_from_rect_grid", "axes": axes, "answer": ans}
                     if nontriv and len(ans) < 200 else None)
            # oracle: the nodes are exactly the Cartesian product, each element once
            exp = Counter(itertools.product(*axes))
            got = Counter(map(tuple, np.asarray(seq).T.tolist())) if seq is not None and \
                np.asarray(seq).ndim == 2 else None
            if got != exp:
                ctx.fail({"kind": "rect", "class": "Grid", "method": "coord_sequence_from_rect_grid"},
                         "nodes of the rectangular grid are not exactly the Cartesian product of the axes",
                         {"space_grid": axes, "observed": ans})
            if d == 2:
                # GeoGrid variant and the constructors built on it
                la = np.array(axes[0], dtype=float)
                lo = np.array(axes[1], dtype=float)
                try:
                    ls, os_ = GeoGrid.coord_sequence_from_rect_grid(la, lo)
                    greqs.append(f"georect {enc_ints(axes[0])} {enc_ints(axes[1])}")
                    gimpl.append(enc_ints(ls) + ";" + enc_ints(os_))
                    ok = seq is not None and np.array_equal(ls, seq[0]) and np.array_equal(os_, seq[1])
                    if sizes[0] and sizes[1]:
                        gg = GeoGrid.RegularGrid(np.arange(2), (la, lo), silence_level=3)
                        ok = ok and np.array_equal(gg.lat_sequence(), seq[0].astype(np.float32)) \
                            and np.array_equal(gg.lon_sequence(), seq[1].astype(np.float32)) \
                            and gg.N == sizes[0] * sizes[1]
                        g2 = Grid.RegularGrid(np.arange(2), [la, lo], silence_level=3)
                        ok = ok and np.array_equal(g2.sequence(0), seq[0].astype(np.float32)) \
                            and np.array_equal(g2.sequence(1), seq[1].astype(np.float32))
                        ctx.count("rect:RegularGrid-objects")
                except Exception as e:  # noqa
                    ok = False
                    ans = "raise:" + type(e).__name__
                if not ok:
                    ctx.fail({"kind": "rect", "class": "GeoGrid", "method": "RegularGrid"},
                             "GeoGrid.coord_sequence_from_rect_grid / RegularGrid lat-lon sequences "
                             "differ from the Cartesian product of (lat_grid, lon_grid)",
                             {"lat_grid": axes[0], "lon_grid": axes[1], "observed": ans})
    ctx.extra["rect_shapes"] = len(shapes)
    ctx.correspond("Lean rectGrid == Grid.coord_sequence_from_rect_grid", reqs, impl)
    ctx.correspond("Lean geoRectGrid == GeoGrid.coord_sequence_from_rect_grid", greqs, gimpl)


# --------------------------------------------------------------------------
# round 3: the elementary hypotheses of theorem angular_entry_error_rounded, and the
# conclusion of theorem rcos_core checked exactly on the compiled kernel
# --------------------------------------------------------------------------
U32 = 2.0 ** -24


def kernel_rounding(ctx, g, C32, n, tab):
    """(1) measures delta (table entries against float64 sin / cos of the float32 radians) and
    eps (float32 radians against the exact radians);  (2) oracle, exact in Fractions: every
    entry the compiled kernel stored is within  ((1+u)^2-1)|a| + ((1+u)^5-1)|p|(|q1|+|q2|)  of
    the exactly evaluated, clamped expression on the tables it was handed (theorem rcos_core:
    what the standard model of float32 arithmetic allows)."""
    out = []
    lat32, lon32 = g.lat_sequence(), g.lon_sequence()
    rlat, rlon = lat32 * np.pi / 180, lon32 * np.pi / 180          # as in GeoGrid.cos_lat() ...
    tabs = {"sl": (g.sin_lat(), np.sin, rlat), "cl": (g.cos_lat(), np.cos, rlat),
            "sn": (g.sin_lon(), np.sin, rlon), "cn": (g.cos_lon(), np.cos, rlon)}
    for nm, (t, f, r) in tabs.items():
        if t.dtype != np.float32 or r.dtype != np.float32:
            return out                      # another arithmetic: the measurement does not apply
        tab["delta"] = max(tab["delta"],
                           float(np.abs(t.astype(np.float64) - f(r.astype(np.float64))).max()))
        tab["entries"] += len(t)
    tab["eps_lat"] = max(tab["eps_lat"], float(np.abs(
        rlat.astype(np.float64) - lat32.astype(np.float64) * math.pi / 180).max()))
    tab["eps_lon"] = max(tab["eps_lon"], float(np.abs(
        rlon.astype(np.float64) - lon32.astype(np.float64) * math.pi / 180).max()))
    # round 5: theorem rRad_error — |computed radians - exact| <= ((1+u)^3 - 1) |x| pi / 180
    for x32, r32 in ((lat32, rlat), (lon32, rlon)):
        x64 = np.abs(x32.astype(np.float64))
        nz = x64 > 0
        if nz.any():
            bnd = ((1 + U32) ** 3 - 1) * x64[nz] * math.pi / 180
            err = np.abs(r32.astype(np.float64)[nz] - x32.astype(np.float64)[nz] * math.pi / 180)
            tab["eps_ratio"] = max(tab.get("eps_ratio", 0.0), float((err / bnd).max()))
    if n > 8:
        return out
    F = {k: [Fr(float(v)) for v in t] for k, (t, _, _) in tabs.items()}
    u = Fr(1, 2 ** 24)
    g2, g5 = (1 + u) ** 2 - 1, (1 + u) ** 5 - 1
    for i in range(n):
        for j in range(n):
            hi, lo = max(i, j), min(i, j)
            a = F["sl"][hi] * F["sl"][lo]
            p_ = F["cl"][hi] * F["cl"][lo]
            q1, q2 = F["sn"][hi] * F["sn"][lo], F["cn"][hi] * F["cn"][lo]
            e = a + p_ * (q1 + q2)
            ec = max(Fr(-1), min(Fr(1), e))
            b = g2 * abs(a) + g5 * abs(p_) * (abs(q1) + abs(q2))
            d = abs(Fr(float(C32[i, j])) - ec)
            tab["pairs"] += 1
            if b:
                tab["round"] = max(tab["round"], float(d / b))
            if d > b:
                out.append(("kernel-rounding",
                            f"stored cosine [{i},{j}] = {float(C32[i, j])!r} is {float(d):.3e} away "
                            f"from the exactly evaluated clamped expression {float(ec)!r} on the "
                            f"same tables; float32 rounding allows {float(b):.3e}"))
                return out
    return out


# --------------------------------------------------------------------------
# E. GeoGrid.angular_distance
# --------------------------------------------------------------------------

def suite_angular(ctx, GeoGrid, rng, ncases, K):
    from pyunicorn.core._ext.types import to_cy, FIELD
    reqs, outs, metas = [], [], []
    stats = {"abs": 0.0, "rel": 0.0, "pairs": 0}
    eta = {"all": 0.0, "end": 0.0, "pairs": 0, "end_pairs": 0}
    tab = {"delta": 0.0, "eps_lat": 0.0, "eps_lon": 0.0, "round": 0.0, "entries": 0, "pairs": 0}
    kreqs, kimpl = [], []
    for c in range(ncases):
        cur = {}
        with ImplGuard(ctx, "GeoGrid.angular_distance", cur, [reqs, outs, metas]):
            n = rng.choice([1, 2, 3, 5, 8, 12, 16])
            if c == 1:
                n = 130          # one grid beyond the range of 8-bit loop counters / indices
                ctx.count("angular:N=130")
            kind, lat, lon = gen_geo_coords(rng, n)
            n = len(lat)
            cur.update(lat=lat, lon=lon)
            g = GeoGrid(np.arange(2), np.array(lat), np.array(lon), silence_level=3)
            lat32 = g.lat_sequence()
            lon32 = g.lon_sequence()
            try:
                D = np.array(g.angular_distance())
                D2 = np.array(g.distance())
            except Exception as e:  # noqa
                ctx.fail({"kind": "angular", "method": "angular_distance", "error": type(e).__name__},
                         f"angular_distance raised {type(e).__name__}: {e}", {"lat": lat, "lon": lon})
                continue
            R = gc_matrix(lat32, lon32)
            ctx.count(f"angular:{kind}")
            offd = R[~np.eye(n, dtype=bool)]
            if n >= 2:
                ctx.count("angular:has-coincident-pair", int((offd < 1e-9).any()))
                ctx.count("angular:has-near-coincident-pair",
                          int(((offd >= 1e-9) & (offd < 1e-2)).any()))
                ctx.count("angular:has-antipodal-pair", int((offd > math.pi - 1e-6).any()))
                ctx.count("angular:has-near-antipodal-pair",
                          int(((offd > math.pi - 1e-2) & (offd <= math.pi - 1e-6)).any()))
                ctx.count("angular:has-pole", int(any(abs(v) == 90 for v in lat32)))
            ctx.case(("ang", tuple(lat), tuple(lon)), n >= 2,
                     {"suite": "GeoGrid.angular_distance", "lat": lat, "lon": lon} if n <= 3 else None)
            viol = ang_violations(D, R)
            if not np.isnan(D).any() and D.shape == R.shape:
                err = np.abs(D.astype(np.float64) - R)
                stats["abs"] = max(stats["abs"], float(err.max()))
                mid = (R >= MID) & (R <= math.pi - MID)
                if mid.any():
                    stats["rel"] = max(stats["rel"], float((err[mid] / R[mid]).max()))
                stats["pairs"] += n * n
            if not np.array_equal(D, D2, equal_nan=True):
                viol.append(("distance-alias", "GeoGrid.distance() != angular_distance()"))
            viol += angular_twins(ctx, GeoGrid, rng, g, lat, lon, D)
            # the error of the stored cosine (hypotheses of theorem angular_entry_error_combined)
            if n and not np.isnan(D).any():
                C32 = np.zeros((n, n), dtype=FIELD)
                K._calculate_angular_distance(to_cy(g.cos_lat(), FIELD), to_cy(g.sin_lat(), FIELD),
                                              to_cy(g.cos_lon(), FIELD), to_cy(g.sin_lon(), FIELD),
                                              C32, n)
                dc = np.abs(C32.astype(np.float64) - cos_matrix(lat32, lon32))
                Dd = D.astype(np.float64)
                endz = ~((R >= MEND) & (R <= math.pi - MEND) & (Dd >= MEND) & (Dd <= math.pi - MEND))
                eta["all"] = max(eta["all"], float(dc.max()))
                eta["pairs"] += n * n
                if endz.any():
                    eta["end"] = max(eta["end"], float(dc[endz].max()))
                    eta["end_pairs"] += int(endz.sum())
                viol += kernel_rounding(ctx, g, C32, n, tab)
                if all(t.dtype == np.float32 for t in
                                   (g.sin_lat(), g.cos_lat(), g.sin_lon(), g.cos_lon())):
                    # round 5: the model `cosAngKernel` executed in IEEE single precision on the
                    # kernel's own (generic, non-dyadic) tables must store the same bit patterns
                    # (all sizes incl. the 130-node grid: the driver answers through `symBlock`
                    # beyond 16 nodes, theorem cosAngKernel_block)
                    kreqs.append("cosangf32 %d %s %s %s %s" % (
                        n, enc_rats(map(float, g.sin_lat())), enc_rats(map(float, g.cos_lat())),
                        enc_rats(map(float, g.sin_lon())), enc_rats(map(float, g.cos_lon()))))
                    kimpl.append(C32.copy())
            for clause, what in viol:
                ctx.fail({"kind": "angular", "class": "GeoGrid", "method": "angular_distance",
                          "clause": clause},
                         f"GeoGrid.angular_distance: {what}",
                         {"lat": lat, "lon": lon, "clause": clause, "what": what,
                          "observed": D.astype(float).tolist(), "closed_form": R.tolist()})
            if n <= 16:     # the model's matrices are closures: O(N^4) to read out (oracle only beyond)
                reqs.append(f"angdist {n} {enc_rats(map(float, lat32))} {enc_rats(map(float, lon32))}")
                outs.append(D)
                metas.append((lat, lon))

    def judge(i, m):
        Mm = np.array(dec_floatmat(m), dtype=np.float64)
        D = outs[i].astype(np.float64)
        if Mm.shape != D.shape:
            return f"shape model {Mm.shape} impl {D.shape}"
        if np.isnan(D).any() or np.isnan(Mm).any():
            return "NaN"
        err = np.abs(Mm - D)
        if err.max() >= ABS_ANG:
            return f"max abs difference {err.max():.3e} >= 2^-10"
        mid = (Mm >= MID) & (Mm <= math.pi - MID)
        if mid.any() and (err[mid] / Mm[mid]).max() > REL_ANG:
            return f"relative difference {(err[mid] / Mm[mid]).max():.3e} > 2^-17"
        return None

    lg = lambda v: round(math.log2(v), 2) if v else None     # noqa: E731
    ctx.extra["cosine_error_observed"] = {
        "theorem": "angular_entry_error_combined with m = 0.05, bound = 2^-10",
        "pairs": eta["pairs"], "end_zone_pairs": eta["end_pairs"],
        "max_eta_all_log2": lg(eta["all"]), "max_eta_end_log2": lg(eta["end"]),
        "hypothesis_eta_end_log2": lg(ETA_END), "hypothesis_eta_all_log2": lg(ETA_ALL),
        "hypotheses_hold_on_sample": eta["all"] <= ETA_ALL and eta["end"] <= ETA_END}
    ctx.count("angular:cosine-error-hypotheses-hold",
              int(eta["all"] <= ETA_ALL and eta["end"] <= ETA_END))
    bound = None
    if tab["entries"]:
        d_, ef, el = tab["delta"], tab["eps_lat"], tab["eps_lon"]
        eta_thm = ((1 + U32) ** 5 - 1) * (1 + 3 * d_) ** 2 + 5.66 * d_ + 11 * d_ * d_
        bound = math.acos(1 - eta_thm) + 2 * (ef + el)
        hyp = d_ <= 3 * 2.0 ** -25 and ef + el <= 2.0 ** -17
        ctx.extra["table_error_observed"] = {
            "theorems": "angular_entry_error_rounded / angular_entry_accuracy_float32 "
                        "(u = 2^-24, delta <= 3*2^-25, eps_lat + eps_lon <= 2^-17 => error < 3*2^-11)",
            "table_entries": tab["entries"], "pairs": tab["pairs"],
            "max_delta_in_units_of_2^-24": round(d_ / U32, 3),
            "max_eps_lat_log2": lg(ef), "max_eps_lon_log2": lg(el),
            "max_eps_over_bound_of_theorem_rRad_error": round(tab.get("eps_ratio", 0.0), 4),
            "max_kernel_rounding_error_over_rcos_core_bound": round(tab["round"], 4),
            "bound_of_the_theorem_at_the_measured_values_log2": lg(bound),
            "max_abs_err_observed_log2": lg(stats["abs"]),
            "hypotheses_of_angular_entry_accuracy_float32_hold_on_sample": hyp,
            "observed_error_within_theorem_bound": stats["abs"] <= bound}
        ctx.count("angular:table-error-hypotheses-hold", int(hyp))
        ctx.count("angular:observed-error-within-proved-bound", int(stats["abs"] <= bound))
    ctx.extra["angular_error_observed"] = {
        "pairs": stats["pairs"],
        "max_abs_err_log2": round(math.log2(stats["abs"]), 2) if stats["abs"] else None,
        "max_rel_err_mid_log2": round(math.log2(stats["rel"]), 2) if stats["rel"] else None,
        "bounds_log2": {"abs": -10, "rel_mid": -17}}
    kstat = {"entries": 0, "bitwise": 0}

    def judge_k(i, m):
        # both are float32 evaluations of the same clamped expression on the same tables:
        # theorem rcos_core puts each within ((1+u)^5 - 1)(1+kappa)^2 < 2^-21 of the exact value,
        # so they differ by less than 2^-20 whatever the order of the roundings; floats are not
        # compared for equality (the share of bitwise equal entries is recorded as evidence)
        C = kimpl[i]
        try:
            Mm = np.array([[int(t) for t in r.split(",")] for r in m.split(";")],
                          dtype=np.uint32).view(np.float32) if m != "-" else np.zeros((0, 0), np.float32)
        except ValueError:
            return f"model answer {m[:80]}"
        if Mm.shape != C.shape:
            return f"shape model {Mm.shape} impl {C.shape}"
        if np.isnan(C).any() or np.isnan(Mm).any():
            return "NaN"
        kstat["entries"] += C.size
        kstat["bitwise"] += int((C.view(np.uint32) == Mm.view(np.uint32)).sum())
        dd = np.abs(C.astype(np.float64) - Mm.astype(np.float64))
        if dd.size and dd.max() >= 2.0 ** -20:
            a, b = np.unravel_index(int(dd.argmax()), dd.shape)
            return (f"entry [{a},{b}]: kernel {float(C[a, b])!r}, model (Float32) "
                    f"{float(Mm[a, b])!r}")
        return None

    custom_correspond(ctx, "Lean cosAngKernel in IEEE Float32 ~ _calculate_angular_distance on the grid's "
                      "own float32 tables, all sizes incl. 130 nodes (every stored cosine within 2^-20)",
                      kreqs, judge_k)
    ctx.extra["kernel_float32_model"] = {
        "entries": kstat["entries"], "bitwise_equal": kstat["bitwise"],
        "note": "model cosAngKernel executed in Float32 in the order of the source"}
    custom_correspond(ctx, "Lean gridDistance .geo (Float, GeoGrid object) ~ GeoGrid.angular_distance / distance "
                      "(abs < 2^-10, rel <= 2^-17 on [0.25, pi-0.25])", reqs, judge)


# --------------------------------------------------------------------------
# F. Grid.euclidean_distance
# --------------------------------------------------------------------------

def suite_euclid(ctx, Grid, rng, ncases, maxdim):
    reqs, outs = [], []
    xreqs, xouts = [], []           # round 4: object level, exact squared distances
    for c in range(ncases):
        cur = {}
        with ImplGuard(ctx, "Grid.euclidean_distance", cur, [reqs, outs, xreqs, xouts]):
            n = rng.choice([1, 2, 3, 5, 8, 12])
            if c == 1:
                n = 130          # one grid beyond the range of 8-bit loop counters / indices
                ctx.count("euclid:N=130")
            d = rng.randrange(1, maxdim + 1)
            kind, X = gen_euc_coords(rng, d, n)
            if d <= 3 and rng.random() < 0.12:
                # a regular grid built by the public constructor from its axes (1-3 axes)
                axes = [sorted(rng.sample(range(-6, 7), rng.choice([1, 2, 3]))) for _ in range(d)]
                cur.update(space_grid=axes)
                g = Grid.RegularGrid(np.arange(2), [np.array(a, dtype=float) for a in axes],
                                     silence_level=3)
                kind, n = "regular", int(g.N)
                X = np.asarray(g._grid["space"], dtype=np.float64).reshape(d, n).tolist()
                if sorted(zip(*X)) != sorted(itertools.product(*axes)):
                    ctx.fail({"kind": "rect", "class": "Grid", "method": "RegularGrid"},
                             "nodes of Grid.RegularGrid are not exactly the Cartesian product of "
                             "the axes", {"space_grid": axes, "observed": X})
            cur.update(space_seq=X)
            if kind != "regular":
                g = Grid(np.arange(2), np.array(X, dtype=np.float64).reshape(d, n), silence_level=3)
            X32 = g._grid["space"]
            try:
                D = np.array(g.euclidean_distance())
                D2 = np.array(g.distance())
            except Exception as e:  # noqa
                ctx.fail({"kind": "euclid", "method": "euclidean_distance", "error": type(e).__name__},
                         f"euclidean_distance raised {type(e).__name__}: {e}", {"space_seq": X})
                continue
            R = euc_matrix(X32)
            ctx.count(f"euclid:{kind}")
            ctx.count(f"euclid:d={d}")
            ctx.case(("euc", d, n, str(X)), n >= 2,
                     {"suite": "Grid.euclidean_distance", "space_seq": X} if n <= 3 and d <= 2 else None)
            viol = euc_violations(D, R)
            if not np.array_equal(D, D2, equal_nan=True):
                viol.append(("distance-alias", "Grid.distance() != euclidean_distance()"))
            viol += euclid_twins(ctx, Grid, rng, g, X, d, n, D, kind)
            for clause, what in viol:
                ctx.fail({"kind": "euclid", "class": "Grid", "method": "euclidean_distance",
                          "clause": clause},
                         f"Grid.euclidean_distance: {what}",
                         {"space_seq": X, "clause": clause, "what": what,
                          "observed": D.astype(float).tolist(), "closed_form": R.tolist()})
            # the model is asked about the array the object holds (its shape, not the generator's)
            sd, sn = (int(v) for v in X32.shape)
            if sn > 27:     # the model's matrices are closures: O(N^4) to read out (oracle only beyond)
                continue
            reqs.append(f"eucld {sd} {sn} {enc_ratmat(X32.astype(np.float64).tolist())}")
            outs.append(D)
            if kind in ("lattice", "regular"):
                # small integers: squares and their sums are exact in float32, so the model's
                # exact squared distances bracket the stored value to one ulp of the root
                xreqs.append(f"eucobj2 {sd} {sn} {enc_ratmat(X32.astype(np.float64).tolist())}")
                xouts.append(D)
                ctx.count(f"euclid:exact-object-level:d={d}")

    def judge(i, m):
        Mm = np.array(dec_floatmat(m), dtype=np.float64)
        D = outs[i].astype(np.float64)
        if Mm.shape != D.shape:
            return f"shape model {Mm.shape} impl {D.shape}"
        if np.isnan(D).any():
            return "NaN"
        bad = np.abs(Mm - D) > REL_EUC * Mm
        if bad.any():
            a, b = np.argwhere(bad)[0]
            return f"[{a},{b}] model {Mm[a, b]!r} impl {D[a, b]!r}"
        return None

    custom_correspond(ctx, "Lean gridDistance .euclid (Float, object of shape (d, n)) ~ "
                      "Grid.euclidean_distance (rel <= 2^-20)", reqs, judge)

    def judge_x(i, m):
        S2 = dec_ratmat(m)
        D = xouts[i]
        if len(S2) != D.shape[0] or D.ndim != 2 or D.shape[0] != D.shape[1]:
            return f"shape model {len(S2)} impl {D.shape}"
        for a in range(len(S2)):
            for b in range(len(S2)):
                if not within_one_ulp(float(D[a, b]), S2[a][b]):
                    return (f"entry [{a},{b}]: impl {float(D[a, b])!r} not within 1 ulp of "
                            f"sqrt(model {S2[a][b]})")
        return None

    custom_correspond(ctx, "Lean gridEuclideanDistance (Rat, squared, object level) == "
                      "Grid.euclidean_distance on integer grids of dimension 1-5 / regular grids "
                      "(sqrt within 1 float32 ulp)", xreqs, judge_x)


# --------------------------------------------------------------------------
# G. GeoGrid.node_number
# --------------------------------------------------------------------------

def suite_geo_node_number(ctx, GeoGrid, rng, ngrids):
    reqs, impl, guard = [], [], []
    for c in range(ngrids):
        cur = {}
        with ImplGuard(ctx, "GeoGrid.node_number", cur, [reqs, impl, guard]):
            n = rng.choice([1, 2, 4, 7, 12])
            kind, lat, lon = gen_geo_coords(rng, n)
            n = len(lat)
            cur.update(lat=lat, lon=lon)
            g = GeoGrid(np.arange(2), np.array(lat), np.array(lon), silence_level=3)
            lat32 = [float(v) for v in g.lat_sequence()]
            lon32 = [float(v) for v in g.lon_sequence()]
            la = [math.radians(v) for v in lat32]
            lo = [math.radians(v) for v in lon32]
            for qn in range(6):
                qk = rng.choice(["node", "near", "random", "pole", "antimeridian"])
                j = rng.randrange(n)
                if qk == "node":
                    ql, qo = lat32[j], lon32[j]
                elif qk == "near":
                    e = rng.choice([1.0, 0.25, 2.0 ** -6])
                    ql = max(-90.0, min(90.0, lat32[j] + rng.uniform(-e, e)))
                    qo = lon32[j] + rng.uniform(-e, e)
                elif qk == "pole":
                    ql, qo = rng.choice([90.0, -90.0]), f32(rng.uniform(-180, 180))
                elif qk == "antimeridian":
                    ql, qo = f32(rng.uniform(-90, 90)), rng.choice([180.0, -180.0])
                else:
                    ql, qo = f32(rng.uniform(-90, 90)), f32(rng.uniform(-180, 360))
                qt = rng.choice(["float", "float", "f32", "f64", "int"])
                if qt == "f32":
                    ql, qo = f32(ql), f32(qo)
                    qa, qb = np.float32(ql), np.float32(qo)
                elif qt == "f64":
                    qa, qb = np.float64(ql), np.float64(qo)
                elif qt == "int":
                    ql, qo = float(round(ql)), float(round(qo))
                    qa, qb = int(ql), int(qo)
                else:
                    qa, qb = ql, qo
                cur.update(lat_node=ql, lon_node=qo)
                ctx.count(f"geo-node_number:query-type={qt}")
                try:
                    got = int(g.node_number(lat_node=qa, lon_node=qb))
                    ans = str(got)
                except Exception as e:  # noqa
                    got, ans = None, "raise:" + type(e).__name__
                dist = [gc_atan2(la[i], lo[i], math.radians(ql), math.radians(qo)) for i in range(n)]
                dmin = min(dist)
                ctx.count(f"geo-node_number:query={qk}")
                ctx.case(("geonn", tuple(lat), tuple(lon), ql, qo), len(set(dist)) >= 2,
                         {"suite": "GeoGrid.node_number", "lat": lat, "lon": lon,
                          "query": [ql, qo], "answer": ans} if n <= 2 else None)
                bad = None
                if got is None or not (0 <= got < n):
                    bad = "no valid node index returned"
                elif dist[got] > dmin + 2 * ABS_ANG:
                    bad = (f"returned node {got} at closed-form distance {dist[got]!r}, "
                           f"nearest node at {dmin!r}")
                else:
                    first = min(i for i in range(n)
                                if lat32[i] == lat32[got] and lon32[i] == lon32[got])
                    if first != got:
                        bad = (f"returned node {got} although node {first} has identical "
                               "coordinates (argmin must return the first minimiser)")
                if bad:
                    ctx.fail({"kind": "lookup", "class": "GeoGrid", "method": "node_number"},
                             "GeoGrid.node_number: " + bad,
                             {"lat": lat, "lon": lon, "lat_node": ql, "lon_node": qo,
                              "observed": ans, "closed_form_distances": dist})
                # model comparison only where the decision has a clear margin
                others = [dist[i] for i in range(n)
                          if not (lat32[i] == lat32[got or 0] and lon32[i] == lon32[got or 0])]
                margin = (min(others) - dmin) if others else math.inf
                reqs.append(f"geonn {n} {enc_rats(lat32)} {enc_rats(lon32)} {enc_rat(ql)} {enc_rat(qo)}")
                impl.append(ans)
                guard.append(margin > 4 * ABS_ANG and got is not None and dist[got] == dmin)
    kept = [i for i in range(len(reqs)) if guard[i]]
    ctx.count("geo-node_number:model-compared", len(kept))
    ctx.count("geo-node_number:near-tie-oracle-only", len(reqs) - len(kept))
    ctx.correspond("Lean geoGridNodeNumber (Float) == GeoGrid.node_number (clear-margin queries)",
                   [reqs[i] for i in kept], [impl[i] for i in kept])


# --------------------------------------------------------------------------
# H. node weights and area weighted connectivity
# --------------------------------------------------------------------------

def rand_adj(rng, n, directed):
    p = rng.choice([0.2, 0.5, 0.8])
    A = np.zeros((n, n), dtype=np.int8)
    for i in range(n):
        for j in range(n):
            if i != j and (directed or i < j) and rng.random() < p:
                A[i, j] = 1
                if not directed:
                    A[j, i] = 1
    return A


def suite_weights(ctx, GeoGrid, GeoNetwork, rng, ncases):
    wreqs, wimpl, areqs, aimpl = [], [], [], []
    for c in range(ncases):
        cur = {}
        with ImplGuard(ctx, "weights", cur, [wreqs, wimpl, areqs, aimpl]):
            n = rng.choice([2, 3, 5, 8])
            lat = [f32(rng.uniform(-89, 89)) for _ in range(n)]
            if rng.random() < 0.3:
                lat[0] = rng.choice([90.0, -90.0, 0.0])
            lon = [f32(rng.uniform(-180, 180)) for _ in range(n)]
            directed = rng.random() < 0.5
            A = rand_adj(rng, n, directed)
            cur.update(lat=lat, lon=lon, adjacency=A, directed=directed)
            ak, lat_arr = twin_1d(rng, lat) if rng.random() < 0.4 else ("f64", np.array(lat))
            ctx.count(f"weights:lat-array={ak}")
            g = GeoGrid(np.arange(2), lat_arr, np.array(lon), silence_level=3)
            cosl = [math.cos(math.radians(v)) for v in lat]
            wt = rng.choice(["surface", "irrigation", None])
            via = rng.choice(["init", "setter", "history", "history"])
            try:
                if via == "init":
                    net = GeoNetwork(g, adjacency=A, directed=directed, node_weight_type=wt,
                                     silence_level=3)
                elif via == "setter":
                    net = GeoNetwork(g, adjacency=A, directed=directed,
                                     node_weight_type=rng.choice(["surface", "irrigation", None]),
                                     silence_level=3)
                    net.set_node_weight_type(wt)
                else:
                    # a history of weight types on one object, with measures that cache values
                    # derived from the weights evaluated in between
                    net = GeoNetwork(g, adjacency=A, directed=directed,
                                     node_weight_type=rng.choice(["surface", "irrigation", None]),
                                     silence_level=3)
                    steps = [rng.choice(["surface", "irrigation", None, "invalid-name"])
                             for _ in range(rng.randrange(2, 5))] + [wt]
                    for st in steps:
                        net.area_weighted_connectivity(), net.nsi_degree()
                        net.set_node_weight_type(st)
                        ws = net.node_weights
                        es = {"surface": cosl, "irrigation": [v * v for v in cosl]}.get(st, [1.0] * n)
                        if ws is None or len(ws) != n or \
                                any(abs(float(ws[i]) - es[i]) > TOL_W for i in range(n)) or \
                                abs(net.total_node_weight - math.fsum(es)) > n * TOL_W:
                            ctx.fail({"kind": "weights", "class": "GeoNetwork",
                                      "method": "set_node_weight_type", "node_weight_type": str(st),
                                      "via": "history"},
                                     f"after the history {steps} of set_node_weight_type calls the "
                                     f"weights for {st!r} are not cos(lat_i) / cos^2(lat_i) / 1",
                                     {"lat": lat, "history": [str(x) for x in steps], "failed_at": str(st),
                                      "expected": es,
                                      "observed": None if ws is None else [float(v) for v in ws]})
                            break
                    ctx.count("weights:history-steps", len(steps))
                w = net.node_weights
            except Exception as e:  # noqa
                ctx.fail({"kind": "weights", "class": "GeoNetwork", "error": type(e).__name__},
                         f"GeoNetwork(node_weight_type={wt!r}) raised {type(e).__name__}: {e}",
                         {"lat": lat, "node_weight_type": wt, "via": via})
                continue
            exp = {"surface": cosl, "irrigation": [v * v for v in cosl], None: [1.0] * n}[wt]
            ctx.count(f"weights:type={wt}:{via}")
            ctx.case(("w", tuple(lat), wt, via, A.tobytes().hex(), directed), len(set(lat)) >= 2,
                     {"suite": "GeoNetwork.node_weights", "lat": lat, "node_weight_type": wt}
                     if n <= 3 else None)
            okw = w is not None and len(w) == n and \
                all(abs(float(w[i]) - exp[i]) <= TOL_W for i in range(n))
            if not okw:
                ctx.fail({"kind": "weights", "class": "GeoNetwork", "method": "set_node_weight_type",
                          "node_weight_type": str(wt)},
                         f"node_weights for node_weight_type={wt!r} are not "
                         "cos(lat_i) / cos^2(lat_i) / 1 of each node's own latitude",
                         {"lat": lat, "node_weight_type": wt, "via": via, "expected": exp,
                          "observed": None if w is None else [float(v) for v in w]})
            if w is not None and len(w) == n:
                wreqs.append(f"weights {wt or 'none'} {n} {enc_rats(lat)}")
                wimpl.append([float(v) for v in w])
            # derived bookkeeping of the node_weights setter
            if w is not None and okw and (abs(net.total_node_weight - math.fsum(exp)) > n * TOL_W
                                          or abs(net.mean_node_weight - math.fsum(exp) / n) > TOL_W):
                ctx.fail({"kind": "weights", "class": "GeoNetwork", "method": "total_node_weight"},
                         "total/mean node weight not the sum/mean of the cos-lat weights",
                         {"lat": lat, "node_weight_type": wt, "via": via,
                          "total": float(net.total_node_weight), "expected_total": math.fsum(exp)})
            # area weighted connectivity
            tot = math.fsum(cosl)
            inn = [math.fsum(cosl[i] * int(A[i, j]) for i in range(n)) / tot for j in range(n)]
            out = [math.fsum(cosl[j] * int(A[i, j]) for j in range(n)) / tot for i in range(n)]
            expd = {"inarea_weighted_connectivity": inn, "outarea_weighted_connectivity": out,
                    "area_weighted_connectivity":
                        [a + b for a, b in zip(inn, out)] if directed else inn}
            for nm, e in expd.items():
                try:
                    got = [float(v) for v in getattr(net, nm)()]
                except Exception as ex:  # noqa
                    ctx.fail({"kind": "awc", "method": nm, "error": type(ex).__name__},
                             f"{nm} raised {type(ex).__name__}: {ex}",
                             {"lat": lat, "adjacency": A.tolist(), "directed": directed})
                    continue
                ctx.count(f"awc:{nm}:directed={directed}")
                if len(got) != n or any(abs(got[i] - e[i]) > 2.0 ** -18 for i in range(n)):
                    ctx.fail({"kind": "awc", "class": "GeoNetwork", "method": nm,
                              "directed": directed},
                             f"{nm} is not the cos-lat weighted fraction of linked area",
                             {"lat": lat, "adjacency": A.tolist(), "directed": directed,
                              "expected": e, "observed": got})
                if nm == "area_weighted_connectivity" and len(got) == n:
                    areqs.append(f"awc {int(directed)} {n} {enc_rats(lat)} "
                                 f"{enc_ratmat(A.astype(float).tolist())}")
                    aimpl.append(got)

    def judge_w(i, m):
        mv = dec_floats(m)
        if len(mv) != len(wimpl[i]) or any(abs(a - b) > TOL_W for a, b in zip(mv, wimpl[i])):
            return f"model {mv} impl {wimpl[i]}"
        return None

    def judge_a(i, m):
        mv = dec_floats(m)
        if len(mv) != len(aimpl[i]) or any(abs(a - b) > 2.0 ** -18 for a, b in zip(mv, aimpl[i])):
            return f"model {mv} impl {aimpl[i]}"
        return None

    custom_correspond(ctx, "Lean nodeWeights (Float) ~ GeoNetwork.node_weights (2^-20)",
                      wreqs, judge_w)
    custom_correspond(ctx, "Lean AWC (Float) ~ GeoNetwork.area_weighted_connectivity (2^-18)",
                      areqs, judge_a)


# --------------------------------------------------------------------------
# I. link distance measures are functions of the closed-form distance matrix
# --------------------------------------------------------------------------

def suite_link_distance(ctx, Grid, GeoGrid, GeoNetwork, SpatialNetwork, rng, ncases):
    mreqs, mimpl = [], []       # exact requests: (request, implementation values, kind)
    for c in range(ncases):
        cur = {}
        with ImplGuard(ctx, "link-distance", cur, [mreqs, mimpl]):
            n = rng.choice([2, 3, 5, 8])
            directed = rng.random() < 0.5
            geo = rng.random() < 0.5
            if geo:
                _, lat, lon = gen_geo_coords(rng, n)
                n = len(lat)
            A = rand_adj(rng, n, directed)
            shape = rng.choice(["random", "random", "random", "empty", "isolated", "complete"])
            if shape == "empty":
                A[:] = 0
            elif shape == "isolated":
                i0 = rng.randrange(n)
                A[i0, :] = 0
                A[:, i0] = 0
            elif shape == "complete":
                A[:] = 1
                np.fill_diagonal(A, 0)
            cur.update(adjacency=A, directed=directed)
            if geo:
                cur.update(lat=lat, lon=lon)
                g = GeoGrid(np.arange(2), np.array(lat), np.array(lon), silence_level=3)
                net = GeoNetwork(g, adjacency=A, directed=directed, silence_level=3)
                R = gc_matrix(g.lat_sequence(), g.lon_sequence())
                tol = ABS_ANG
                desc = {"lat": lat, "lon": lon}
            else:
                d = rng.choice([1, 2, 3, 5])
                _, X = gen_euc_coords(rng, d, n)
                cur.update(space_seq=X)
                g = Grid(np.arange(2), np.array(X).reshape(d, n), silence_level=3)
                net = SpatialNetwork(g, adjacency=A, directed=directed, silence_level=3)
                R = euc_matrix(g._grid["space"])
                tol = REL_EUC * max(1.0, float(R.max())) * 4
                desc = {"space_seq": X}
            ctx.count(f"link-distance:{'geo' if geo else 'euclid'}:directed={directed}")
            ctx.count(f"link-distance:adjacency={shape}")
            ctx.case(("ld", str(desc), A.tobytes().hex(), directed), A.sum() > 0)
            Au = ((A + A.T) > 0).astype(int)
            Ai = A.astype(int)
            outdeg, indeg = Ai.sum(axis=1), Ai.sum(axis=0)
            rowmean = R.mean(axis=1)
            exp = {
                ("max_link_distance", False): [
                    max((R[i, j] for j in range(n) if Au[i, j]), default=0.0) for i in range(n)],
                ("outaverage_link_distance", False): [
                    math.fsum(R[i, j] for j in range(n) if Ai[i, j]) / outdeg[i] if outdeg[i] else 0.0
                    for i in range(n)],
                ("inaverage_link_distance", False): [
                    math.fsum(R[i, j] for i in range(n) if Ai[i, j]) / indeg[j] if indeg[j] else 0.0
                    for j in range(n)],
            }
            if not directed:
                exp[("average_link_distance", False)] = exp[("outaverage_link_distance", False)]
            # geometry_corrected=True: divided by the node's mean distance to all nodes
            for (nm, _), e in list(exp.items()):
                if nm != "max_link_distance":
                    exp[(nm, True)] = [e[i] / rowmean[i] if rowmean[i] > 0 else None for i in range(n)]
            if geo:
                cosl = [math.cos(math.radians(float(v))) for v in g.lat_sequence()]
                tot = math.fsum(cosl)
                inn = [math.fsum(cosl[i] * Ai[i, j] for i in range(n)) / tot for j in range(n)]
                out = [math.fsum(cosl[j] * Ai[i, j] for j in range(n)) / tot for i in range(n)]
                # area weighted measures built on the distances (cos of the *neighbour's* latitude)
                exp[("outtotal_link_distance", False)] = [
                    a * b for a, b in zip(exp[("outaverage_link_distance", False)], out)]
                exp[("intotal_link_distance", False)] = [
                    a * b for a, b in zip(exp[("inaverage_link_distance", False)], inn)]
                exp[("outconnectivity_weighted_distance", False)] = [
                    math.fsum(R[i, j] * cosl[j] for j in range(n) if Ai[i, j]) / (outdeg[i] * tot)
                    if outdeg[i] else 0.0 for i in range(n)]
                exp[("inconnectivity_weighted_distance", False)] = [
                    math.fsum(R[i, j] * cosl[i] for i in range(n) if Ai[i, j]) / (indeg[j] * tot)
                    if indeg[j] else 0.0 for j in range(n)]
                if not directed:
                    exp[("total_link_distance", False)] = exp[("outtotal_link_distance", False)]
                    exp[("connectivity_weighted_distance", False)] = \
                        exp[("outconnectivity_weighted_distance", False)]
            impl_vals = {}
            for (nm, corr), e in exp.items():
                try:
                    with np.errstate(all="ignore"):
                        if corr:
                            got = [float(v) for v in getattr(net, nm)(geometry_corrected=True)]
                        elif nm.endswith("average_link_distance") and rng.random() < 0.5:
                            got = [float(v) for v in getattr(net, nm)(geometry_corrected=False)]
                        else:
                            got = [float(v) for v in getattr(net, nm)()]
                except Exception as ex:  # noqa
                    ctx.fail({"kind": "link-distance", "method": nm, "error": type(ex).__name__},
                             f"{nm} raised {type(ex).__name__}: {ex}",
                             dict(desc, adjacency=A.tolist(), directed=directed,
                                  geometry_corrected=corr))
                    continue
                impl_vals[(nm, corr)] = got
                ctx.count(f"link-distance:{nm}:corrected={corr}")
                bad = len(got) != n
                for i in range(n if not bad else 0):
                    if e[i] is None:
                        continue                    # division by a zero mean distance: no value
                    t = tol
                    if corr:
                        if rowmean[i] <= 8 * tol:
                            continue                # the quotient is not determined to the accuracy
                        t = 2 * tol * (1 + e[i]) / (rowmean[i] - tol)
                    if not (abs(got[i] - e[i]) <= t):
                        bad = True
                if bad:
                    ctx.fail({"kind": "link-distance", "method": nm, "directed": directed,
                              "grid": "geo" if geo else "euclid", "geometry_corrected": corr},
                             f"{nm}(geometry_corrected={corr}) is not the max / mean / area-weighted "
                             "closed-form distance over the node's links",
                             dict(desc, adjacency=A.tolist(), directed=directed, expected=e,
                                  observed=got, geometry_corrected=corr))
            # exact model requests on the implementation's own distance matrix
            Dm = np.array(g.distance())
            if not np.isfinite(Dm).all():
                continue
            dtxt = enc_ratmat(Dm.astype(np.float64).tolist())
            atxt = enc_ratmat(Ai.tolist())
            for (nm, corr), got in impl_vals.items():
                mode = {"outaverage_link_distance": "out", "inaverage_link_distance": "in",
                        "average_link_distance": "dir" if directed else "undir"}.get(nm)
                if nm == "max_link_distance":
                    mreqs.append(f"maxld {n} {dtxt} {atxt}")
                elif mode:
                    mreqs.append(f"ald {mode} {int(corr)} {n} {dtxt} {atxt}")
                else:
                    continue
                mimpl.append((got, nm))
            if directed:
                # `average_link_distance` of a directed network (undirected adjacency, in+out degree)
                for corr in (False, True):
                    try:
                        with np.errstate(all="ignore"):
                            got = [float(v) for v in net.average_link_distance(geometry_corrected=corr)]
                        mreqs.append(f"ald dir {int(corr)} {n} {dtxt} {atxt}")
                        mimpl.append((got, "average_link_distance"))
                    except Exception:  # noqa
                        pass
            if geo:
                # round 4: connectivity weighted / total link distances, evaluated by the model on
                # the implementation's own distance matrix and cos_lat table (exact rationals)
                wtxt = enc_rats([float(v) for v in g.cos_lat()])
                und = "dir" if directed else "undir"
                for nm, mode in (("connectivity_weighted_distance", und),
                                 ("inconnectivity_weighted_distance", "in"),
                                 ("outconnectivity_weighted_distance", "out")):
                    with np.errstate(all="ignore"):
                        got = [float(v) for v in getattr(net, nm)()]
                    mreqs.append(f"cwd {mode} {n} {dtxt} {atxt} {wtxt}")
                    mimpl.append((got, nm))
                    ctx.count(f"link-distance:model:{nm}:directed={directed}")
                for nm, mode in (("total_link_distance", und), ("intotal_link_distance", "in"),
                                 ("outtotal_link_distance", "out")):
                    for corr in (False, True):
                        with np.errstate(all="ignore"):
                            got = [float(v) for v in getattr(net, nm)(geometry_corrected=corr)]
                        mreqs.append(f"tld {mode} {int(corr)} {n} {dtxt} {atxt} {wtxt}")
                        mimpl.append((got, nm))
                        ctx.count(f"link-distance:model:{nm}:corrected={corr}")

    def judge(i, m):
        got, nm = mimpl[i]
        mv = [None if t == "none" else Fr(t) for t in m.split(",")] if m != "-" else []
        if len(mv) != len(got):
            return f"model {m} impl {got}"
        for a, b in zip(mv, got):
            if a is None:
                if math.isfinite(b):
                    return f"model: division by a zero mean distance, impl {b!r}"
            elif nm == "max_link_distance":
                if Fr(b) != a:
                    return f"model {float(a)!r} impl {b!r}"
            elif not (abs(b - float(a)) <= 2.0 ** -18 * max(abs(float(a)), 2.0 ** -100)):
                return f"model {float(a)!r} impl {b!r}"
        return None

    custom_correspond(ctx, "Lean maxLinkDistNet / inALD / outALD / avgALD / (in|out)CWD / (in|out)TLD "
                      "(Rat, on the implementation's distance matrix and cos_lat table) ~ "
                      "SpatialNetwork / GeoNetwork link distance measures (max exact, means rel 2^-18)",
                      mreqs, judge)


# --------------------------------------------------------------------------
# J. the geographic weights of the climate-network classes built on GeoNetwork
# --------------------------------------------------------------------------

def suite_climate_weights(ctx, GeoGrid, rng, ncases):
    from pyunicorn.climate.climate_network import ClimateNetwork
    from pyunicorn.climate.coupled_climate_network import CoupledClimateNetwork
    import contextlib
    import io
    combos = list(itertools.product(["ClimateNetwork", "CoupledClimateNetwork"],
                                    ["surface", "irrigation", None],
                                    ["init", "set_threshold", "set_link_density"]))
    rng.shuffle(combos)
    for c in range(ncases):
        cur = {}
        with ImplGuard(ctx, "climate-weights", cur, []):
            cls, wt, op = combos[c % len(combos)]      # every combination in every run
            directed = rng.random() < 0.3
            n1, n2 = rng.choice([2, 3, 4]), rng.choice([1, 2, 3])
            n = n1 + n2
            lat = [f32(rng.uniform(-89, 89)) for _ in range(n)]
            lon = [f32(rng.uniform(-180, 180)) for _ in range(n)]
            sim = np.array([[rng.randrange(0, 9) / 8 for _ in range(n)] for _ in range(n)])
            if not directed:
                sim = np.maximum(sim, sim.T)
            np.fill_diagonal(sim, 1.0)
            desc = {"class": cls, "lat": lat, "lon": lon, "similarity": sim.tolist(),
                    "node_weight_type": wt, "directed": directed, "after": op,
                    "N_1": n1 if cls == "CoupledClimateNetwork" else None}
            cur.update(desc)
            try:
                with contextlib.redirect_stdout(io.StringIO()):   # the joint grid is built verbose
                    if cls == "ClimateNetwork":
                        g = GeoGrid(np.arange(2), np.array(lat), np.array(lon), silence_level=3)
                        net = ClimateNetwork(g, sim, threshold=0.5, directed=directed,
                                             node_weight_type=wt, silence_level=3)
                    else:
                        g1 = GeoGrid(np.arange(2), np.array(lat[:n1]), np.array(lon[:n1]), silence_level=3)
                        g2 = GeoGrid(np.arange(2), np.array(lat[n1:]), np.array(lon[n1:]), silence_level=3)
                        net = CoupledClimateNetwork(g1, g2, sim, threshold=0.5, directed=directed,
                                                    node_weight_type=wt, silence_level=3)
                    if op == "set_threshold":
                        net.set_threshold(0.25)
                    elif op == "set_link_density":
                        net.set_link_density(0.5)
                    w = net.node_weights
                    A = np.array(net.adjacency)
                    awc = [float(v) for v in net.area_weighted_connectivity()]
            except Exception as e:  # noqa
                ctx.fail({"kind": "weights", "class": cls, "error": type(e).__name__},
                         f"{cls}(node_weight_type={wt!r}) raised {type(e).__name__}: {e}", desc)
                continue
            cosl = [math.cos(math.radians(v)) for v in lat]
            exp = {"surface": cosl, "irrigation": [v * v for v in cosl], None: [1.0] * n}[wt]
            ctx.count(f"climate-weights:{cls}:type={wt}:{op}")
            ctx.case(("cw", cls, tuple(lat), wt, op, sim.tobytes().hex(), directed), True,
                     {"suite": "climate-weights", **desc} if n <= 4 else None)
            if w is None or len(w) != n or any(abs(float(w[i]) - exp[i]) > TOL_W for i in range(n)):
                ctx.fail({"kind": "weights", "class": cls, "method": "node_weights",
                          "node_weight_type": str(wt)},
                         f"{cls}.node_weights for node_weight_type={wt!r} are not the cos-lat "
                         "weights of the nodes' own latitudes",
                         dict(desc, expected=exp,
                              observed=None if w is None else [float(v) for v in w]))
            tot = math.fsum(cosl)
            inn = [math.fsum(cosl[i] * int(A[i, j]) for i in range(n)) / tot for j in range(n)]
            out = [math.fsum(cosl[j] * int(A[i, j]) for j in range(n)) / tot for i in range(n)]
            e = [a + b for a, b in zip(inn, out)] if net.directed else inn
            if len(awc) != n or any(abs(awc[i] - e[i]) > 2.0 ** -18 for i in range(n)):
                ctx.fail({"kind": "awc", "class": cls, "method": "area_weighted_connectivity",
                          "directed": directed},
                         f"{cls}.area_weighted_connectivity is not the cos-lat weighted linked area",
                         dict(desc, adjacency=A.tolist(), expected=e, observed=awc))


# --------------------------------------------------------------------------
# twins of an angular grid: caller array width / layout, node permutation, history, boundaries
# --------------------------------------------------------------------------

def angular_twins(ctx, GeoGrid, rng, g, lat, lon, D):
    out = []
    n = len(lat)
    what = rng.choice(["dtype", "perm", "history", "boundaries", "none"])
    ctx.count(f"angular:twin={what}")
    try:
        if what == "dtype":
            k1, la = twin_1d(rng, lat)
            k2, lo = twin_1d(rng, lon)
            ctx.count(f"angular:caller-array={k1}/{k2}")
            g2 = GeoGrid(np.arange(2), la, lo, silence_level=3)
            if not (np.array_equal(g2.lat_sequence(), g.lat_sequence())
                    and np.array_equal(g2.lon_sequence(), g.lon_sequence())
                    and np.array_equal(np.array(g2.angular_distance()), D, equal_nan=True)):
                out.append(("caller-array-width",
                            f"grid built from {k1}/{k2} arrays of the same values gives a "
                            "different distance matrix"))
        elif what == "perm" and n >= 2:
            perm = list(range(n))
            rng.shuffle(perm)
            g2 = GeoGrid(np.arange(2), np.array([lat[p] for p in perm]),
                         np.array([lon[p] for p in perm]), silence_level=3)
            Dp, De = np.array(g2.angular_distance()), D[np.ix_(perm, perm)]
            if np.array_equal(Dp, De, equal_nan=True):
                ctx.count("angular:permutation-twin-bitwise")
            elif (Dp.shape == De.shape and not np.isnan(Dp).any() and not np.isnan(De).any()
                  and float(np.abs(Dp.astype(np.float64) - De.astype(np.float64)).max())
                  < 2 * ABS_ANG):
                # round 5: an evaluation order that is not symmetric in (i, j) bit for bit (equal
                # over the reals) is not a violation of C12: both entries are within 2^-10 of the
                # same closed form.  An index mix-up moves entries by far more.
                ctx.count("angular:permutation-twin-within-2*2^-10")
            else:
                out.append(("permutation", f"relabelling the nodes by {perm} does not permute "
                                           "the distance matrix"))
        elif what == "history" and n >= 1:
            D0 = D.copy()
            for _ in range(rng.randrange(2, 6)):
                op = rng.choice(["node_number", "tables", "distance", "geomdist", "convlon"])
                if op == "node_number":
                    g.node_number(lat_node=rng.uniform(-90, 90), lon_node=rng.uniform(-180, 180))
                elif op == "tables":
                    g.cos_lat(), g.sin_lat(), g.cos_lon(), g.sin_lon()
                elif op == "distance":
                    g.distance()
                elif op == "geomdist" and n >= 2 and float(D0.max()) > 0:
                    g.geometric_distance_distribution(rng.choice([1, 2, 5]))
                elif op == "convlon":
                    g.convert_lon_coordinates(g.lon_sequence())
            same = np.array_equal(np.array(g.angular_distance()), D0, equal_nan=True)
            g.cache_clear()
            again = np.array_equal(np.array(g.angular_distance()), D0, equal_nan=True)
            if not (same and again):
                out.append(("history", "angular_distance() changed after other methods of the "
                                       f"same grid were called (cached: {same}, recomputed: {again})"))
        elif what == "boundaries" and n >= 1:
            b = g.boundaries()
            la32, lo32 = g.lat_sequence(), g.lon_sequence()
            exp = {"lat_min": la32.min(), "lat_max": la32.max(),
                   "lon_min": lo32.min(), "lon_max": lo32.max()}
            if any(float(b[k]) != float(v) for k, v in exp.items()):
                out.append(("boundaries", f"boundaries() {b} != min/max of the lat/lon sequences"))
            gd = g.grid()
            if not (np.array_equal(gd["lat"], la32) and np.array_equal(gd["lon"], lo32)):
                out.append(("boundaries", "grid()['lat'/'lon'] are not the lat/lon sequences"))
    except Exception as e:  # noqa
        out.append(("twin-error", f"{what}: {type(e).__name__}: {e}"))
    return out


def euclid_twins(ctx, Grid, rng, g, X, d, n, D, kind):
    out = []
    what = rng.choice(["dtype", "perm", "scale", "scale", "history", "none"])
    ctx.count(f"euclid:twin={what}")
    Xa = np.array(X, dtype=np.float64).reshape(d, n)
    try:
        if what == "dtype":
            k, Xt = twin_2d(rng, Xa)
            ctx.count(f"euclid:caller-array={k}")
            g2 = Grid(np.arange(2), Xt, silence_level=3)
            if not np.array_equal(np.array(g2.euclidean_distance()), D, equal_nan=True):
                out.append(("caller-array-width", f"grid built from a {k} array of the same values "
                                                  "gives a different distance matrix"))
        elif what == "perm" and n >= 2:
            perm = list(range(n))
            rng.shuffle(perm)
            g2 = Grid(np.arange(2), Xa[:, perm], silence_level=3)
            if not np.array_equal(np.array(g2.euclidean_distance()), D[np.ix_(perm, perm)],
                                  equal_nan=True):
                out.append(("permutation", f"relabelling the nodes by {perm} does not permute "
                                           "the distance matrix"))
        elif what == "scale" and n >= 2:
            # exact rescaling by a power of two: every distance is rescaled by the same power
            # (float32 stays far from overflow / underflow: |x| <= 2^47, squares >= 2^-110)
            k = rng.choice([-10, -6, -1, 1, 9, 20, 30])
            ctx.count(f"euclid:scale=2^{k}")
            g2 = Grid(np.arange(2), Xa * 2.0 ** k, silence_level=3)
            D2 = np.array(g2.euclidean_distance()).astype(np.float64)
            E = D.astype(np.float64) * 2.0 ** k
            ulp = np.spacing(np.maximum(D2, E).astype(np.float32)).astype(np.float64)
            if np.isnan(D2).any() or (np.abs(D2 - E) > ulp).any():
                i, j = np.argwhere(~(np.abs(D2 - E) <= ulp))[0]
                out.append(("power-of-two-scaling",
                            f"coordinates * 2^{k}: distance [{i},{j}] = {D2[i, j]!r}, "
                            f"expected {E[i, j]!r} (2^{k} * the unscaled distance)"))
        elif what == "history" and n >= 1:
            D0 = D.copy()
            for _ in range(rng.randrange(2, 5)):
                op = rng.choice(["node_number", "distance", "geomdist", "coords"])
                if op == "node_number":
                    g.node_number(tuple(rng.uniform(-10, 10) for _ in range(d)))
                elif op == "distance":
                    g.distance()
                elif op == "geomdist" and n >= 2 and float(D0.max()) > 0:
                    g.geometric_distance_distribution(rng.choice([1, 2, 5]))
                elif op == "coords":
                    g.node_coordinates(rng.randrange(n)), g.sequence(rng.randrange(d))
            same = np.array_equal(np.array(g.euclidean_distance()), D0, equal_nan=True)
            g.cache_clear()
            again = np.array_equal(np.array(g.euclidean_distance()), D0, equal_nan=True)
            if not (same and again):
                out.append(("history", "euclidean_distance() changed after other methods of the "
                                       f"same grid were called (cached: {same}, recomputed: {again})"))
    except Exception as e:  # noqa
        out.append(("twin-error", f"{what}: {type(e).__name__}: {e}"))
    return out


# --------------------------------------------------------------------------
# K. GeoGrid.convert_lon_coordinates, exact
# --------------------------------------------------------------------------

def suite_convlon(ctx, GeoGrid, rng, ncases):
    reqs, impl = [], []
    for c in range(ncases):
        cur = {}
        with ImplGuard(ctx, "convert_lon_coordinates", cur, [reqs, impl]):
            n = rng.choice([1, 2, 3, 5, 8])
            g = GeoGrid(np.arange(2), np.zeros(n), np.array([float(rng.randrange(0, 360))
                                                              for _ in range(n)]), silence_level=3)
            m = n + rng.choice([0, 0, 0, 0, 2, -1])
            kind = rng.choice(["0-360", "0-360", "edge", "wide"])
            lon = []
            for _ in range(m):
                if kind == "edge":
                    lon.append(Fr(rng.choice([0, 180, 360, -180, 720, 721, 719, 1441, 1439]), 4)
                               if rng.random() < 0.5 else Fr(rng.choice([180, 360, 0, 181, 179])))
                elif kind == "wide":
                    lon.append(Fr(rng.randrange(-4 * 400, 4 * 800), 4))
                else:
                    lon.append(Fr(rng.randrange(0, 4 * 360 + 1), 4))
            cur.update(N=n, lon_seq=lon)
            arr = np.array([float(v) for v in lon])
            if rng.random() < 0.3:
                arr = arr.astype(np.float32)
            try:
                got = np.asarray(g.convert_lon_coordinates(arr), dtype=np.float64)
                ans = enc_rats(got.tolist())
            except Exception as e:  # noqa
                got, ans = None, "raise:" + type(e).__name__
            reqs.append(f"convlon {n} {enc_rats(lon)}")
            impl.append(ans)
            ctx.count(f"convlon:{kind}")
            ctx.count("convlon:len-short" if m < n else "convlon:len-long" if m > n else "convlon:len=N")
            ctx.case(("cl", reqs[-1]), any(v > 180 for v in lon) and any(v <= 180 for v in lon),
                     {"suite": "convert_lon_coordinates", "request": reqs[-1], "answer": ans}
                     if n <= 3 else None)
            # oracle: same point of the sphere; [0, 360] is mapped into (-180, 180]
            if m >= n:
                bad = None
                if got is None or len(got) != n:
                    bad = f"no sequence of {n} longitudes returned ({ans})"
                else:
                    for i in range(n):
                        a, b = math.radians(float(lon[i])), math.radians(float(got[i]))
                        if abs(math.cos(a) - math.cos(b)) > 1e-12 or abs(math.sin(a) - math.sin(b)) > 1e-12:
                            bad = f"longitude {float(lon[i])} converted to {float(got[i])}: another point"
                        elif 0 <= lon[i] <= 360 and not (-180 < got[i] <= 180):
                            bad = f"longitude {float(lon[i])} converted to {float(got[i])}, outside (-180, 180]"
                if bad:
                    ctx.fail({"kind": "convert-lon", "class": "GeoGrid", "method": "convert_lon_coordinates"},
                             "GeoGrid.convert_lon_coordinates: " + bad,
                             {"N": n, "lon_seq": [float(v) for v in lon], "observed": ans})
    ctx.correspond("Lean convertLon (Rat) == GeoGrid.convert_lon_coordinates", reqs, impl)



# --------------------------------------------------------------------------
# L. (round 3) area-weighted histograms and neighbour statistics of the AWC
# --------------------------------------------------------------------------

def geo_symbols_float(seq, nb):
    """the symbols as the float64 code computes them (binning is not the property's subject)"""
    lo, hi = float(min(seq)), float(max(seq))
    sc = 1. / (hi - lo)
    return [int((nb - 1) * sc * (float(x) - lo)) for x in seq]


def suite_geo_hist(ctx, GeoGrid, GeoNetwork, rng, ncases):
    reqs, impl = [], []
    nreqs, nimpl = [], []
    for c in range(ncases):
        cur = {}
        with ImplGuard(ctx, "geo-hist", cur, [reqs, impl, nreqs, nimpl]):
            n = rng.choice([2, 3, 5, 8, 12])
            lat = [f32(rng.uniform(-89, 89)) for _ in range(n)]
            if rng.random() < 0.3:
                lat[rng.randrange(n)] = rng.choice([90.0, -90.0, 0.0])
            lon = [f32(rng.uniform(-180, 180)) for _ in range(n)]
            directed = rng.random() < 0.4
            A = rand_adj(rng, n, directed)
            shape = rng.choice(["random", "random", "random", "isolated", "complete", "empty"])
            if shape == "isolated":
                i0 = rng.randrange(n)
                A[i0, :] = 0
                A[:, i0] = 0
            elif shape == "complete":
                A[:] = 1
                np.fill_diagonal(A, 0)
            elif shape == "empty":
                A[:] = 0
            cur.update(lat=lat, lon=lon, adjacency=A, directed=directed)
            g = GeoGrid(np.arange(2), np.array(lat), np.array(lon), silence_level=3)
            net = GeoNetwork(g, adjacency=A, directed=directed, silence_level=3)
            cosl = [math.cos(math.radians(v)) for v in lat]
            tot = math.fsum(cosl)
            w32 = [float(v) for v in g.cos_lat()]
            nb = rng.choice([1, 2, 3, 4, 5, 8])
            skind = rng.choice(["dyadic", "dyadic", "constant", "degree", "awc", "float"])
            if skind == "dyadic":
                span = rng.choice([1, 2, 4, 8, 16])
                base = rng.randrange(-5, 6)
                seq = [float(base + rng.randrange(0, span + 1)) for _ in range(n)]
                seq[rng.randrange(n)] = float(base)
                seq[rng.randrange(n)] = float(base + span)
                if min(seq) == max(seq) or max(seq) - min(seq) != span:
                    seq[0], seq[-1] = float(base), float(base + span)
                if rng.random() < 0.3:
                    seq = [v / 4 for v in seq]
            elif skind == "constant":
                seq = [float(rng.randrange(-3, 4))] * n
            elif skind == "degree":
                seq = [float(v) for v in net.degree()]
            elif skind == "awc":
                seq = [float(v) for v in net.area_weighted_connectivity()]
            else:
                seq = [rng.uniform(-2, 2) for _ in range(n)]
            ctx.count(f"geo-hist:sequence={skind}")
            ctx.count(f"geo-hist:n_bins={nb}")
            ctx.count(f"geo-hist:adjacency={shape}")
            ctx.case(("gh", tuple(lat), tuple(seq), nb), len(set(seq)) >= 2)
            desc = {"lat": lat, "lon": lon, "sequence": seq, "n_bins": nb}
            cur.update(desc)
            constant = min(seq) == max(seq)
            cum = rng.random() < 0.4
            meth = "geographical_cumulative_distribution" if cum else "geographical_distribution"
            try:
                with np.errstate(all="ignore"):
                    res = getattr(net, meth)(np.array(seq), nb)
                got = [float(v) for v in res[0]]
                ans = None
            except Exception as e:  # noqa
                got, ans = None, "raise:" + type(e).__name__
            if constant:
                # `1. / (range_max - range_min)` on Python floats: not a clause of C12, but the model
                # must reproduce it
                ctx.count("geo-hist:constant-sequence-raises", int(ans == "raise:ZeroDivisionError"))
            elif got is None:
                ctx.fail({"kind": "geo-hist", "class": "GeoNetwork", "method": meth,
                          "error": ans}, f"{meth} raised on a non-constant sequence: {ans}", desc)
                continue
            if got is not None:
                # oracle: each node contributes the cosine of its own latitude to one bin
                sym = geo_symbols_float(seq, nb)
                exp = [math.fsum(cosl[i] for i in range(n) if sym[i] == b) / tot for b in range(nb)]
                if cum:
                    exp = [math.fsum(exp[b:]) for b in range(nb)]
                bad = len(got) != nb or any(abs(got[b] - exp[b]) > 2.0 ** -18 for b in range(nb))
                if not bad and abs((got[0] if cum else math.fsum(got)) - 1) > 2.0 ** -18:
                    bad = True
                if not bad:
                    lbb = [float(v) for v in res[2]]
                    elb = list(np.linspace(min(seq), max(seq), nb + 1)[:-1])
                    if len(lbb) != nb or any(abs(a - b) > 1e-12 * max(1, abs(b)) for a, b in zip(lbb, elb)):
                        bad = True
                if bad:
                    ctx.fail({"kind": "geo-hist", "class": "GeoNetwork", "method": meth},
                             f"{meth}: a bin is not the share of cos(lat)-area of the nodes falling "
                             "into it (each node weighted by the cosine of its own latitude), or the "
                             "bins do not sum to 1",
                             dict(desc, expected=exp, observed=got))
            # exact model request (weights = the implementation's own cos_lat table)
            if len(seq) and (got is not None or constant):
                safe = constant
                if not constant:
                    lo, hi = Fr(min(seq)), Fr(max(seq))
                    ts = [(nb - 1) * (Fr(x) - lo) / (hi - lo) for x in seq]
                    pow2 = (hi - lo).numerator == 1 or (hi - lo).denominator == 1 and \
                        ((hi - lo).numerator & ((hi - lo).numerator - 1)) == 0
                    safe = pow2 or all(t == 0 or abs(t - round(t)) > Fr(1, 10 ** 9) for t in ts)
                if safe:
                    reqs.append(f"{'geocum' if cum else 'geodist'} {nb} {enc_rats(w32)} {enc_rats(seq)}")
                    impl.append(ans if got is None else got)
                else:
                    ctx.count("geo-hist:tie-at-a-bin-boundary (oracle only)")
            # the six wrappers are geographical_(cumulative_)distribution of the AWC sequences
            if rng.random() < 0.5:
                pre = rng.choice(["", "in", "out"])
                wcum = rng.random() < 0.5
                wn = f"{pre}area_weighted_connectivity_{'cumulative_' if wcum else ''}distribution"
                awcs = getattr(net, f"{pre}area_weighted_connectivity")()
                try:
                    with np.errstate(all="ignore"):
                        a1 = getattr(net, wn)(nb)
                except ZeroDivisionError:
                    a1 = None
                try:
                    with np.errstate(all="ignore"):
                        a2 = getattr(net, "geographical_cumulative_distribution" if wcum
                                     else "geographical_distribution")(awcs, nb)
                except ZeroDivisionError:
                    a2 = None
                ctx.count(f"geo-hist:wrapper={wn}")
                same = (a1 is None) == (a2 is None) and \
                    (a1 is None or all(np.array_equal(x, y, equal_nan=True) for x, y in zip(a1, a2)))
                if not same:
                    ctx.fail({"kind": "geo-hist", "class": "GeoNetwork", "method": wn},
                             f"{wn}(n_bins) is not the geographical distribution of "
                             f"{pre}area_weighted_connectivity()",
                             dict(desc, adjacency=A.tolist(), directed=directed))
            # neighbour statistics of the AWC
            awc = [float(v) for v in net.area_weighted_connectivity()]
            Au = ((A + A.T) > 0).astype(int)
            deg = [float(v) for v in net.degree()]
            inn = [math.fsum(cosl[i] * int(A[i, j]) for i in range(n)) / tot for j in range(n)]
            out_ = [math.fsum(cosl[j] * int(A[i, j]) for j in range(n)) / tot for i in range(n)]
            cawc = [a + b for a, b in zip(inn, out_)] if directed else inn
            try:
                avg = [float(v) for v in net.average_neighbor_area_weighted_connectivity()]
            except Exception as e:  # noqa
                ctx.fail({"kind": "nb-awc", "method": "average_neighbor_area_weighted_connectivity",
                          "error": type(e).__name__}, f"raised {type(e).__name__}: {e}",
                         dict(desc, adjacency=A.tolist(), directed=directed))
                avg = None
            if avg is not None:
                nreqs.append(f"nbawc {n} {enc_rats(awc)} {enc_rats(deg)} {enc_ratmat(Au.tolist())}")
                nimpl.append(("avg", avg))
                if not directed:
                    e = [math.fsum(cawc[j] for j in range(n) if Au[i, j]) / Au[i].sum()
                         if Au[i].sum() else 0.0 for i in range(n)]
                    if len(avg) != n or any(abs(avg[i] - e[i]) > 2.0 ** -17 for i in range(n)):
                        ctx.fail({"kind": "nb-awc", "class": "GeoNetwork",
                                  "method": "average_neighbor_area_weighted_connectivity"},
                                 "average_neighbor_area_weighted_connectivity is not the mean over the "
                                 "neighbours of their cos-lat weighted connectivity",
                                 dict(desc, adjacency=A.tolist(), expected=e, observed=avg))
            try:
                mx = [float(v) for v in net.max_neighbor_area_weighted_connectivity()]
                mans = None
            except ValueError:
                mx, mans = None, "raise:ValueError"
            except Exception as e:  # noqa
                ctx.fail({"kind": "nb-awc", "method": "max_neighbor_area_weighted_connectivity",
                          "error": type(e).__name__}, f"raised {type(e).__name__}: {e}",
                         dict(desc, adjacency=A.tolist(), directed=directed))
                continue
            isolated = any(Au[i].sum() == 0 for i in range(n))
            ctx.count("nb-awc:has-isolated-node", int(isolated))
            nreqs.append(f"maxnbawc {n} {enc_rats(awc)} {enc_ratmat(Au.tolist())}")
            nimpl.append(("max", mx if mx is not None else mans))
            if mx is not None:
                e = [max((cawc[j] for j in range(n) if Au[i, j]), default=None) for i in range(n)]
                if isolated or len(mx) != n or any(abs(mx[i] - e[i]) > 2.0 ** -17 for i in range(n)):
                    ctx.fail({"kind": "nb-awc", "class": "GeoNetwork",
                              "method": "max_neighbor_area_weighted_connectivity"},
                             "max_neighbor_area_weighted_connectivity is not the maximum over the "
                             "neighbours of their cos-lat weighted connectivity",
                             dict(desc, adjacency=A.tolist(), directed=directed, expected=e, observed=mx))
            elif not isolated:
                ctx.fail({"kind": "nb-awc", "class": "GeoNetwork",
                          "method": "max_neighbor_area_weighted_connectivity", "error": "ValueError"},
                         "max_neighbor_area_weighted_connectivity raised although every node has a "
                         "neighbour", dict(desc, adjacency=A.tolist(), directed=directed))

    def judge(i, m):
        im = impl[i]
        if isinstance(im, str):
            return None if m == im else f"model {m} impl {im}"
        if m.startswith("raise") or m == "nonfinite":
            return f"model {m} impl {im}"
        mv = [float(Fr(t)) for t in m.split(",")] if m != "-" else []
        if len(mv) != len(im) or any(abs(a - b) > 2.0 ** -20 * max(a, 2.0 ** -10)
                                     for a, b in zip(mv, im)):
            return f"model {mv} impl {im}"
        return None

    def judge_n(i, m):
        kind, im = nimpl[i]
        toks = m.split(",") if m != "-" else []
        if kind == "max":
            if isinstance(im, str):
                return None if "none" in toks else f"model {m} impl {im}"
            if "none" in toks:
                return f"model {m} (a node without neighbours) impl {im}"
            if [Fr(t) for t in toks] != [Fr(v) for v in im]:
                return f"model {m} impl {im}"
            return None
        mv = [float(Fr(t)) for t in toks]
        # the implementation's AWC is a float32 array: `A * awc` is evaluated in single precision
        if len(mv) != len(im) or any(abs(a - b) > 2.0 ** -20 * max(2.0 ** -10, abs(a))
                                     for a, b in zip(mv, im)):
            return f"model {mv} impl {im}"
        return None

    custom_correspond(ctx, "Lean geoDist / cumFrom (Rat, weights = the implementation's cos_lat "
                      "table) ~ GeoNetwork.geographical_(cumulative_)distribution (rel 2^-20; "
                      "ZeroDivisionError on constant sequences)", reqs, judge)
    custom_correspond(ctx, "Lean avgNbAWC / maxNbAWC (Rat, on the implementation's AWC) ~ "
                      "(average|max)_neighbor_area_weighted_connectivity (mean rel 2^-20, max exact, ValueError "
                      "iff a node has no neighbour)", nreqs, judge_n)


# --------------------------------------------------------------------------
# M. (round 3) histograms of distances
# --------------------------------------------------------------------------

def near_edge(vals, mx, nb):
    """some value lies within 2^-18 * max of an interior bin edge (float32 edges may then put
    it on the other side than the exact edges of the model)"""
    if nb <= 1 or mx <= 0:
        return False
    for v in vals:
        t = float(v) * nb / mx
        if 0.5 < t < nb - 0.5 + 1 and abs(t - round(t)) < 2.0 ** -18 * nb and 1 <= round(t) <= nb - 1:
            return True
    return False


def suite_dist_hist(ctx, Grid, GeoGrid, GeoNetwork, SpatialNetwork, rng, ncases):
    reqs, impl = [], []
    for c in range(ncases):
        cur = {}
        with ImplGuard(ctx, "dist-hist", cur, [reqs, impl]):
            n = rng.choice([1, 2, 3, 5, 8, 12])
            geo = rng.random() < 0.5
            directed = rng.random() < 0.4
            if geo:
                _, lat, lon = gen_geo_coords(rng, n)
                n = len(lat)
                cur.update(lat=lat, lon=lon)
                g = GeoGrid(np.arange(2), np.array(lat), np.array(lon), silence_level=3)
                desc = {"lat": lat, "lon": lon}
            else:
                d = rng.choice([1, 2, 3, 5])
                _, X = gen_euc_coords(rng, d, n)
                cur.update(space_seq=X)
                g = Grid(np.arange(2), np.array(X).reshape(d, n), silence_level=3)
                desc = {"space_seq": X}
            A = rand_adj(rng, n, directed)
            shape = rng.choice(["random", "random", "empty", "complete"])
            if shape == "empty":
                A[:] = 0
            elif shape == "complete":
                A[:] = 1
                np.fill_diagonal(A, 0)
            net = (GeoNetwork if geo else SpatialNetwork)(g, adjacency=A, directed=directed,
                                                           silence_level=3) if n >= 2 else None
            nb = rng.choice([1, 2, 3, 4, 5, 7, 8])
            cur.update(adjacency=A, directed=directed, n_bins=nb)
            Dg = np.array(g.distance())
            if not np.isfinite(Dg).all():
                continue
            ctx.count(f"dist-hist:{'geo' if geo else 'euclid'}:n_bins={nb}")
            ctx.case(("dh", str(desc), nb, A.tobytes().hex()), n >= 2)
            # geometric_distance_distribution
            try:
                with np.errstate(all="ignore"):
                    dist, lbb = g.geometric_distance_distribution(nb)
                gans = [float(v) for v in dist]
            except Exception as e:  # noqa
                gans = "raise:" + type(e).__name__
            mx = float(Dg.max())
            tie_g = near_edge(Dg.flatten(), mx, nb)
            if not isinstance(gans, str) and all(math.isfinite(v) for v in gans):
                # oracle: counts of the N(N-1) off-diagonal distances per bin of width max/n_bins
                ok = abs(math.fsum(gans) - 1) < 1e-9 and len(gans) == nb
                if ok and not tie_g and np.all(np.diag(Dg) < mx / nb):
                    off = Dg[~np.eye(n, dtype=bool)].astype(np.float64)
                    idx = np.minimum((off * nb / mx).astype(int), nb - 1)
                    exp = np.bincount(idx, minlength=nb) / len(off)
                    ok = np.allclose(exp, gans, atol=1e-12)
                if not ok:
                    ctx.fail({"kind": "dist-hist", "method": "geometric_distance_distribution",
                              "grid": "geo" if geo else "euclid"},
                             "geometric_distance_distribution is not the normalised histogram of the "
                             "off-diagonal distances", dict(desc, n_bins=nb, observed=gans))
            if not tie_g:
                reqs.append(f"geomdd {n} {nb} {enc_ratmat(Dg.astype(np.float64).tolist())}")
                impl.append(gans)
            else:
                ctx.count("dist-hist:value-at-a-bin-edge (oracle only)")
            # link_distance_distribution
            if net is None:
                continue
            gts = ["euclidean", "spherical"] if geo else ["euclidean"]
            gt = rng.choice(gts)
            corr = rng.random() < 0.5
            Dl = np.array(g.angular_distance() if gt == "spherical" else g.euclidean_distance())
            try:
                with np.errstate(all="ignore"):
                    if gt == "euclidean" and not corr and rng.random() < 0.5:
                        ld = net.link_distance_distribution(nb)
                    else:
                        ld = net.link_distance_distribution(nb, grid_type=gt, geometry_corrected=corr)
                lans = [float(v) for v in ld[0]]
            except Exception as e:  # noqa
                lans = "raise:" + type(e).__name__
            ctx.count(f"dist-hist:link:{gt}:corrected={corr}")
            vals = Dl[A == 1]
            lmx = float(Dl.max())
            tie_l = near_edge(vals, lmx, nb) or (corr and tie_g)
            if not isinstance(lans, str) and all(math.isfinite(v) for v in lans) and not corr \
                    and not tie_l and lmx > 0 and len(vals):
                idx = np.minimum((vals.astype(np.float64) * nb / lmx).astype(int), nb - 1)
                exp = np.bincount(idx, minlength=nb) / len(vals)
                if len(lans) != nb or not np.allclose(exp, lans, atol=1e-12):
                    ctx.fail({"kind": "dist-hist", "method": "link_distance_distribution",
                              "grid_type": gt, "geometry_corrected": corr},
                             "link_distance_distribution is not the normalised histogram of the "
                             "distances over the links",
                             dict(desc, adjacency=A.tolist(), n_bins=nb, expected=exp.tolist(),
                                  observed=lans))
            if not tie_l:
                reqs.append(f"linkdd {int(corr)} {n} {nb} {enc_ratmat(Dl.astype(np.float64).tolist())} "
                            f"{enc_ratmat(Dg.astype(np.float64).tolist())} {enc_ratmat(A.tolist())}")
                impl.append(lans)
    # error branch: n_bins = 0
    g = Grid(np.arange(2), np.array([[0., 1., 3.]]), silence_level=3)
    try:
        g.geometric_distance_distribution(0)
        z = "no-error"
    except Exception as e:  # noqa
        z = "raise:" + type(e).__name__
    reqs.append(f"geomdd 3 0 {enc_ratmat(np.array(g.distance()).astype(np.float64).tolist())}")
    impl.append(z)

    def judge(i, m):
        im = impl[i]
        if isinstance(im, str):
            return None if m == im else f"model {m} impl {im}"
        if m == "nonfinite":
            return None if any(not math.isfinite(v) for v in im) else f"model nonfinite impl {im}"
        if m.startswith("raise"):
            return f"model {m} impl {im}"
        mv = [float(Fr(t)) for t in m.split(",")] if m != "-" else []
        if len(mv) != len(im) or any(not (abs(a - b) <= 1e-12) for a, b in zip(mv, im)):
            return f"model {mv} impl {im}"
        return None

    custom_correspond(ctx, "Lean geomDistDist / linkDistDist (Rat, on the implementation's distance "
                      "matrices) ~ Grid.geometric_distance_distribution / "
                      "SpatialNetwork.link_distance_distribution (1e-12; non-finite results and "
                      "n_bins = 0 included)", reqs, judge)


# --------------------------------------------------------------------------
# N. (round 3) GeoGrid.region_indices: exact crossing-number test
# --------------------------------------------------------------------------

def crossing_inside(poly, pt):
    """even-odd rule in Fractions; returns None if the point is within 1/1000 of an edge"""
    x, y = pt
    inside = False
    m = len(poly)
    for k in range(m):
        (x1, y1), (x2, y2) = poly[k], poly[(k + 1) % m]
        # distance to the segment (squared), to exclude boundary cases
        dx, dy = x2 - x1, y2 - y1
        L2 = dx * dx + dy * dy
        t = max(Fr(0), min(Fr(1), ((x - x1) * dx + (y - y1) * dy) / L2)) if L2 else Fr(0)
        px, py = x1 + t * dx, y1 + t * dy
        if (x - px) ** 2 + (y - py) ** 2 < Fr(1, 10 ** 6):
            return None
        if (y1 > y) != (y2 > y):
            xc = x1 + (y - y1) * dx / dy
            if x < xc:
                inside = not inside
    return inside


def suite_region(ctx, GeoGrid, rng, ncases):
    for c in range(ncases):
        cur = {}
        with ImplGuard(ctx, "region_indices", cur, []):
            n = rng.choice([1, 3, 6, 10])
            positive = rng.random() < 0.5          # all grid longitudes >= 0: negative polygon
            lat = [rng.randrange(-360, 361) / 4 for _ in range(n)]      # longitudes are remapped
            lon = [rng.randrange(0 if positive else -720, 1441 if positive else 721) / 4
                   for _ in range(n)]
            cur.update(lat=lat, lon=lon)
            g = GeoGrid(np.arange(2), np.array(lat), np.array(lon), silence_level=3)
            kind = rng.choice(["triangle", "rectangle", "quad", "pentagon"])
            cx = rng.uniform(-170, 170)
            cy = rng.uniform(-80, 80)
            if kind == "rectangle":
                w, h = rng.uniform(5, 150), rng.uniform(5, 60)
                pts = [(cx - w, cy - h), (cx + w, cy - h), (cx + w, cy + h), (cx - w, cy + h)]
            else:
                k = {"triangle": 3, "quad": 4, "pentagon": 5}[kind]
                angs = sorted(rng.uniform(0, 2 * math.pi) for _ in range(k))
                pts = [(cx + rng.uniform(10, 150) * math.cos(a), cy + rng.uniform(5, 70) * math.sin(a))
                       for a in angs]
            if rng.random() < 0.5:
                pts.reverse()
            pts = [(round(x * 8) / 8, round(y * 8) / 8) for x, y in pts]
            region = np.array([v for p in pts for v in p])
            how = rng.choice(["f64", "list", "f32", "readonly"])
            arg = region.copy()
            if how == "list":
                arg = list(region)
            elif how == "f32":
                arg = region.astype(np.float32)
            elif how == "readonly":
                arg.flags.writeable = False
            before = np.array(arg, dtype=np.float64).copy()
            ctx.count(f"region:{kind}:{how}:grid-lon>=0={positive and min(lon) >= 0}")
            ctx.case(("rg", tuple(lat), tuple(lon), tuple(region)), n >= 3)
            desc = {"lat": lat, "lon": lon, "region": region.tolist(), "region_passed_as": how}
            try:
                got = [bool(v) for v in g.region_indices(arg)]
            except Exception as e:  # noqa
                ctx.fail({"kind": "region", "method": "region_indices", "error": type(e).__name__},
                         f"region_indices raised {type(e).__name__}: {e}", desc)
                continue
            if not np.array_equal(np.array(arg, dtype=np.float64), before):
                ctx.fail({"kind": "region", "method": "region_indices", "clause": "argument-modified"},
                         "region_indices modified the caller's region array", desc)
            remap = min(lon) >= 0
            poly = [(Fr(x) + 360 if remap and x < 0 else Fr(x), Fr(y)) for x, y in pts]
            exp = [crossing_inside(poly, (Fr(lon[i]), Fr(lat[i]))) for i in range(n)]
            ctx.count("region:nodes-decided", sum(e is not None for e in exp))
            ctx.count("region:nodes-inside", sum(bool(e) for e in exp))
            # a self-intersecting remapped polygon is still decided by the even-odd rule only if
            # matplotlib uses it; restrict the comparison to polygons that stay simple
            simple = not remap or all(x >= 0 for x, _ in pts) or all(x < 0 for x, _ in pts)
            if simple and (len(got) != n or any(e is not None and e != gv for e, gv in zip(exp, got))):
                ctx.fail({"kind": "region", "class": "GeoGrid", "method": "region_indices"},
                         "region_indices does not mark exactly the nodes inside the polygon "
                         "(lon, lat pairs; negative polygon longitudes + 360 on a [0, 360] grid)",
                         dict(desc, expected=exp, observed=got))


# --------------------------------------------------------------------------
# N2. (round 5e) GeoGrid.region_indices: exact correspondence with the Lean model
#     `regionIndices` (Model/GeoRegion.lean) and the box specification of
#     `regionIndices_box_spec`, on fixed grids and boxes derived from their coordinates
# --------------------------------------------------------------------------

REGION_GRIDS = [
    # (name, lat, lon) — dyadic coordinates: matplotlib's double arithmetic is exact on them
    ("small-test", [0, 5, 10, 15, 20, 25], [2.5, 5, 7.5, 10, 12.5, 15]),
    ("east-west", [-90, -45, 0, 0, 45, 90, 12.5], [-180, -90, 0, 180, 90, -0.25, 33.75]),
    ("0-360", [-60, -30, 0, 0, 30, 60, 90], [0, 350, 10, 180, 359.75, 270, 90]),
    ("coincident", [10, 10, 10, -10], [20, 20, -20, 20]),
    ("single", [0], [0]),
]


def region_boxes(lat, lon):
    """deterministic boxes (x0, y0, x1, y1) from the grid's own coordinates"""
    xs, ys = sorted(set(lon)), sorted(set(lat))
    q = Fr(1, 4)
    out = [("hull", xs[0], ys[0], xs[-1], ys[-1]),                       # every edge hits nodes
           ("hull+", xs[0] - q, ys[0] - q, xs[-1] + q, ys[-1] + q),      # strictly around all
           ("hull-", xs[0] + q, ys[0] + q, xs[-1] - q, ys[-1] - q),
           ("globe-ew", -180, -91, 180, 90), ("globe-360", 0, -91, 360, 90),
           ("pole-edge", -180, -90, 360, 90),
           ("neg-box", -170, ys[0] - q, -q, ys[-1]),                     # remapped on a [0, 360] grid
           ("mixed-box", -20, ys[0] - q, xs[-1], ys[-1])]
    mx, my = xs[len(xs) // 2], ys[len(ys) // 2]
    out += [("node-corner", xs[0], ys[0], mx, my), ("node-corner2", mx, my, xs[-1], ys[-1]),
            ("line-x", mx, ys[0] - q, mx, ys[-1]),                       # degenerate: x0 = x1
            ("line-y", xs[0], my, xs[-1], my),                           # degenerate: y0 = y1
            ("reversed", xs[-1], ys[-1], xs[0], ys[0])]                  # corners in the other order
    return [(k, Fr(a), Fr(b), Fr(c), Fr(d)) for k, a, b, c, d in out]


def suite_region_model(ctx, GeoGrid, rng, ncases):
    reqs, impl = [], []
    grids = list(REGION_GRIDS)
    for c in range(ncases):                      # a few seed-dependent quarter-degree grids
        n = rng.choice([2, 4, 7])
        positive = rng.random() < 0.5
        grids.append((f"random-{c}", [rng.randrange(-360, 361) / 4 for _ in range(n)],
                      [rng.randrange(0 if positive else -720, 1441 if positive else 721) / 4
                       for _ in range(n)]))
    for gname, lat, lon in grids:
        lat, lon = [Fr(v) for v in lat], [Fr(v) for v in lon]
        n = len(lat)
        g = GeoGrid(np.arange(2), np.array([float(v) for v in lat]), np.array([float(v) for v in lon]),
                    silence_level=3)
        remap = min(lon) >= 0
        regions = [(k, [x0, y0, x1, y0, x1, y1, x0, y1], (x0, y0, x1, y1))
                   for k, x0, y0, x1, y1 in region_boxes(lat, lon)]
        xs, ys = sorted(set(lon)), sorted(set(lat))
        regions += [
            ("triangle-nodes", [lon[0], lat[0], lon[-1], lat[-1], xs[0] - 1, ys[-1] + 1], None),
            ("triangle", [xs[0] - 1, ys[0] - 1, xs[-1] + 1, ys[0] - 1, xs[0] - 1, ys[-1] + 1], None),
            ("bowtie", [xs[0], ys[0], xs[-1], ys[-1], xs[-1], ys[0], xs[0], ys[-1]], None),
            ("two-vertices", [xs[0] - 1, ys[0] - 1, xs[-1] + 1, ys[-1] + 1], None),
            ("odd-length", [xs[0], ys[0], xs[-1]], None)]
        for kind, region, box in regions:
            cur = {}
            with ImplGuard(ctx, "region_indices", cur, [reqs, impl]):
                region = [Fr(v) for v in region]
                cur.update(lat=lat, lon=lon, region=region)
                arg = np.array([float(v) for v in region])
                try:
                    got = [bool(v) for v in g.region_indices(arg)]
                    ans = ",".join("1" if v else "0" for v in got) or "-"
                except ValueError:
                    got, ans = None, "raise:ValueError"
                reqs.append(f"region {enc_rats(lat)} {enc_rats(lon)} {enc_rats(region)}")
                impl.append(ans)
                ctx.count(f"regionbox:{kind}:remapped={remap}")
                ctx.case(("rgm", gname, kind, reqs[-1]), n >= 2,
                         {"suite": "region_indices (model)", "request": reqs[-1], "answer": ans}
                         if n <= 4 else None)
                if box is None or got is None:
                    continue
                # the conclusion of `regionIndices_box_spec`, decided here in Fractions
                X0, y0, X1, y1 = box
                if remap:
                    X0, X1 = (X0 + 360 if X0 < 0 else X0), (X1 + 360 if X1 < 0 else X1)
                if X0 <= X1 and y0 <= y1:
                    exp = [X0 <= lon[i] <= X1 and y0 < lat[i] <= y1 for i in range(n)]
                    ctx.count("regionbox:nodes-on-boundary",
                              sum(lon[i] in (X0, X1) or lat[i] in (y0, y1) for i in range(n)))
                    if got != exp:
                        ctx.fail({"kind": "region", "class": "GeoGrid", "method": "region_indices",
                                  "clause": "box"},
                                 "region_indices of a lat/lon box does not select exactly the nodes with "
                                 "X0 <= lon <= X1 and y0 < lat <= y1 (negative box longitudes + 360 on a "
                                 "[0, 360] grid)",
                                 {"lat": [float(v) for v in lat], "lon": [float(v) for v in lon],
                                  "region": [float(v) for v in region], "expected": exp, "observed": got})
    ctx.correspond("Lean regionIndices (Rat) == GeoGrid.region_indices (boxes from the grid's own "
                   "coordinates, boundary-hitting, remapped, degenerate; triangles, bow tie, "
                   "ValueError)", reqs, impl)


# --------------------------------------------------------------------------
# O. (round 3) the cached distance matrix is handed out by reference: no public method of a
#    network built on the grid may change it  (seeded C12-3)
# --------------------------------------------------------------------------

NET_OPS = [
    ("local_geographical_clustering", {}, True),
    ("average_link_distance", {}, False), ("average_link_distance", {"geometry_corrected": True}, False),
    ("inaverage_link_distance", {}, False), ("outaverage_link_distance", {"geometry_corrected": True}, False),
    ("max_link_distance", {}, False),
    ("total_link_distance", {}, True), ("intotal_link_distance", {"geometry_corrected": True}, True),
    ("outtotal_link_distance", {}, True),
    ("connectivity_weighted_distance", {}, True), ("inconnectivity_weighted_distance", {}, True),
    ("outconnectivity_weighted_distance", {}, True),
    ("link_distance_distribution", {"n_bins": 3}, False),
    ("link_distance_distribution", {"n_bins": 4, "grid_type": "spherical", "geometry_corrected": True}, True),
    ("average_distance_weighted_path_length", {}, False),
    ("distance_weighted_closeness", {}, False),
    ("local_distance_weighted_vulnerability", {}, False),
    ("area_weighted_connectivity", {}, True),
    ("average_neighbor_area_weighted_connectivity", {}, True),
    ("area_weighted_connectivity_distribution", {"n_bins": 3}, True),
    ("distance", {}, False),
]


def suite_net_history(ctx, Grid, GeoGrid, GeoNetwork, SpatialNetwork, rng, ncases):
    for c in range(ncases):
        cur = {}
        with ImplGuard(ctx, "net-history", cur, []):
            geo = rng.random() < 0.7
            n = rng.choice([3, 5, 8])
            if geo:
                _, lat, lon = gen_geo_coords(rng, n)
                n = len(lat)
                if n < 2:
                    continue
                cur.update(lat=lat, lon=lon)
                g = GeoGrid(np.arange(2), np.array(lat), np.array(lon), silence_level=3)
                desc = {"lat": lat, "lon": lon}
            else:
                d = rng.choice([1, 2, 3, 5])
                _, X = gen_euc_coords(rng, d, n)
                cur.update(space_seq=X)
                g = Grid(np.arange(2), np.array(X).reshape(d, n), silence_level=3)
                desc = {"space_seq": X}
            directed = rng.random() < 0.3
            A = rand_adj(rng, n, directed)
            for i in range(n - 1):                    # connected: path lengths stay finite
                A[i, i + 1] = A[i + 1, i] = 1
            cur.update(adjacency=A, directed=directed)
            net = (GeoNetwork if geo else SpatialNetwork)(g, adjacency=A, directed=directed,
                                                           silence_level=3)
            other = (GeoNetwork if geo else SpatialNetwork)(g, adjacency=A.T.copy(), directed=directed,
                                                             silence_level=3)   # shares the grid
            D0 = np.array(g.distance()).copy()
            E0 = np.array(g.euclidean_distance()).copy()
            ops = [o for o in NET_OPS if geo or not o[2]]
            steps = [rng.choice(ops) for _ in range(rng.randrange(2, 6))]
            if geo and rng.random() < 0.5:
                steps.insert(rng.randrange(len(steps) + 1), NET_OPS[0])
            done = []
            ctx.case(("nh", str(desc), str([(s[0], sorted(s[1].items())) for s in steps])), True)
            for nm, kw, _ in steps:
                who = rng.choice([net, other])
                try:
                    with np.errstate(all="ignore"), contextlib.redirect_stdout(io.StringIO()):
                        getattr(who, nm)(**kw)
                except (ZeroDivisionError, ValueError):
                    pass                              # constant sequences / isolated nodes: see L
                except Exception as e:  # noqa
                    ctx.fail({"kind": "history", "method": nm, "error": type(e).__name__},
                             f"{nm}({kw}) raised {type(e).__name__}: {e}",
                             dict(desc, adjacency=A.tolist(), directed=directed, history=done + [nm]))
                    break
                done.append(nm if not kw else f"{nm}({kw})")
                ctx.count(f"net-history:{nm}")
                D1, E1 = np.array(g.distance()), np.array(g.euclidean_distance())
                if not (np.array_equal(D1, D0, equal_nan=True) and np.array_equal(E1, E0, equal_nan=True)):
                    which = "distance()" if not np.array_equal(D1, D0, equal_nan=True) \
                        else "euclidean_distance()"
                    viol = ang_violations(D1, gc_matrix(g.lat_sequence(), g.lon_sequence())) if geo \
                        else euc_violations(D1, euc_matrix(g._grid["space"]))
                    ctx.fail({"kind": "history", "class": type(net).__name__, "method": nm,
                              "clause": "cached-distance-matrix-changed"},
                             f"after {type(net).__name__}.{nm}({kw}) the grid's {which} is no longer the "
                             f"matrix it returned before (the cached array was edited in place); "
                             f"clauses now violated: {[v[0] for v in viol]}",
                             dict(desc, adjacency=A.tolist(), directed=directed, history=done,
                                  steps=[[a, b] for a, b, _ in steps[:len(done)]],
                                  before=D0.astype(float).tolist(), after=D1.astype(float).tolist()))
                    break

# --------------------------------------------------------------------------
# replay of a recorded violation:  ./check C12 --replay replays/C12_....json
# --------------------------------------------------------------------------

def replay(ctx, rp):
    """Re-evaluate the recorded input on the current working tree with the same
    oracle; reports the violation again if it still reproduces."""
    import contextlib
    import io
    from pyunicorn.core.grid import Grid
    from pyunicorn.core.geo_grid import GeoGrid
    sig, r = rp.get("signature", {}), rp.get("replay", {})
    kind = sig.get("kind")
    ctx.rule = "replay of one recorded case"
    ctx.case(("replay", json_key(r)), True, {"replay": sig})
    if kind == "angular":
        g = GeoGrid(np.arange(2), np.array(r["lat"]), np.array(r["lon"]), silence_level=3)
        D = np.array(g.angular_distance())
        R = gc_matrix(g.lat_sequence(), g.lon_sequence())
        for clause, what in ang_violations(D, R):
            ctx.fail(dict(sig, clause=clause), f"GeoGrid.angular_distance: {what}",
                     dict(r, observed=D.astype(float).tolist(), closed_form=R.tolist()))
    elif kind == "euclid":
        X = np.array(r["space_seq"], dtype=np.float64)
        g = Grid(np.arange(2), X, silence_level=3)
        D = np.array(g.euclidean_distance())
        R = euc_matrix(g._grid["space"])
        for clause, what in euc_violations(D, R):
            ctx.fail(dict(sig, clause=clause), f"Grid.euclidean_distance: {what}",
                     dict(r, observed=D.astype(float).tolist(), closed_form=R.tolist()))
    elif kind == "lookup" and sig.get("class") == "GeoGrid":
        g = GeoGrid(np.arange(2), np.array(r["lat"]), np.array(r["lon"]), silence_level=3)
        got = int(g.node_number(lat_node=r["lat_node"], lon_node=r["lon_node"]))
        la = [math.radians(float(v)) for v in g.lat_sequence()]
        lo = [math.radians(float(v)) for v in g.lon_sequence()]
        dist = [gc_atan2(la[i], lo[i], math.radians(r["lat_node"]), math.radians(r["lon_node"]))
                for i in range(len(la))]
        if dist[got] > min(dist) + 2 * ABS_ANG:
            ctx.fail(sig, f"GeoGrid.node_number returned node {got} at {dist[got]!r}, "
                     f"nearest at {min(dist)!r}", dict(r, observed=got))
    elif kind == "weights" and sig.get("class") in ("ClimateNetwork", "CoupledClimateNetwork"):
        from pyunicorn.climate.climate_network import ClimateNetwork
        from pyunicorn.climate.coupled_climate_network import CoupledClimateNetwork
        lat, lon, wt = r["lat"], r["lon"], r["node_weight_type"]
        sim = np.array(r["similarity"])
        with contextlib.redirect_stdout(io.StringIO()):
            if sig["class"] == "ClimateNetwork":
                g = GeoGrid(np.arange(2), np.array(lat), np.array(lon), silence_level=3)
                net = ClimateNetwork(g, sim, threshold=0.5, directed=r["directed"],
                                     node_weight_type=wt, silence_level=3)
            else:
                n1 = r["N_1"]
                g1 = GeoGrid(np.arange(2), np.array(lat[:n1]), np.array(lon[:n1]), silence_level=3)
                g2 = GeoGrid(np.arange(2), np.array(lat[n1:]), np.array(lon[n1:]), silence_level=3)
                net = CoupledClimateNetwork(g1, g2, sim, threshold=0.5, directed=r["directed"],
                                            node_weight_type=wt, silence_level=3)
            if r.get("after") == "set_threshold":
                net.set_threshold(0.25)
            elif r.get("after") == "set_link_density":
                net.set_link_density(0.5)
        cosl = [math.cos(math.radians(f32(v))) for v in lat]
        exp = {"surface": cosl, "irrigation": [v * v for v in cosl], None: [1.0] * len(lat)}[wt]
        w = net.node_weights
        if w is None or any(abs(float(w[i]) - exp[i]) > TOL_W for i in range(len(lat))):
            ctx.fail(sig, f"{sig['class']}.node_weights are not the cos-lat weights",
                     dict(r, expected=exp, observed=None if w is None else [float(v) for v in w]))
    elif kind == "convert-lon":
        n, lon = r["N"], r["lon_seq"]
        g = GeoGrid(np.arange(2), np.zeros(n), np.zeros(n), silence_level=3)
        got = [float(v) for v in g.convert_lon_coordinates(np.array(lon))]
        for a, b in zip(lon, got):
            ra, rb = math.radians(a), math.radians(b)
            if abs(math.cos(ra) - math.cos(rb)) > 1e-12 or abs(math.sin(ra) - math.sin(rb)) > 1e-12 \
                    or (0 <= a <= 360 and not (-180 < b <= 180)):
                ctx.fail(sig, f"GeoGrid.convert_lon_coordinates: longitude {a} converted to {b}",
                         dict(r, observed=got))
                break
    elif kind == "history" and "steps" in r:
        from pyunicorn.core.geo_network import GeoNetwork
        from pyunicorn.core.spatial_network import SpatialNetwork
        if "lat" in r:
            g = GeoGrid(np.arange(2), np.array(r["lat"]), np.array(r["lon"]), silence_level=3)
            net = GeoNetwork(g, adjacency=np.array(r["adjacency"]), directed=r["directed"],
                             silence_level=3)
        else:
            X = np.array(r["space_seq"], dtype=np.float64)
            g = Grid(np.arange(2), X.reshape(len(r["space_seq"]), -1), silence_level=3)
            net = SpatialNetwork(g, adjacency=np.array(r["adjacency"]), directed=r["directed"],
                                 silence_level=3)
        D0 = np.array(g.distance()).copy()
        for nm, kw in r["steps"]:
            try:
                with np.errstate(all="ignore"), contextlib.redirect_stdout(io.StringIO()):
                    getattr(net, nm)(**kw)
            except (ZeroDivisionError, ValueError):
                pass
            D1 = np.array(g.distance())
            if not np.array_equal(D1, D0, equal_nan=True):
                ctx.fail(sig, f"after {nm}({kw}) the grid's distance() is no longer the matrix it "
                         "returned before (the cached array was edited in place)",
                         dict(r, after=D1.astype(float).tolist()))
                break
    elif kind == "exception":
        # round 4: an exception raised by the code under test; re-build the objects of the
        # recorded case and call the recorded entry point again
        from pyunicorn.core.geo_network import GeoNetwork
        from pyunicorn.core.spatial_network import SpatialNetwork
        call = r.get("call")
        try:
            if "lat" in r and "lon" in r:
                g = GeoGrid(np.arange(2), np.array(r["lat"]), np.array(r["lon"]), silence_level=3)
            elif "space_seq" in r:
                X = np.array(r["space_seq"], dtype=np.float64)
                g = Grid(np.arange(2), X.reshape(len(r["space_seq"]), -1), silence_level=3)
            elif "space_grid" in r:
                g = Grid.RegularGrid(np.arange(2), [np.array(a, dtype=float) for a in r["space_grid"]],
                                     silence_level=3)
            else:
                g = None
            objs = [g]
            if g is not None and "adjacency" in r:
                cls_ = GeoNetwork if isinstance(g, GeoGrid) else SpatialNetwork
                objs.insert(0, cls_(g, adjacency=np.array(r["adjacency"]),
                                    directed=bool(r.get("directed", False)), silence_level=3))
            tgt = next((o for o in objs if o is not None and hasattr(o, call or "")), None)
            if tgt is None:
                print(f"[C12] cannot re-run {call}; run ./check C12 with the same VERIF_SEED")
            else:
                with np.errstate(all="ignore"), contextlib.redirect_stdout(io.StringIO()):
                    if call == "node_number" and "x" in r:
                        tgt.node_number(tuple(r["x"]))
                    elif call == "node_number":
                        tgt.node_number(lat_node=r["lat_node"], lon_node=r["lon_node"])
                    else:
                        getattr(tgt, call)()
                print(f"[C12] {call}() no longer raises on the recorded input")
        except Exception as e:  # noqa
            fr = impl_frames(e.__traceback__)
            if not fr and isinstance(e, TypeError):
                print(f"[C12] {call} needs arguments that were not recorded; run ./check C12 with "
                      "the same VERIF_SEED")
            else:
                ctx.fail(sig, f"{call}() raised {type(e).__name__}: {e}", dict(r, frames=fr))
    else:
        print(f"[C12] no replay routine for signature {sig}; run ./check C12 with the same "
              "VERIF_SEED to regenerate the case")


def json_key(o):
    import json
    return json.dumps(o, sort_keys=True, default=str)[:2000]
