"""C01 — Results always reflect the object's current state (cache coherence).

proof  : lean/Pyunicorn/Properties/C01.lean — `coherent_of_wf` (every history of every
         well-formed class table is coherent), `stale_of_uncovered`, and `wf_all` /
         `derived_fresh_all` about the tables that translate/gen_C01.py regenerates from
         the current source on every run.
tie    : * translator (every run)
         * correspondence: for every (class, cached query, mutator) the model's prediction
           "second call is a cache hit / miss" vs. the real object's `cache_info()`
search : fresh-twin oracle — after `query; mutate; query` and after random histories the
         value returned must equal that of a newly constructed object given the same
         current inputs; summary attributes likewise.
round 3: nested machine (`ncoherent_of_wf`, `nwf_all`, `flat_covers_nested_all`); call-edge
         sandwich and exact lru histories against it; two-step mutator histories; EVERY
         translator-known public mutator of every class through derived invokers
         (harness/c01_generic.py: replay twin, recomputation after cache_clear(), Network-level
         fresh twin) and the coverage obligation.
round 4: stored state under re-initialising mutators (`mode_no_leak`, `mode_wf_all` about the
         assignment-event tables of translate/c01_mode.py; harness/c01_mode.py: structural
         histories over ALL ordered pairs of mutators, constructor modes / variants and sampled
         triples, prediction correspondence, coverage); raising calls (`ncoherent_with_exceptions`,
         exact lru histories with raising calls through `xhist`).
round 5: owned Cached objects (`ocoherent_of_wf`, `owner_key_sees_owned_mutator`, `owned_pairs_ok`
         about the tables of the pairs (owner, owned object) composed in Lean from the two classes'
         own tables; harness/c01_owned.py: every public mutator of owned data / plots called through
         the owner — hit/miss vs the composed machine (`onhist`), recomputation oracle); the owner's
         view of an owned object is derived from the owned class's source, so these mutators also
         run through the stages of rounds 3/4 as dotted mutators (`rp_x.set_fixed_threshold`).
"""
import contextlib
import inspect
import io
import json
import os

import numpy as np

from . import common
from . import c01_generic as G
from . import c01_mode as MD
from . import c01_owned as OW


def quiet(fn, *a, **k):
    with contextlib.redirect_stdout(io.StringIO()):
        return fn(*a, **k)


def same(a, b):
    """value equality with NaN == NaN and a float tolerance"""
    if a is None or b is None:
        return a is None and b is None
    if isinstance(a, (tuple, list)) and isinstance(b, (tuple, list)):
        return len(a) == len(b) and all(same(x, y) for x, y in zip(a, b))
    if hasattr(a, "adjacency") and hasattr(b, "adjacency") and hasattr(a, "node_weights"):
        # derived network objects (network_1(), subnetwork(), ...): compared by content
        return a.N == b.N and a.directed == b.directed and same(a.adjacency, b.adjacency) \
            and same(a.node_weights, b.node_weights)
    if isinstance(a, dict) and isinstance(b, dict):
        return a.keys() == b.keys() and all(same(a[k], b[k]) for k in a)
    try:
        import scipy.sparse as sp
        if sp.issparse(a):
            a = a.toarray()
        if sp.issparse(b):
            b = b.toarray()
        a, b = np.asarray(a), np.asarray(b)
        if a.shape != b.shape:
            return False
        if a.dtype.kind in "fc" or b.dtype.kind in "fc":
            return bool(np.allclose(a, b, rtol=1e-8, atol=1e-10, equal_nan=True))
        return bool(np.array_equal(a, b))
    except Exception:  # noqa
        return a == b


def brief(v):
    try:
        return np.asarray(v).round(6).tolist()
    except Exception:  # noqa
        return repr(v)[:200]


# --------------------------------------------------------------------------
# class specs: factory, twin, mutators, extra queries
# --------------------------------------------------------------------------

def conn_graph(rng, n, p=0.35, directed=False, components=None):
    """random graph with `components` connected components (default: 1, sometimes 2 — several
    measures take different code paths on disconnected networks: infinite path lengths)"""
    if components is None:
        components = 2 if (n >= 6 and rng.random() < 0.35) else 1
    A = np.zeros((n, n), dtype=int)
    perm = list(range(n))
    rng.shuffle(perm)
    cut = n if components == 1 else rng.randrange(2, n - 2)
    parts = [perm[:cut], perm[cut:]] if components == 2 else [perm]
    for part in parts:
        for a, b in zip(part, part[1:]):
            A[a, b] = A[b, a] = 1
        for i, a in enumerate(part):
            for b in part[i + 1:]:
                if rng.random() < p:
                    A[a, b] = A[b, a] = 1
    if directed:
        for a in range(n):
            for b in range(n):
                if a != b and A[a, b] and rng.random() < 0.3:
                    A[a, b] = 0
        for part in parts:
            for a, b in zip(part, part[1:]):
                A[a, b] = 1
    return A


def sym_attr(rng, A):
    n = A.shape[0]
    W = np.zeros((n, n))
    for a in range(n):
        for b in range(a + 1, n):
            W[a, b] = W[b, a] = rng.choice([0.5, 1.0, 1.5, 2.0, 2.5, 3.0])
    return W


def copy_link_attrs(src, dst):
    for name in src.graph.es.attributes():
        dst.set_link_attribute(name, src.link_attribute(name))


def new_weights(o, rng):
    o.node_weights = np.array([rng.choice([0.5, 1.0, 1.5, 2.0, 3.0]) for _ in range(o.N)]) \
        + rng.random()


def new_adjacency(o, rng):
    A = conn_graph(rng, o.N, rng.choice([0.2, 0.5]), directed=False)
    if np.array_equal(A, o.adjacency):
        A = 1 - A - np.eye(o.N, dtype=int)
    o.adjacency = A


def new_edge_list(o, rng):
    A = conn_graph(rng, o.N, 0.3)
    if np.array_equal(A, o.adjacency):
        A = 1 - A - np.eye(o.N, dtype=int)
    o.set_edge_list(np.array(np.nonzero(np.triu(A))).T, o.N)


def set_attr(o, rng):
    o.set_link_attribute("w", sym_attr(rng, o.adjacency) + rng.random())


NET_MUT = {
    "set:adjacency": new_adjacency,
    "set_edge_list": new_edge_list,
    "set:node_weights": new_weights,
    "set_link_attribute": set_attr,
    "del_link_attribute": lambda o, rng: o.del_link_attribute("v"),
    "randomly_rewire": lambda o, rng: quiet(o.randomly_rewire, 5),
}
SUMMARY_NET = ["N", "directed", "n_links", "link_density", "total_node_weight",
               "mean_node_weight", "adjacency", "node_weights"]


def spec_network():
    from pyunicorn.core import Network

    def make(rng):
        n = rng.choice([6, 7, 8])
        A = conn_graph(rng, n)
        net = Network(adjacency=A, node_weights=[rng.choice([1.0, 1.5, 2.0]) for _ in range(n)],
                      silence_level=3)
        net.set_link_attribute("w", sym_attr(rng, A))
        net.set_link_attribute("v", sym_attr(rng, A))
        return net

    def twin(o):
        t = Network(adjacency=o.adjacency, directed=o.directed,
                    node_weights=o.node_weights.copy(), silence_level=3)
        copy_link_attrs(o, t)
        return t
    return dict(cls=Network, make=make, twin=twin, mutators=NET_MUT, summary=SUMMARY_NET,
                argsets={"key": ["w"], "link_attribute": ["w"]})


def small_grid(rng, n):
    from pyunicorn.core import GeoGrid
    lat = np.array([rng.choice([-60, -30, 0, 15, 30, 45, 60]) + i for i in range(n)], dtype=float)
    lon = np.array([rng.choice([0, 20, 40, 80, 120, 160]) + 2 * i for i in range(n)], dtype=float)
    return GeoGrid(np.arange(5.0), lat, lon)


def spec_geonetwork():
    from pyunicorn.core import GeoNetwork

    def make(rng):
        n = rng.choice([6, 7])
        A = conn_graph(rng, n)
        net = GeoNetwork(grid=small_grid(rng, n), adjacency=A, node_weight_type="surface",
                         silence_level=3)
        net.set_link_attribute("w", sym_attr(rng, A))
        net.set_link_attribute("v", sym_attr(rng, A))
        net._verif_explicit_w = False
        return net

    def twin(o):
        t = GeoNetwork(grid=o.grid, adjacency=o.adjacency, directed=o.directed,
                       node_weight_type=o.node_weight_type, silence_level=3)
        if getattr(o, "_verif_explicit_w", False):
            t.node_weights = o.node_weights.copy()
        copy_link_attrs(o, t)
        return t

    def explicit_w(o, rng):
        new_weights(o, rng)
        o._verif_explicit_w = True

    def nwt(o, rng):
        cur = o.node_weight_type
        o.set_node_weight_type(rng.choice([t for t in ("surface", "irrigation", None) if t != cur]))
        o._verif_explicit_w = False
    mut = dict(NET_MUT)
    mut["set:node_weights"] = explicit_w
    mut["set_node_weight_type"] = nwt
    return dict(cls=GeoNetwork, make=make, twin=twin, mutators=mut, summary=SUMMARY_NET,
                argsets={"key": ["w"], "link_attribute": ["w"]})


def spec_climatenetwork():
    from pyunicorn.climate import ClimateNetwork

    def make(rng):
        n = rng.choice([6, 7])
        S = np.zeros((n, n))
        vals = [k / 16 for k in range(1, 16)]
        for a in range(n):
            for b in range(a + 1, n):
                S[a, b] = S[b, a] = rng.choice(vals)
        np.fill_diagonal(S, 1.0)
        net = ClimateNetwork(grid=small_grid(rng, n), similarity_measure=S,
                             threshold=rng.choice([0.3, 0.4, 0.5]), node_weight_type="surface",
                             silence_level=3)
        return net

    def twin(o):
        return ClimateNetwork(grid=o.grid, similarity_measure=o.similarity_measure(),
                              threshold=o.threshold(), non_local=o.non_local(),
                              directed=o.directed, node_weight_type=o.node_weight_type,
                              silence_level=3)

    def nwt(o, rng):
        cur = o.node_weight_type
        o.set_node_weight_type(rng.choice([t for t in ("surface", "irrigation") if t != cur]))
    mut = {
        "set_threshold": lambda o, rng: o.set_threshold(
            rng.choice([t for t in (0.2, 0.35, 0.45, 0.6, 0.7) if t != o.threshold()])),
        "set_link_density": lambda o, rng: o.set_link_density(
            rng.choice([d for d in (0.2, 0.4, 0.6, 0.8) if abs(d - o.link_density) > 0.11])),
        "set_node_weight_type": nwt,
    }
    return dict(cls=ClimateNetwork, make=make, twin=twin, mutators=mut,
                summary=SUMMARY_NET + ["threshold()"], argsets={})


RP_MODES = [("threshold_std", 0.75), ("recurrence_rate", 0.35), ("local_recurrence_rate", 0.4),
            ("adaptive_neighborhood_size", 3)]


def spec_recurrenceplot():
    from pyunicorn.timeseries import RecurrencePlot

    def make(rng, mode=("threshold", 1.25)):
        n = rng.choice([12, 15])
        ts = np.array([rng.randrange(0, 9) / 2 for _ in range(n)])
        o = RecurrencePlot(ts, metric="supremum", silence_level=3, **{mode[0]: mode[1]})
        o._verif = tuple(mode)
        o._verif_ts = ts
        return o

    def twin(o):
        kind, val = o._verif
        return RecurrencePlot(o._verif_ts, metric=o.metric, silence_level=3, **{kind: val})

    def st(o, rng):
        v = rng.choice([t for t in (0.75, 1.75, 2.25, 2.75) if ("threshold", t) != o._verif])
        o.set_fixed_threshold(v)
        o._verif = ("threshold", v)

    def rr(o, rng):
        v = rng.choice([r for r in (0.2, 0.35, 0.5, 0.65) if ("recurrence_rate", r) != o._verif])
        o.set_fixed_recurrence_rate(v)
        o._verif = ("recurrence_rate", v)

    def lrr(o, rng):
        v = rng.choice([r for r in (0.2, 0.4, 0.6) if ("local_recurrence_rate", r) != o._verif])
        o.set_fixed_local_recurrence_rate(v)
        o._verif = ("local_recurrence_rate", v)
    def ans(o, rng):
        v = rng.choice([k for k in (2, 3, 4) if ("adaptive_neighborhood_size", k) != o._verif])
        o.set_adaptive_neighborhood_size(v)
        o._verif = ("adaptive_neighborhood_size", v)

    def tstd(o, rng):
        v = rng.choice([t for t in (0.5, 0.75, 1.25) if ("threshold_std", t) != o._verif])
        o.set_fixed_threshold_std(v)
        o._verif = ("threshold_std", v)
    mut = {"set_fixed_threshold": st, "set_fixed_recurrence_rate": rr,
           "set_fixed_local_recurrence_rate": lrr, "set_adaptive_neighborhood_size": ans,
           "set_fixed_threshold_std": tstd}
    return dict(cls=RecurrencePlot, make=make, twin=twin, mutators=mut, ctor_modes=RP_MODES,
                summary=["N", "recurrence_matrix()", "recurrence_rate()", "determinism()",
                         "laminarity()", "max_diaglength()", "white_vertline_dist()"],
                argsets={})


def spec_recurrencenetwork():
    from pyunicorn.timeseries import RecurrenceNetwork

    def make(rng, mode=("threshold", 1.25), variant=None):
        n = rng.choice([10, 12])
        ts = np.array([rng.randrange(0, 9) / 2 for _ in range(n)])
        kw = {}
        if variant == "missing_values":     # state vectors with missing values are left out of
            ts[rng.randrange(1, n - 1)] = np.nan    # the network by the constructor
            kw = {"missing_values": True}
        o = RecurrenceNetwork(ts, metric="supremum", silence_level=3, **{mode[0]: mode[1]}, **kw)
        o._verif_kw = kw
        o._verif = tuple(mode)
        o._verif_ts = ts
        o._verif_explicit_w = False
        return o

    def twin(o):
        kind, val = o._verif
        t = RecurrenceNetwork(o._verif_ts, metric=o.metric, silence_level=3, **{kind: val},
                              **getattr(o, "_verif_kw", {}))
        if o._verif_explicit_w:
            t.node_weights = o.node_weights.copy()
        return t

    def st(o, rng):
        v = rng.choice([t for t in (0.75, 1.75, 2.25, 2.75) if ("threshold", t) != o._verif])
        o.set_fixed_threshold(v)
        o._verif = ("threshold", v)
        o._verif_explicit_w = False

    def rr(o, rng):
        v = rng.choice([r for r in (0.2, 0.35, 0.5, 0.65) if ("recurrence_rate", r) != o._verif])
        o.set_fixed_recurrence_rate(v)
        o._verif = ("recurrence_rate", v)
        o._verif_explicit_w = False

    def ew(o, rng):
        new_weights(o, rng)
        o._verif_explicit_w = True
    def other(kind, values, setter):
        def f(o, rng):
            v = rng.choice([x for x in values if (kind, x) != o._verif])
            getattr(o, setter)(v)
            o._verif = (kind, v)
            o._verif_explicit_w = False
        return f
    mut = {"set_fixed_threshold": st, "set_fixed_recurrence_rate": rr, "set:node_weights": ew,
           "set_adaptive_neighborhood_size": other("adaptive_neighborhood_size", (2, 3, 4),
                                                   "set_adaptive_neighborhood_size"),
           "set_fixed_threshold_std": other("threshold_std", (0.5, 0.75, 1.25),
                                            "set_fixed_threshold_std"),
           "set_fixed_local_recurrence_rate": other("local_recurrence_rate", (0.2, 0.4, 0.6),
                                                    "set_fixed_local_recurrence_rate")}
    return dict(cls=RecurrenceNetwork, make=make, twin=twin, mutators=mut, ctor_modes=RP_MODES,
                ctor_variants=[{"variant": "missing_values"},
                               {"variant": "missing_values", "mode": ("local_recurrence_rate", 0.4)}],
                summary=SUMMARY_NET + ["recurrence_matrix()", "recurrence_rate()",
                                       "determinism()", "laminarity()"],
                argsets={})


def spec_resnetwork():
    from pyunicorn.core import ResNetwork

    def res_matrix(rng, A):
        R = np.zeros(A.shape)
        n = A.shape[0]
        for a in range(n):
            for b in range(a + 1, n):
                if A[a, b]:
                    R[a, b] = R[b, a] = rng.choice([1.0, 2.0, 3.0, 4.0, 0.5])
        return R

    def make(rng):
        n = rng.choice([5, 6])
        A = conn_graph(rng, n, 0.4, components=1)
        o = ResNetwork(res_matrix(rng, A), silence_level=3)
        o._verif_A = A
        return o

    def twin(o):
        return ResNetwork(np.array(o.resistances, dtype=float), silence_level=3)

    def upd(o, rng):
        R = res_matrix(rng, o._verif_A) * rng.choice([2.0, 3.0, 0.5])
        o.update_resistances(R)
    def rewire(o, rng):
        # new topology on the same nodes (some links removed, some added), then new resistances
        n = o.N
        A2 = conn_graph(rng, n, rng.choice([0.3, 0.6]), components=1)
        if np.array_equal(A2, o._verif_A):
            A2 = conn_graph(rng, n, 0.9, components=1)
        o.adjacency = A2
        o._verif_A = A2
        o.update_resistances(res_matrix(rng, A2))
    return dict(cls=ResNetwork, make=make, twin=twin,
                mutators={"update_resistances": upd, "adjacency=;update_resistances": rewire},
                summary=["N", "n_links", "get_admittance()", "get_R()",
                         "effective_resistance(0, 1)", "average_effective_resistance()",
                         "diameter_effective_resistance()", "admittive_degree()",
                         "effective_resistance_closeness_centrality(0)",
                         "vertex_current_flow_betweenness(1)"],
                argsets={}, only_summary=True)


def spec_climatedata():
    from pyunicorn.climate import ClimateData
    from pyunicorn.core import GeoGrid

    def make(rng):
        T, n = 12, 6
        obs = np.array([[rng.randrange(-8, 9) / 4 for _ in range(n)] for _ in range(T)])
        grid = GeoGrid(np.arange(float(T)), np.array([0., 10., 20., 30., 40., 50.]),
                       np.array([0., 20., 40., 60., 80., 100.]))
        o = ClimateData(observable=obs, grid=grid, time_cycle=rng.choice([3, 4]),
                        silence_level=3)
        o._verif_full = (obs.copy(), grid)
        return o

    def twin(o):
        obs, grid = o._verif_full
        from pyunicorn.core import GeoGrid as GG
        g = GG(grid._full_grid["time"].copy() if hasattr(grid, "_full_grid") else
               grid.grid()["time"].copy(), grid.grid()["lat"].copy(), grid.grid()["lon"].copy()) \
            if False else grid
        t = ClimateData(observable=obs.copy(), grid=_regrid(o), time_cycle=o.time_cycle,
                        silence_level=3)
        t.set_window(dict(o.window()))
        return t

    def _regrid(o):
        obs, grid = o._verif_full
        T, n = obs.shape
        return GeoGrid(np.arange(float(T)), np.array([0., 10., 20., 30., 40., 50.])[:n],
                       np.array([0., 20., 40., 60., 80., 100.])[:n])

    def sw(o, rng):
        w = {"time_min": float(rng.choice([0, 1, 3])), "time_max": float(rng.choice([8, 9, 11])),
             "lat_min": float(rng.choice([0, 10])), "lat_max": float(rng.choice([30, 40, 50])),
             "lon_min": 0.0, "lon_max": float(rng.choice([60, 80, 100]))}
        if w == o.window():
            w["time_min"] = 2.0
        o.set_window(w)
    mut = {"set_window": sw, "set_global_window": lambda o, rng: o.set_global_window()}
    return dict(cls=ClimateData, make=make, twin=twin, mutators=mut,
                summary=["observable()", "window()", "anomaly()", "phase_mean()"], argsets={})


def spec_surrogates():
    from pyunicorn.timeseries import Surrogates

    def make(rng):
        data = np.array([[rng.randrange(-8, 9) / 4 + 0.1 * j for j in range(16)]
                         for _ in range(3)])
        o = Surrogates(data.copy(), silence_level=3)
        return o

    def twin(o):
        t = Surrogates(o.original_data.copy(), silence_level=3)
        t._normalized = o._normalized
        return t
    # the spec's twin is built from the current state (data + `_normalized`), so it is a fresh
    # twin after ANY mutator; the two significance helpers normalise the data as a side effect
    # (they assign the mode field `_normalized`)
    mut = {"normalize_original_data": lambda o, rng: o.normalize_original_data(),
           "original_distribution": G.GENERIC["original_distribution"][0],
           "test_threshold_significance": G.GENERIC["test_threshold_significance"][0]}
    return dict(cls=Surrogates, make=make, twin=twin, mutators=mut,
                summary=["original_data", "original_data_fft()",
                         # the delay embedding the twin search works on (recomputed by every
                         # twin_surrogates call; the walk itself is random and not compared)
                         "twin_surrogates(2, 1, 0.6, 5).shape and o.embedding.copy()",
                         "twin_surrogates(2, 1, 0.6, 5).shape and o.twins(0.6, 5)"], argsets={})


def spec_visibility():
    from pyunicorn.timeseries import VisibilityGraph

    def make(rng):
        ts = np.array([float(rng.randrange(0, 12)) for _ in range(9)])
        o = VisibilityGraph(ts, silence_level=3)
        o._verif_ts = ts
        o._verif_explicit_w = False
        o.set_link_attribute("w", sym_attr(rng, o.adjacency))
        return o

    def twin(o):
        t = VisibilityGraph(o._verif_ts, silence_level=3)
        if o._verif_explicit_w:
            t.node_weights = o.node_weights.copy()
        copy_link_attrs(o, t)
        return t

    def ew(o, rng):
        new_weights(o, rng)
        o._verif_explicit_w = True
    mut = {"set:node_weights": ew, "set_link_attribute": set_attr}
    return dict(cls=VisibilityGraph, make=make, twin=twin, mutators=mut, summary=SUMMARY_NET,
                argsets={"key": ["w"], "link_attribute": ["w"]}, pre=set_attr)


def spec_jointrecurrencenetwork():
    from pyunicorn.timeseries import JointRecurrenceNetwork

    def make(rng, mode=("threshold", (1.25, 1.75))):
        n = rng.choice([9, 11])
        x = np.array([rng.randrange(0, 9) / 2 for _ in range(n)])
        y = np.array([rng.randrange(0, 9) / 2 for _ in range(n)])
        o = JointRecurrenceNetwork(x, y, silence_level=3, **{mode[0]: mode[1]})
        o._verif = tuple(mode)
        o._verif_ts = (x, y)
        return o

    def twin(o):
        kind, val = o._verif
        return JointRecurrenceNetwork(o._verif_ts[0], o._verif_ts[1], silence_level=3, **{kind: val})

    def st(o, rng):
        v = rng.choice([t for t in ((0.75, 1.25), (1.75, 2.25), (2.25, 0.75), (2.75, 2.75))
                        if ("threshold", t) != o._verif])
        o.set_fixed_threshold(v)
        o._verif = ("threshold", v)

    def rr(o, rng):
        v = rng.choice([r for r in ((0.3, 0.4), (0.5, 0.5), (0.6, 0.3))
                        if ("recurrence_rate", r) != o._verif])
        o.set_fixed_recurrence_rate(v)
        o._verif = ("recurrence_rate", v)
    return dict(cls=JointRecurrenceNetwork, make=make, twin=twin,
                ctor_modes=[("recurrence_rate", (0.4, 0.3)), ("threshold_std", (0.75, 0.5))],
                mutators={"set_fixed_threshold": st, "set_fixed_recurrence_rate": rr},
                summary=["N", "n_links", "link_density", "adjacency", "recurrence_matrix()",
                         "recurrence_rate()", "determinism()", "laminarity()"], argsets={})


def spec_jointrecurrenceplot():
    from pyunicorn.timeseries import JointRecurrencePlot

    def make(rng, mode=("threshold", (1.25, 1.75))):
        n = rng.choice([10, 13])
        x = np.array([rng.randrange(0, 9) / 2 for _ in range(n)])
        y = np.array([rng.randrange(0, 9) / 2 for _ in range(n)])
        o = JointRecurrencePlot(x, y, silence_level=3, **{mode[0]: mode[1]})
        o._verif = tuple(mode)
        o._verif_ts = (x, y)
        return o

    def twin(o):
        kind, val = o._verif
        return JointRecurrencePlot(o._verif_ts[0], o._verif_ts[1], silence_level=3, **{kind: val})

    def st(o, rng):
        v = rng.choice([t for t in ((0.75, 1.25), (1.75, 2.25), (2.25, 0.75), (2.75, 2.75))
                        if ("threshold", t) != o._verif])
        o.set_fixed_threshold(v)
        o._verif = ("threshold", v)

    def sts(o, rng):
        v = rng.choice([t for t in ((0.5, 0.75), (1.0, 0.5), (0.25, 1.5))
                        if ("threshold_std", t) != o._verif])
        o.set_fixed_threshold_std(v)
        o._verif = ("threshold_std", v)

    def rr(o, rng):
        v = rng.choice([r for r in ((0.3, 0.4), (0.5, 0.5), (0.6, 0.3))
                        if ("recurrence_rate", r) != o._verif])
        o.set_fixed_recurrence_rate(v)
        o._verif = ("recurrence_rate", v)
    return dict(cls=JointRecurrencePlot, make=make, twin=twin,
                ctor_modes=[("recurrence_rate", (0.4, 0.3)), ("threshold_std", (0.75, 0.5))],
                mutators={"set_fixed_threshold": st, "set_fixed_threshold_std": sts,
                          "set_fixed_recurrence_rate": rr},
                summary=["N", "recurrence_matrix()", "recurrence_rate()", "determinism()",
                         "laminarity()", "max_diaglength()", "white_vertline_dist()"], argsets={})


def spec_intersystem():
    from pyunicorn.timeseries import InterSystemRecurrenceNetwork

    def make(rng, mode=("threshold", (1.25, 1.75, 1.25))):
        nx, ny = rng.choice([6, 7]), rng.choice([5, 8])
        x = np.array([rng.randrange(0, 9) / 2 for _ in range(nx)])
        y = np.array([rng.randrange(0, 9) / 2 for _ in range(ny)])
        o = InterSystemRecurrenceNetwork(x, y, silence_level=3, **{mode[0]: mode[1]})
        o._verif = tuple(mode)
        o._verif_ts = (x, y)
        return o

    def twin(o):
        kind, val = o._verif
        return InterSystemRecurrenceNetwork(o._verif_ts[0], o._verif_ts[1], silence_level=3,
                                            **{kind: val})

    def st(o, rng):
        v = rng.choice([t for t in ((0.75, 1.25, 1.75), (1.75, 2.25, 0.75), (2.25, 0.75, 2.25))
                        if ("threshold", t) != o._verif])
        o.set_fixed_threshold(v)
        o._verif = ("threshold", v)

    def rr(o, rng):
        v = rng.choice([r for r in ((0.3, 0.4, 0.3), (0.5, 0.5, 0.2), (0.6, 0.3, 0.5))
                        if ("recurrence_rate", r) != o._verif])
        o.set_fixed_recurrence_rate(v)
        o._verif = ("recurrence_rate", v)
    return dict(cls=InterSystemRecurrenceNetwork, make=make, twin=twin,
                ctor_modes=[("recurrence_rate", (0.4, 0.3, 0.5))],
                mutators={"set_fixed_threshold": st, "set_fixed_recurrence_rate": rr},
                summary=["N", "n_links", "link_density", "adjacency", "inter_system_recurrence_matrix()",
                         "internal_recurrence_rates()", "cross_recurrence_rate()",
                         "cross_global_clustering_xy()", "cross_transitivity_xy()"],
                argsets={})


def spec_spatialnetwork():
    from pyunicorn.core import SpatialNetwork, Grid

    def make(rng):
        n = rng.choice([6, 7])
        A = conn_graph(rng, n)
        nprng = np.random.RandomState(rng.randrange(2 ** 31))
        grid = Grid(np.arange(4.0), nprng.rand(2, n) * 10, silence_level=3)
        net = SpatialNetwork(grid=grid, adjacency=A, silence_level=3)
        net.set_link_attribute("w", sym_attr(rng, A))
        net.set_link_attribute("v", sym_attr(rng, A))
        return net

    def twin(o):
        t = SpatialNetwork(grid=o.grid, adjacency=o.adjacency, directed=o.directed,
                           silence_level=3)
        t.node_weights = o.node_weights.copy()
        copy_link_attrs(o, t)
        return t
    return dict(cls=SpatialNetwork, make=make, twin=twin, mutators=NET_MUT, summary=SUMMARY_NET,
                argsets={"key": ["w"], "link_attribute": ["w"]})


def _clim_mut():
    return {
        "set_threshold": lambda o, rng: o.set_threshold(
            rng.choice([t for t in (0.25, 0.35, 0.5, 0.6) if t != o.threshold()])),
        "set_non_local": lambda o, rng: o.set_non_local(not o.non_local()),
        "set_link_density": lambda o, rng: o.set_link_density(rng.choice([0.3, 0.45, 0.6])),
    }


def _two_grids(rng):
    from pyunicorn.core import GeoGrid
    T = 36
    n1, n2 = rng.choice([3, 4]), rng.choice([3, 4])
    g1 = GeoGrid(np.arange(float(T)), np.array([rng.choice([-40., -10., 25.]) + i for i in range(n1)]),
                 np.array([rng.choice([0., 40., 100.]) + 3 * i for i in range(n1)]), silence_level=3)
    g2 = GeoGrid(np.arange(float(T)), np.array([rng.choice([-30., 5., 50.]) + i for i in range(n2)]),
                 np.array([rng.choice([20., 160.]) + 3 * i for i in range(n2)]), silence_level=3)
    return T, n1, n2, g1, g2


def spec_coupledclimate():
    import pyunicorn.climate as C

    def make(rng):
        T, n1, n2, g1, g2 = _two_grids(rng)
        nprng = np.random.RandomState(rng.randrange(2 ** 31))
        S = nprng.rand(n1 + n2, n1 + n2)
        S = (S + S.T) / 2
        np.fill_diagonal(S, 1.0)
        o = C.CoupledClimateNetwork(g1, g2, S.copy(), threshold=0.4, non_local=rng.random() < 0.5,
                                    silence_level=3)
        o._verif_in = (g1, g2, S)
        return o

    def twin(o):
        g1, g2, S = o._verif_in
        return C.CoupledClimateNetwork(g1, g2, S.copy(), threshold=o.threshold(),
                                       non_local=o.non_local(), node_weight_type=o.node_weight_type,
                                       silence_level=3)
    return dict(cls=C.CoupledClimateNetwork, make=make, twin=twin, mutators=_clim_mut(),
                summary=SUMMARY_NET + ["threshold()", "non_local()", "number_cross_layer_links()",
                                       "number_internal_links()", "cross_link_density()",
                                       "cross_degree()", "internal_degree()", "cross_transitivity()",
                                       "adjacency_1()", "cross_layer_adjacency()"],
                argsets={})


def spec_coupledtsonis():
    import pyunicorn.climate as C

    def make(rng):
        T, n1, n2, g1, g2 = _two_grids(rng)
        nprng = np.random.RandomState(rng.randrange(2 ** 31))
        o1, o2 = nprng.randn(T, n1), nprng.randn(T, n2)
        o2[:, 0] += o1[:, 0]
        mk = lambda: (C.ClimateData(observable=o1.copy(), grid=g1, time_cycle=12, silence_level=3),  # noqa
                      C.ClimateData(observable=o2.copy(), grid=g2, time_cycle=12, silence_level=3))
        o = C.CoupledTsonisClimateNetwork(*mk(), threshold=0.4, non_local=rng.random() < 0.5,
                                          silence_level=3)
        o._verif_mk = mk
        return o

    def twin(o):
        return C.CoupledTsonisClimateNetwork(*o._verif_mk(), threshold=o.threshold(),
                                             non_local=o.non_local(),
                                             node_weight_type=o.node_weight_type, silence_level=3)
    return dict(cls=C.CoupledTsonisClimateNetwork, make=make, twin=twin, mutators=_clim_mut(),
                summary=SUMMARY_NET + ["threshold()", "non_local()", "similarity_measure()",
                                       "number_cross_layer_links()", "cross_link_density()",
                                       "cross_degree()"], argsets={})


def spec_rainfall():
    import pyunicorn.climate as C
    from pyunicorn.core import GeoGrid

    def make(rng):
        n, T = rng.choice([5, 6]), 48
        nprng = np.random.RandomState(rng.randrange(2 ** 31))
        obs = np.abs(nprng.randn(T, n)) * (nprng.rand(T, n) < 0.7)
        lat = np.array([rng.choice([-40., -10., 0., 25.]) + i for i in range(n)])
        lon = np.array([rng.choice([0., 40., 100.]) + 3 * i for i in range(n)])
        grid = GeoGrid(np.arange(float(T)), lat, lon, silence_level=3)
        mk = lambda: C.ClimateData(observable=obs.copy(), grid=grid, time_cycle=12, silence_level=3)  # noqa
        o = C.RainfallClimateNetwork(mk(), threshold=0.3, non_local=rng.random() < 0.5,
                                     scale_fac=1.0, offset=0.0, silence_level=3)
        o._verif_mk = mk
        return o

    def twin(o):
        return C.RainfallClimateNetwork(o._verif_mk(), threshold=o.threshold(),
                                        non_local=o.non_local(), scale_fac=1.0, offset=0.0,
                                        node_weight_type=o.node_weight_type, silence_level=3)
    return dict(cls=C.RainfallClimateNetwork, make=make, twin=twin, mutators=_clim_mut(),
                summary=SUMMARY_NET + ["threshold()", "non_local()", "similarity_measure()"],
                argsets={})


def spec_eventseriesclimate():
    import pyunicorn.climate as C
    from pyunicorn.core import GeoGrid

    def make(rng):
        n, T = rng.choice([4, 5]), 40
        nprng = np.random.RandomState(rng.randrange(2 ** 31))
        ev = (nprng.rand(T, n) < 0.3).astype(float)
        lat = np.array([rng.choice([-40., -10., 0., 25.]) + i for i in range(n)])
        lon = np.array([rng.choice([0., 40., 100.]) + 3 * i for i in range(n)])
        grid = GeoGrid(np.arange(float(T)), lat, lon, silence_level=3)
        method = rng.choice(["ES", "ECA"])
        mk = lambda **kw: C.EventSeriesClimateNetwork(  # noqa
            C.ClimateData(observable=ev.copy(), grid=grid, time_cycle=12, silence_level=3),
            method=method, taumax=3.0, symmetrization="mean", silence_level=3, **kw)
        o = mk()
        o._verif_mk = mk
        return o

    def twin(o):
        # the constructor always thresholds at 0: a threshold can only be given through the setter
        t = o._verif_mk(non_local=o.non_local(), node_weight_type=o.node_weight_type)
        if o.threshold() != t.threshold():
            t.set_threshold(o.threshold())
        return t
    mut = _clim_mut()
    mut["set_threshold"] = lambda o, rng: o.set_threshold(
        rng.choice([t for t in (0.1, 0.2, 0.3, 0.4) if t != o.threshold()]))
    return dict(cls=C.EventSeriesClimateNetwork, make=make, twin=twin, mutators=mut,
                summary=SUMMARY_NET + ["threshold()", "non_local()", "similarity_measure()"],
                argsets={})


def spec_eventseries():
    from pyunicorn.eventseries import EventSeries

    def make(rng):
        n, T = rng.choice([3, 4]), 30
        nprng = np.random.RandomState(rng.randrange(2 ** 31))
        ev = (nprng.rand(T, n) < 0.3).astype(int)
        ev[0], ev[-1] = 0, 0
        for j in range(n):          # every variable has at least three events
            ev[[3 + j, 11 + j, 20 + j], j] = 1
        o = EventSeries(ev.copy(), taumax=rng.choice([3.0, 5.0]), lag=rng.choice([0.0, 1.0]))
        o._verif_ev = ev
        o._verif_kw = dict(taumax=o._EventSeries__taumax, lag=o._EventSeries__lag) \
            if hasattr(o, "_EventSeries__taumax") else None
        return o

    def twin(o):
        kw = o._verif_kw or {}
        return EventSeries(o._verif_ev.copy(), **kw)
    # no public mutator: histories are sequences of queries (C06 runs every ordered pair)
    return dict(cls=EventSeries, make=make, twin=twin, mutators={},
                summary=["get_event_matrix()", "event_series_analysis()",
                         "event_series_analysis(method='ES', symmetrization='min')",
                         "event_series_analysis(method='ES', symmetrization='antisym')",
                         "event_series_analysis(method='ECA', symmetrization='mean')"],
                argsets={"symmetrization": ["directed", "symmetric", "antisym", "mean", "max", "min"],
                         "method": ["ES", "ECA"],
                         "window_type": ["symmetric", "retarded", "advanced"]})


def spec_crossrecurrenceplot():
    from pyunicorn.timeseries import CrossRecurrencePlot

    def make(rng, mode=("threshold", 1.25)):
        x = np.array([rng.randrange(0, 9) / 2 for _ in range(rng.choice([8, 10]))])
        y = np.array([rng.randrange(0, 9) / 2 for _ in range(rng.choice([7, 9]))])
        o = CrossRecurrencePlot(x, y, silence_level=3, **{mode[0]: mode[1]})
        o._verif = tuple(mode)
        o._verif_ts = (x, y)
        return o

    def twin(o):
        kind, val = o._verif
        return CrossRecurrencePlot(o._verif_ts[0], o._verif_ts[1], silence_level=3, **{kind: val})

    def st(o, rng):
        v = rng.choice([t for t in (0.75, 1.75, 2.25, 2.75) if ("threshold", t) != o._verif])
        o.set_fixed_threshold(v)
        o._verif = ("threshold", v)

    def rr(o, rng):
        v = rng.choice([r for r in (0.2, 0.35, 0.5, 0.65) if ("recurrence_rate", r) != o._verif])
        o.set_fixed_recurrence_rate(v)
        o._verif = ("recurrence_rate", v)
    def newy(o, rng):
        # replace the second trajectory (same length: N, M are fixed at construction), then
        # re-threshold: the plot must be that of the new pair of series
        y = np.array([[rng.randrange(0, 9) / 2] for _ in range(len(o._verif_ts[1]))])
        o.y_embedded = y
        o._verif_ts = (o._verif_ts[0], y[:, 0].copy())
        (st if rng.random() < 0.5 else rr)(o, rng)

    def newx(o, rng):
        x = np.array([[rng.randrange(0, 9) / 2] for _ in range(len(o._verif_ts[0]))])
        o.x_embedded = x
        o._verif_ts = (x[:, 0].copy(), o._verif_ts[1])
        (st if rng.random() < 0.5 else rr)(o, rng)
    return dict(cls=CrossRecurrencePlot, make=make, twin=twin,
                ctor_modes=[("recurrence_rate", 0.35)],
                mutators={"set_fixed_threshold": st, "set_fixed_recurrence_rate": rr,
                          "y_embedded=;rethreshold": newy, "x_embedded=;rethreshold": newx},
                summary=["N", "M", "recurrence_matrix()", "cross_recurrence_rate()", "balance()"],
                argsets={})


def spec_interacting():
    from pyunicorn.core import InteractingNetworks

    def make(rng):
        n = rng.choice([6, 7])
        A = conn_graph(rng, n)
        net = InteractingNetworks(adjacency=A, node_weights=[rng.choice([1.0, 1.5, 2.0])
                                                             for _ in range(n)], silence_level=3)
        net.set_link_attribute("w", sym_attr(rng, A))
        net.set_link_attribute("v", sym_attr(rng, A))
        return net

    def twin(o):
        t = InteractingNetworks(adjacency=o.adjacency, directed=o.directed,
                                node_weights=o.node_weights.copy(), silence_level=3)
        copy_link_attrs(o, t)
        return t
    L1, L2 = "[0, 2, 4]", "[1, 3, 5]"
    summ = [f"{m}({L1}, {L2})" for m in
            ("cross_degree", "cross_link_density", "cross_average_path_length",
             "cross_closeness", "cross_transitivity", "cross_local_clustering",
             "nsi_cross_degree", "nsi_cross_local_clustering", "cross_path_lengths")] + \
        [f"{m}({L1})" for m in ("internal_degree", "internal_path_lengths", "internal_closeness",
                                 "number_internal_links")] + \
        [f"cross_average_path_length({L1}, {L2}, 'w')", f"cross_link_attribute('w', {L1}, {L2})"]
    return dict(cls=InteractingNetworks, make=make, twin=twin, mutators=NET_MUT,
                summary=SUMMARY_NET + summ, argsets={}, only_summary=True)


def _climate_from_data(cls_name, knob, values, extra_kw=None, flip_kw=None):
    """spec builder for climate networks that derive their similarity from a ClimateData
    object and can re-derive it on a live object (set_<knob>)"""
    def spec():
        import pyunicorn.climate as C
        from pyunicorn.core import GeoGrid
        cls = getattr(C, cls_name)

        def make(rng, mode=("threshold", 0.4)):
            n, T = rng.choice([5, 6]), 36
            nprng = np.random.RandomState(rng.randrange(2 ** 31))
            obs = nprng.randn(T, n)
            for j in range(1, n):
                if rng.random() < 0.5:
                    obs[:, j] += rng.choice([0.5, 1.0, 2.0]) * obs[:, rng.randrange(j)]
            lat = np.array([rng.choice([-40., -10., 0., 25., 50.]) + i for i in range(n)])
            lon = np.array([rng.choice([0., 40., 100., 160.]) + 3 * i for i in range(n)])
            grid = GeoGrid(np.arange(float(T)), lat, lon, silence_level=3)
            nl = rng.random() < 0.5
            v = rng.choice(values)
            o = cls(C.ClimateData(observable=obs.copy(), grid=grid, time_cycle=12, silence_level=3),
                    non_local=nl, silence_level=3, **{mode[0]: mode[1]}, **{knob: v},
                    **(extra_kw or {}))
            o._verif_obs, o._verif_grid, o._verif_knob = obs, grid, v
            return o

        def twin(o):
            data = C.ClimateData(observable=o._verif_obs.copy(), grid=o._verif_grid,
                                 time_cycle=12, silence_level=3)
            return cls(data, threshold=o.threshold(), non_local=o.non_local(), silence_level=3,
                       node_weight_type=o.node_weight_type, **{knob: o._verif_knob},
                       **(extra_kw or {}))

        def flip(o, rng):
            v = rng.choice([x for x in values if x != o._verif_knob])
            getattr(o, "set_" + knob)(v, **(flip_kw or {}))
            o._verif_knob = v
        mut = {
            "set_threshold": lambda o, rng: o.set_threshold(
                rng.choice([t for t in (0.25, 0.35, 0.5, 0.6) if t != o.threshold()])),
            "set_non_local": lambda o, rng: o.set_non_local(not o.non_local()),
            "set_link_density": lambda o, rng: o.set_link_density(rng.choice([0.3, 0.45, 0.6])),
            "set_" + knob: flip,
        }
        return dict(cls=cls, make=make, twin=twin, mutators=mut,
                    ctor_modes=[("link_density", 0.45)],
                    summary=SUMMARY_NET + ["threshold()", "similarity_measure()", "non_local()"],
                    argsets={})
    return spec


SPECS = {
    "Network": spec_network, "GeoNetwork": spec_geonetwork, "ClimateNetwork": spec_climatenetwork,
    "RecurrencePlot": spec_recurrenceplot, "RecurrenceNetwork": spec_recurrencenetwork,
    "ResNetwork": spec_resnetwork, "ClimateData": spec_climatedata, "Surrogates": spec_surrogates,
    "VisibilityGraph": spec_visibility, "JointRecurrenceNetwork": spec_jointrecurrencenetwork,
    "CrossRecurrencePlot": spec_crossrecurrenceplot, "InteractingNetworks": spec_interacting,
    "TsonisClimateNetwork": _climate_from_data("TsonisClimateNetwork", "winter_only", [False, True]),
    "HavlinClimateNetwork": _climate_from_data("HavlinClimateNetwork", "max_delay", [2, 4]),
    "HilbertClimateNetwork": _climate_from_data("HilbertClimateNetwork", "directed", [False, True]),
    "SpearmanClimateNetwork": _climate_from_data("SpearmanClimateNetwork", "winter_only", [False, True]),
    "PartialCorrelationClimateNetwork": _climate_from_data("PartialCorrelationClimateNetwork",
                                                           "winter_only", [False, True]),
    # dump=False: the stored file is exercised by mi_file_history, not shared between objects
    "MutualInfoClimateNetwork": _climate_from_data("MutualInfoClimateNetwork", "winter_only",
                                                   [False, True], flip_kw={"dump": False}),
    "JointRecurrencePlot": spec_jointrecurrenceplot,
    "InterSystemRecurrenceNetwork": spec_intersystem,
    "SpatialNetwork": spec_spatialnetwork,
    "CoupledClimateNetwork": spec_coupledclimate,
    "CoupledTsonisClimateNetwork": spec_coupledtsonis,
    "RainfallClimateNetwork": spec_rainfall,
    "EventSeriesClimateNetwork": spec_eventseriesclimate,
    "EventSeries": spec_eventseries,
}

SKIP_QUERIES = {"cache_clear", "_nsi_betweenness",
                # surrogate-based significance tests draw random numbers
                "event_analysis_significance", "_empirical_percentiles"}
# spectral measures are functions of the graph only on connected graphs (C03's domain):
# ARPACK start vectors / degenerate eigenspaces make them irreproducible otherwise
CONNECTED_ONLY = {"eigenvector_centrality", "nsi_eigenvector_centrality", "msf_synchronizability"}


def skip_now(obj, m):
    if m in CONNECTED_ONLY and hasattr(obj, "graph"):
        try:
            return not obj.graph.is_connected()
        except Exception:  # noqa
            return True
    return False


NOT_QUERIES = {"copy", "undirected_copy", "permuted_copy", "splitted_copy", "save", "cache_clear",
               "clear_cache", "nsi_spreading", "spreading", "distance_based_measures", "edge_list",
               "save_for_cgv", "print_boundaries", "info", "rqa_summary", "recurrence_probability",
               "resample_diagline_dist", "resample_vertline_dist", "twin_surrogates", "twins",
               "white_noise_surrogates", "correlated_noise_surrogates", "AAFT_surrogates",
               "refined_AAFT_surrogates", "normalize_original_data", "clear_cache"}


def public_queries(cls, table):
    """public methods callable without arguments that are not mutators of the class table:
    uncached wrappers around cached workers (e.g. nsi_betweenness) must be coherent too"""
    muts = set(table.get("mutators", {}))
    out = set()
    for name in dir(cls):
        if name.startswith("_") or name in NOT_QUERIES or name in muts or \
                name.startswith(("set_", "update_", "randomly_", "del_", "Load", "Small", "From",
                                 "Model", "Erdos", "Barabasi", "Configuration", "Watts", "Regular")):
            continue
        fn = inspect.getattr_static(cls, name)
        if isinstance(fn, (staticmethod, classmethod, property)) or not callable(getattr(cls, name)):
            continue
        if any(t in name.lower() for t in ("shuffled", "surrogate", "random", "bootstrap")):
            continue            # randomised by documentation: not a deterministic query
        out.add(name)
    return out


def eval_summary(o, expr):
    if expr.endswith(")"):
        return quiet(eval, "o." + expr, {"o": o})
    return getattr(o, expr)


def query_variants(cls, mname, argsets):
    """argument tuples to call a cached method with: () and one per optional named arg"""
    fn = getattr(cls, mname)
    try:
        sig = inspect.signature(fn)
    except (TypeError, ValueError):
        return [{}]
    params = [p for p in list(sig.parameters.values())[1:]]
    if any(p.default is inspect.Parameter.empty and p.kind in (p.POSITIONAL_OR_KEYWORD, p.POSITIONAL_ONLY)
           for p in params):
        return []
    out = [{}]
    for p in params:
        for v in argsets.get(p.name, []):
            out.append({p.name: v})
    return out


# ---------------------------------------------------------------------------------------
# dynamic validation of the translator's tables (the trusted component of this check)
# ---------------------------------------------------------------------------------------

@contextlib.contextmanager
def traced(cls, target, reads, writes):
    """record attribute loads / stores on the object `target` (an instance of `cls`) while the
    block runs; other instances of the class (sub-networks built by a measure) are not traced"""
    og, os_ = cls.__getattribute__, cls.__setattr__
    props = {n for c in cls.__mro__ for n, v in vars(c).items() if isinstance(v, property)}

    def ga(self, name):
        if self is target and name not in props:
            reads.add(name)
        return og(self, name)

    def sa(self, name, value):
        if self is target and name not in props:
            writes.add(name)
        return os_(self, name, value)
    cls.__getattribute__, cls.__setattr__ = ga, sa
    try:
        yield
    finally:
        # restore exactly what the class had (inherited slots are removed again)
        for nm, orig in (("__getattribute__", og), ("__setattr__", os_)):
            if nm in cls.__dict__:
                try:
                    delattr(cls, nm)
                except AttributeError:
                    pass
            if getattr(cls, nm) is not orig:
                setattr(cls, nm, orig)


def sandwich(ctx, cname, spec, table, usable, invokers=None):
    """observed attribute writes of every mutator and observed field reads of every cached
    method must be contained in what the translator derived from the source"""
    cls = spec["cls"]
    rng = ctx.rng
    muts = table.get("mutators", {})
    meths = table.get("methods", {})
    universe = set()
    for o in muts.values():
        universe |= set(o["writes"])
    universe = {u for u in universe if "." not in u and u != "silence_level"}
    bad = []
    nchecked = 0
    allmuts = dict(spec["mutators"])
    for oname, (src, f, raising) in (invokers or {}).items():
        if not raising and oname not in allmuts and "." not in oname:
            allmuts[oname] = f
    for oname, mut in allmuts.items():
        if oname not in muts:
            continue
        obj = quiet(spec["make"], rng)
        if oname not in spec["mutators"]:
            G.prepare(obj, rng)
        r, w = set(), set()
        try:
            with traced(cls, obj, r, w):
                quiet(mut, obj, rng)
        except Exception:  # noqa
            continue
        static = set(muts[oname]["writes"]) | set(muts[oname]["bumps"]) | set(muts[oname]["resets"])
        # (counters: `self._mut_x = getattr(self, "_mut_x", 0)` is a value-preserving store;
        # bumps are validated by the hit/miss correspondence)
        extra = {x for x in w if not x.startswith(("_verif", "_mut_")) and x not in static
                 and x not in ("silence_level",)}
        nchecked += 1
        if extra:
            bad.append(f"{cname}.{oname}: writes {sorted(extra)} not in the static table")
    for m, kw in usable:
        if kw or m not in meths:
            continue
        obj = quiet(spec["make"], rng)
        r, w = set(), set()
        try:
            getattr(cls, m).cache_clear() if hasattr(getattr(cls, m), "cache_clear") else None
            with traced(cls, obj, r, w):
                quiet(getattr(obj, m))
        except Exception:  # noqa
            continue
        static = set(meths[m]["reads"]) | set(meths[m]["key"])
        seen = {x for x in r if x in universe}
        extra = {x for x in seen if x not in static}
        nchecked += 1
        if extra:
            bad.append(f"{cname}.{m}: reads {sorted(extra)} not in the static read set")
    return nchecked, bad


def unstable(spec, obj, m, kw, fresh):
    """two *fresh* objects disagree with each other: the measure is not a function of
    the inputs on this input (random solver start vectors, degenerate eigenspaces)"""
    try:
        t2 = quiet(spec["twin"], obj)
        return not same(quiet(getattr(t2, m), **kw), fresh)
    except Exception:  # noqa
        return True


def mi_file_history(ctx):
    """MutualInfoClimateNetwork stores its matrix in a file of the working directory
    (dump=True is the default of set_winter_only) and loads it back: a change of the setting must
    never bring back the matrix stored for the previous setting."""
    import pyunicorn.climate as C
    from pyunicorn.core import GeoGrid
    rng = ctx.rng
    for rep in range(3):
        T, n = 36, rng.choice([4, 5])
        obs = np.random.RandomState(rng.randrange(2 ** 31)).randn(T, n)
        grid = GeoGrid(np.arange(float(T)), np.arange(n) * 10. - 20, np.arange(n) * 20.,
                       silence_level=3)

        def mk(w):
            for f in os.listdir("."):
                if f.startswith("mutual_information_"):
                    os.remove(f)
            return quiet(C.MutualInfoClimateNetwork,
                         C.ClimateData(observable=obs.copy(), grid=grid, time_cycle=12,
                                       silence_level=3),
                         threshold=0.3, winter_only=w, silence_level=3)
        fresh = {w: quiet(lambda: mk(w).similarity_measure().copy()) for w in (False, True)}
        w0 = rng.choice([False, True])
        o = mk(w0)
        hist = [f"init winter_only={w0}"]
        for w in (not w0, w0, not w0):
            hist.append(f"set_winter_only({w})")
            ctx.case(("mi-file", rep, tuple(hist)), True)
            ctx.count("MutualInfoClimateNetwork:file-histories")
            try:
                quiet(o.set_winter_only, w)
            except Exception as ex:  # noqa
                ctx.fail({"kind": "mutator-raises", "class": "MutualInfoClimateNetwork",
                          "mutator": "set_winter_only(dump=True)", "error": type(ex).__name__},
                         f"MutualInfoClimateNetwork.set_winter_only({w}) raised "
                         f"{type(ex).__name__}: {ex}", {"history": hist, "observable": obs.tolist()})
                break
            if not np.array_equal(o.similarity_measure(), fresh[w]):
                ctx.fail({"kind": "stale-summary", "class": "MutualInfoClimateNetwork",
                          "attribute": "similarity_measure()", "mutator": "set_winter_only(dump=True)"},
                         f"similarity_measure() after {hist} is not the matrix of the current setting "
                         "(matrix stored in the working directory for the previous setting came back)",
                         {"history": hist, "observable": obs.tolist()})
                break


def derive_invokers(ctx, cname, spec, table):
    """one invoker per translator-known public mutator of the class: (source, f, raising);
    `missing` = mutators for which none could be derived"""
    cls, rng = spec["cls"], ctx.rng
    inv, missing = {}, []
    for oname in sorted(table.get("mutators", {})):
        src, cands = G.candidates(cname, cls, spec, oname)
        if not cands:
            missing.append(f"{cname}.{oname}")
            continue
        chosen = None
        if src == "spec":
            chosen = cands[0]
        else:
            for f in cands:
                try:
                    probe = quiet(spec["make"], rng)
                    G.prepare(probe, rng)
                except Exception:  # noqa
                    break
                if G.seeded_call(f, probe, rng, 1) is None:
                    chosen = f
                    break
        inv[oname] = (src, chosen or cands[0], chosen is None)
        ctx.count(f"{cname}:invoker:{src}" + (":raises" if chosen is None else ""))
    return inv, missing


def generic_stage(ctx, cname, spec, t, usable, invokers, quick):
    """replay-twin / recomputation / Network-level-twin oracles for EVERY translator-known
    mutator of the class (see harness/c01_generic.py)"""
    cls, rng = spec["cls"], ctx.rng
    muts, meths = t.get("mutators", {}), t.get("methods", {})
    extra_q = [] if spec.get("only_summary") else G.weighted_queries(cls)
    done = []
    for oname, (src, f, raising) in invokers.items():
        w = set(muts[oname]["writes"])
        rel = [q for q in usable if q[0] in meths and w & set(meths[q[0]]["reads"])]
        oth = [q for q in usable if q not in rel]
        if src == "spec":        # the pairs stage already runs all queries against the fresh twin
            k = (4, 2) if quick else (12, 6)
        else:
            k = (8, 4) if quick else (40, 20)
        qs = rng.sample(rel, min(len(rel), k[0])) + rng.sample(oth, min(len(oth), k[1])) + extra_q
        try:
            a, b = G.make_pair(spec, rng)
            st = rng.getstate()
            G.prepare(a, rng)
            rng.setstate(st)
            G.prepare(b, rng)
        except Exception as ex:  # noqa
            ctx.count(f"{cname}:generic:make-raises:{type(ex).__name__}")
            continue
        key = lambda m, kw: (m, str(kw))  # noqa
        before = {key(m, kw): G.outcome(lambda: quiet(getattr(a, m), **kw)) for m, kw in qs}
        for expr in spec["summary"]:
            try:
                eval_summary(a, expr)
            except Exception:  # noqa
                pass
        seed = rng.randrange(2 ** 31)
        st = rng.getstate()
        ea = G.seeded_call(f, a, rng, seed)
        rng.setstate(st)
        eb = G.seeded_call(f, b, rng, seed)
        done.append(oname)
        ctx.count(f"{cname}:generic:mutators")
        if ea is not None:
            ctx.count(f"{cname}:generic:mutator-raises:{oname}:{type(ea).__name__}")
        replay = type(ea) is type(eb) and G.same_state(a, b, same)
        if not replay:
            ctx.count(f"{cname}:generic:not-replayable:{oname}")
        after = {key(m, kw): G.outcome(lambda: quiet(getattr(a, m), **kw)) for m, kw in qs
                 if not skip_now(a, m)}
        summ = {}
        for expr in spec["summary"]:
            summ[expr] = G.outcome(lambda: eval_summary(a, expr))

        def eq(x, y):
            return x[0] == y[0] and (same(x[1], y[1]) if x[0] == "value" else x[1] == y[1])

        def report(kind, what, oracle, got, want, extra=None):
            sig = {"kind": kind, "class": cname, "mutator": oname, "oracle": oracle}
            sig["query" if kind == "stale-query" else "attribute"] = what
            ctx.fail(sig, f"{cname}.{what} after {oname} ({src} invoker) is {brief(got[1])} but "
                     f"{oracle} gives {brief(want[1])}",
                     dict(sig, args=extra, observed=brief(got[1]), expected=brief(want[1])))
        # ---- replay twin ---------------------------------------------------------------
        if replay:
            for m, kw in qs:
                if key(m, kw) not in after:
                    continue
                ob = G.outcome(lambda: quiet(getattr(b, m), **kw))
                ctx.case((cname, "generic", m, str(kw), oname), not eq(before[key(m, kw)], ob),
                         {"class": cname, "query": m, "args": kw, "mutator": oname})
                ctx.count(f"{cname}:generic:pairs")
                if not eq(after[key(m, kw)], ob):
                    # a measure that is not a function of the inputs (solver start vectors)?
                    quiet(b.cache_clear)
                    ob2 = G.outcome(lambda: quiet(getattr(b, m), **kw))
                    if eq(ob, ob2) and not eq(G.outcome(lambda: quiet(getattr(a, m), **kw)), ob2):
                        report("stale-query", m, "replay-twin", after[key(m, kw)], ob, kw)
            for expr in spec["summary"]:
                sb = G.outcome(lambda: eval_summary(b, expr))
                if not eq(summ[expr], sb):
                    report("stale-summary", expr, "replay-twin", summ[expr], sb)
        # ---- Network-level fresh twin --------------------------------------------------
        nl = G.network_level(cls, t, qs)
        if nl and ea is None:
            try:
                nt = quiet(G.network_twin, a)
            except Exception as ex:  # noqa
                nt = None
                ctx.count(f"{cname}:generic:network-twin-raises:{type(ex).__name__}")
            if nt is not None:
                for m, kw in nl:
                    if key(m, kw) not in after or (kw and "gw" not in nt.graph.es.attributes()):
                        continue
                    on = G.outcome(lambda: quiet(getattr(nt, m), **kw))
                    ctx.count(f"{cname}:generic:network-twin-pairs")
                    if not eq(after[key(m, kw)], on):
                        on2 = G.outcome(lambda: quiet(getattr(quiet(G.network_twin, a), m), **kw))
                        if eq(on, on2):
                            report("stale-query", m, "network-twin", after[key(m, kw)], on, kw)
                for expr in SUMMARY_NET:
                    if expr in summ:
                        sn = G.outcome(lambda: eval_summary(nt, expr))
                        if not eq(summ[expr], sn):
                            report("stale-summary", expr, "network-twin", summ[expr], sn)
        # ---- recomputation on the same object ------------------------------------------
        try:
            quiet(a.cache_clear)
        except Exception:  # noqa
            continue
        for m, kw in qs:
            if key(m, kw) not in after:
                continue
            oc = G.outcome(lambda: quiet(getattr(a, m), **kw))
            ctx.count(f"{cname}:generic:recomputed")
            if not eq(after[key(m, kw)], oc):
                quiet(a.cache_clear)
                oc2 = G.outcome(lambda: quiet(getattr(a, m), **kw))
                if eq(oc, oc2):
                    report("stale-query", m, "recomputation", after[key(m, kw)], oc, kw)
    return done



def call_edges(ctx, cname, spec, mnames, usable, quick):
    """observed nested cached calls: while m() runs on a fresh object (caches cleared), every
    cached method of the class that is looked up *on that object* (attribute loads are traced
    on the object under test only — sub-networks built by a measure and owned plots share the
    function objects and their lru counters, so the counters cannot be used) must be reachable
    from m through the call edges of the Lean table (`callees`)."""
    cls, rng = spec["cls"], ctx.rng
    cached = [n for n in mnames if hasattr(getattr(cls, n, None), "cache_info")]
    cand = [m for m, kw in usable if not kw and m in cached]
    cand = rng.sample(cand, min(len(cand), 8 if quick else 60))
    reqs, obs = [], []
    for m in cand:
        try:
            obj = quiet(spec["make"], rng)
            quiet(obj.cache_clear)
            fn = getattr(obj, m)
            r, w = set(), set()
            with traced(cls, obj, r, w):
                quiet(fn)
        except Exception:  # noqa
            continue
        seen = sorted(mnames.index(n) for n in cached if n != m and n in r)
        reqs.append(f"callees {cname} {mnames.index(m)} 0")
        obs.append((cname, m, seen))
    return reqs, obs


def lru_history(ctx, tables, quick):
    """exact tie of the bounded cache: a history of `path_lengths(link_attribute=k)` calls over
    more link attributes than `Cached.lru_params["maxsize"]`, interleaved with
    `set_link_attribute`, on one Network object; hit / miss of every call must equal the Lean
    machine's (`nhist`: lru order, trimming to maxsize, key = (_mut_A, _mut_la) + argument)"""
    from pyunicorn.core import Network
    rng = ctx.rng
    t = tables["Network"]
    mnames = list(t["order"])
    onames = sorted(t["mutators"])
    mi, oi = mnames.index("path_lengths"), onames.index("set_link_attribute")
    reqs, impl = [], []
    for rep in range(2 if quick else 12):
        A = conn_graph(rng, 5, 0.5, components=1)
        net = Network(adjacency=A, silence_level=3)
        nkeys = rng.choice([34, 40, 48])
        for k in range(nkeys):
            net.set_link_attribute(f"k{k}", sym_attr(rng, A))
        quiet(net.cache_clear)
        ops, out = [], []
        recent = []
        for step in range(rng.randrange(120, 260)):
            r = rng.random()
            if r < 0.03:
                net.set_link_attribute("k0", sym_attr(rng, A) + rng.random())
                ops.append(f"m{oi}")
                out.append("-")
                continue
            if r < 0.07:
                # a raising call (no such link attribute): lru_cache stores nothing
                try:
                    net.path_lengths(link_attribute="no-such-attribute")
                except Exception:  # noqa
                    ops.append(f"x{mi}.999")
                    out.append("-")
                    ctx.count("Network:lru-history-raising-calls")
                continue
            if r < 0.45 and recent:
                k = rng.choice(recent[-rng.choice([3, 20, 33, 40]):])
            else:
                k = rng.randrange(nkeys)
            recent.append(k)
            c0 = Network.path_lengths.cache_info()
            net.path_lengths(link_attribute=f"k{k}")
            c1 = Network.path_lengths.cache_info()
            ops.append(f"q{mi}.{100 + k}")
            out.append("H" if c1.hits > c0.hits else "M")
        ctx.case(("lru-history", rep, len(ops), nkeys), True)
        ctx.count("Network:lru-histories")
        ctx.count("Network:lru-history-ops", len(ops))
        reqs.append("xhist Network " + ",".join(ops))
        impl.append(out)
    return reqs, impl


def two_step_histories(ctx, cname, spec, usable, quick):
    """`o1; queries; o2; queries` for ordered pairs of the spec's mutators against the fresh twin:
    the second mutator acts on an object that the first one has moved away from its initial
    state (`set_window(w); anomaly(); set_global_window(); anomaly()` — a mutator that restores
    the initial state is invisible to `query; mutate; query` on a fresh object)"""
    rng = ctx.rng
    names = sorted(spec["mutators"])
    pairs = [(a, b) for a in names for b in names]
    cap = 16 if quick else 64
    if len(pairs) > cap:
        pairs = rng.sample(pairs, cap)
    for o1, o2 in pairs:
        try:
            obj = quiet(spec["make"], rng)
            quiet(spec["mutators"][o1], obj, rng)
        except Exception:  # noqa
            continue
        probes = rng.sample(usable, min(len(usable), 10 if quick else 30))
        for m, kw in probes:
            try:
                quiet(getattr(obj, m), **kw)
            except Exception:  # noqa
                pass
        for expr in spec["summary"]:
            try:
                eval_summary(obj, expr)
            except Exception:  # noqa
                pass
        try:
            quiet(spec["mutators"][o2], obj, rng)
            tw = quiet(spec["twin"], obj)
        except Exception:  # noqa
            continue
        ctx.case((cname, "two-step", o1, o2), True)
        ctx.count(f"{cname}:two-step-histories")
        for m, kw in probes:
            if skip_now(obj, m):
                continue
            try:
                a = quiet(getattr(obj, m), **kw)
                b = quiet(getattr(tw, m), **kw)
            except Exception:  # noqa
                continue
            if not same(a, b) and not unstable(spec, obj, m, kw, b):
                ctx.fail({"kind": "stale-query", "class": cname, "query": m, "mutator": o2,
                          "after": o1},
                         f"{cname}.{m}({kw}) after {o1}; queries; {o2} returns {brief(a)} but a fresh "
                         f"object reports {brief(b)}",
                         {"class": cname, "query": m, "args": kw, "history": [o1, "queries", o2],
                          "observed": brief(a), "fresh": brief(b)})
        for expr in spec["summary"]:
            try:
                a, b = eval_summary(obj, expr), eval_summary(tw, expr)
            except Exception:  # noqa
                continue
            if not same(a, b):
                ctx.fail({"kind": "stale-summary", "class": cname, "attribute": expr,
                          "mutator": o2, "after": o1},
                         f"{cname}.{expr} after {o1}; queries; {o2} is {brief(a)} but a fresh object "
                         f"reports {brief(b)}",
                         {"class": cname, "attribute": expr, "history": [o1, "queries", o2],
                          "observed": brief(a), "fresh": brief(b)})


def run(ctx):
    # several classes write files to the working directory (MI dumps): work in a scratch one
    import tempfile
    import shutil
    old = os.getcwd()
    tmp = tempfile.mkdtemp(prefix="c01cwd")
    os.chdir(tmp)
    try:
        mi_file_history(ctx)
        # the stored matrix is an *input* of every later constructor call in this directory
        # (documented persistent cache): remove it so that fresh twins compute from their data
        for f in os.listdir("."):
            os.remove(f)
        return _run(ctx)
    finally:
        os.chdir(old)
        shutil.rmtree(tmp, ignore_errors=True)


def _run(ctx):
    rng = ctx.rng
    quick = ctx.tier == "quick"
    ctx.rule = ("for each class spec: every (cached query x argument variant, mutator) pair once "
                "[query; mutate; query vs fresh twin] + random histories; distinct = distinct "
                "(class, query, args, mutator); non-trivial = the query's value differs between "
                "before and after the mutator on the twin (the mutator matters for it)")
    ctx.proofs()
    gen_json = json.load(open(os.path.join(common.LEAN, "Pyunicorn", "Generated", "StructC01.json")))
    tables = gen_json["tables"]
    ometa = gen_json.get("owned", {})       # round 5: pairs (owner class, owned component)
    own_reqs, own_impl, own_meta = [], [], []
    ctx.extra["classes_in_table"] = {c: {"methods": len(t.get("methods", {})),
                                         "mutators": len(t.get("mutators", {}))}
                                     for c, t in tables.items()}
    hist_reqs, hist_impl, hist_meta = [], [], []
    sw_checked, sw_bad = 0, []
    unexercised, n_mutators = [], 0
    edge_reqs, edge_obs = [], []

    import time as _time
    stage_s = {}

    class _T:
        def __init__(self, name):
            self.name = name

        def __enter__(self):
            self.t0 = _time.time()

        def __exit__(self, *a):
            stage_s[self.name] = round(stage_s.get(self.name, 0.0) + _time.time() - self.t0, 2)
    ctx.extra["stage_seconds"] = stage_s

    for cname, mk in SPECS.items():
        spec = mk()
        cls = spec["cls"]
        t = tables.get(cname, {})
        mnames = list(t.get("order", sorted(t.get("methods", {}))))   # index = position in the Lean table
        onames = sorted(t.get("mutators", {}))
        queries = []
        if not spec.get("only_summary"):
            for m in sorted(set(mnames) | public_queries(cls, t)):
                if m in SKIP_QUERIES or not hasattr(cls, m):
                    continue
                for kw in query_variants(cls, m, spec["argsets"]):
                    queries.append((m, kw))
        # ---- baseline: drop queries that are unstable / raise on this class's inputs ------
        base = spec["make"](rng)
        tw = quiet(spec["twin"], base)
        usable = []
        for m, kw in queries:
            try:
                a = quiet(getattr(base, m), **kw)
                b = quiet(getattr(tw, m), **kw)
            except Exception as ex:  # noqa
                ctx.count(f"{cname}:query-raises:{type(ex).__name__}")
                continue
            if same(a, b):
                usable.append((m, kw))
            else:
                ctx.count(f"{cname}:query-unstable")
        ctx.count(f"{cname}:queries", len(usable))
        # ---- pairs ------------------------------------------------------------------------
        pair_rounds = [(o, m) for _ in range(1 if quick else 6) for o, m in spec["mutators"].items()]
        for oname, mut in pair_rounds:
            obj = quiet(spec["make"], rng)
            before = {}
            infos = {}
            for m, kw in usable:
                try:
                    before[(m, str(kw))] = quiet(getattr(obj, m), **kw)
                except Exception:  # noqa
                    pass
            for expr in spec["summary"]:       # populate whatever the summaries memoise
                try:
                    eval_summary(obj, expr)
                except Exception:  # noqa
                    pass
            try:
                quiet(mut, obj, rng)
            except Exception as ex:  # noqa
                ctx.count(f"{cname}:mutator-raises:{oname}:{type(ex).__name__}")
                continue
            tw = quiet(spec["twin"], obj)
            for m, kw in usable:
                if (m, str(kw)) not in before or skip_now(obj, m):
                    continue
                try:
                    after = quiet(getattr(obj, m), **kw)
                    fresh = quiet(getattr(tw, m), **kw)
                except Exception as ex:  # noqa
                    ctx.count(f"{cname}:query-raises-after:{type(ex).__name__}")
                    continue
                matters = not same(before[(m, str(kw))], fresh)
                ctx.case((cname, m, str(kw), oname), matters,
                         {"class": cname, "query": m, "args": kw, "mutator": oname})
                ctx.count(f"{cname}:pairs")
                if not same(after, fresh) and not unstable(spec, obj, m, kw, fresh):
                    ctx.fail({"kind": "stale-query", "class": cname, "query": m,
                              "mutator": oname},
                             f"{cname}.{m}({kw}) after {oname} returns {brief(after)} but a fresh "
                             f"object reports {brief(fresh)}",
                             {"class": cname, "query": m, "args": kw, "mutator": oname,
                              "before": brief(before[(m, str(kw))]), "after": brief(after),
                              "fresh": brief(fresh)})
            for expr in spec["summary"]:
                try:
                    a = eval_summary(obj, expr)
                    b = eval_summary(tw, expr)
                except Exception as ex:  # noqa
                    ctx.count(f"{cname}:summary-raises:{type(ex).__name__}")
                    continue
                ctx.case((cname, "summary", expr, oname), True)
                if not same(a, b):
                    ctx.fail({"kind": "stale-summary", "class": cname, "attribute": expr,
                              "mutator": oname},
                             f"{cname}.{expr} after {oname} is {brief(a)} but a fresh object "
                             f"reports {brief(b)}",
                             {"class": cname, "attribute": expr, "mutator": oname,
                              "observed": brief(a), "fresh": brief(b)})
        # ---- ordered pairs of mutators (round 3) ---------------------------------------------
        with _T("two-step"):
            two_step_histories(ctx, cname, spec, usable, quick)
        # ---- round 4: ALL ordered pairs, constructor modes, triples: structure + summaries -----
        with _T("structural"):
            MD.structural_histories(ctx, cname, spec, quick, eval_summary, same, brief)
        # ---- every translator-known public mutator (round 3) --------------------------------
        with _T("generic"):
            invokers, missing = derive_invokers(ctx, cname, spec, t)
            unexercised += missing
            done = generic_stage(ctx, cname, spec, t, usable, invokers, quick)
        unexercised += [f"{cname}.{o} (never ran)" for o in invokers if o not in done]
        n_mutators += len(t.get("mutators", {}))
        # ---- translator sandwich -----------------------------------------------------------
        with _T("sandwich"):
            nck, bad_sw = sandwich(ctx, cname, spec, t, usable, invokers)
        sw_checked += nck
        sw_bad += bad_sw
        with _T("call-edges"):
            r_, o_ = call_edges(ctx, cname, spec, mnames, usable, quick)
        edge_reqs += r_
        edge_obs += o_
        # ---- round 5: mutators called on owned Cached objects (o.data.set_window, o.rp_x.…) ----
        with _T("owned"):
            r_, i_, m_, u_ = OW.owned_stage(ctx, cname, spec, tables, ometa, usable, quick, same,
                                            brief, eval_summary, skip_now)
        own_reqs += r_
        own_impl += i_
        own_meta += m_
        unexercised += u_
        # ---- hit/miss correspondence: a fresh object per (query, mutator) -------------------
        hm_muts = [(o, f, True) for o, f in spec["mutators"].items()] + \
                  [(o, f, False) for o, (src, f, raising) in invokers.items()
                   if src != "spec" and not raising]
        for oname, mut, is_spec in hm_muts:
            if oname not in onames:
                continue
            cand = [(m, kw) for m, kw in usable
                    if not kw and m in mnames and hasattr(getattr(cls, m), "cache_info")]
            if not is_spec:     # derived invokers: a sample per mutator (all in the thorough tier)
                cand = rng.sample(cand, min(len(cand), 3 if quick else 24))
            for m, kw in cand:
                try:
                    obj = quiet(spec["make"], rng)
                    if not is_spec:
                        G.prepare(obj, rng)
                    quiet(getattr(obj, m))
                    if is_spec:
                        quiet(mut, obj, rng)
                    elif not G.effective(oname, obj) or \
                            G.seeded_call(mut, obj, rng, 7) is not None:
                        continue
                    ci0 = getattr(cls, m).cache_info()
                    quiet(getattr(obj, m))
                    ci1 = getattr(cls, m).cache_info()
                except Exception:  # noqa
                    continue
                # a mutator that (possibly) calls the cached method itself re-populates the
                # cache: then a hit is admissible although the key changed
                allow_hit = m in t["mutators"][oname].get("calls", [])
                hist_reqs.append(f"hist {cname} q{mnames.index(m)}.0,m{onames.index(oname)},"
                                 f"q{mnames.index(m)}.0")
                hist_impl.append("H" if ci1.hits > ci0.hits else "M")
                hist_meta.append((cname, m, oname, allow_hit))
        # ---- random histories ---------------------------------------------------------------
        nh = (6 if quick else 120)
        for h in range(nh):
            obj = quiet(spec["make"], rng)
            trace = []
            L = rng.randrange(3, 9 if quick else 26)
            for step in range(L):
                if rng.random() < 0.45 and spec["mutators"]:
                    oname = rng.choice(sorted(spec["mutators"]))
                    try:
                        quiet(spec["mutators"][oname], obj, rng)
                        trace.append("M:" + oname)
                    except Exception:  # noqa
                        trace.append("M!:" + oname)
                elif usable:
                    m, kw = rng.choice(usable)
                    try:
                        quiet(getattr(obj, m), **kw)
                        trace.append(f"Q:{m}{kw or ''}")
                    except Exception:  # noqa
                        trace.append(f"Q!:{m}")
            tw = quiet(spec["twin"], obj)
            probes = rng.sample(usable, min(len(usable), 12 if quick else 30))
            ctx.case((cname, "history", tuple(trace)), True)
            ctx.count(f"{cname}:histories")
            for m, kw in probes:
                if skip_now(obj, m):
                    continue
                try:
                    a = quiet(getattr(obj, m), **kw)
                    b = quiet(getattr(tw, m), **kw)
                except Exception:  # noqa
                    continue
                if not same(a, b) and not unstable(spec, obj, m, kw, b):
                    ctx.fail({"kind": "stale-query", "class": cname, "query": m,
                              "mutator": "history"},
                             f"{cname}.{m}({kw}) after history {trace} differs from a fresh object",
                             {"class": cname, "query": m, "args": kw, "history": trace,
                              "observed": brief(a), "fresh": brief(b)})
            for expr in spec["summary"]:
                try:
                    a, b = eval_summary(obj, expr), eval_summary(tw, expr)
                except Exception:  # noqa
                    continue
                if not same(a, b):
                    ctx.fail({"kind": "stale-summary", "class": cname, "attribute": expr,
                              "mutator": "history"},
                             f"{cname}.{expr} after history {trace} differs from a fresh object",
                             {"class": cname, "attribute": expr, "history": trace,
                              "observed": brief(a), "fresh": brief(b)})

    # ---- round 4: Lean mode tables vs the real objects ------------------------------------
    gen = json.load(open(os.path.join(common.LEAN, "Pyunicorn", "Generated", "StructC01.json")))
    MD.mode_tie(ctx, common, SPECS, gen, traced)
    # ---- round 5: the composed tables (owner, owned object) vs the real pairs --------------
    pkeys = sorted(ometa)
    pans = common.driver(ctx.pid, [f"opair {k.split(':')[0]} {k.split(':')[1]}" for k in pkeys])
    bad_p = []
    for note in OW.static_problems(ometa):      # informational: the translator derives the state
        ctx.count("owned:fields_C01.json-differs-from-derived")
    for k, a in zip(pkeys, pans):
        f = a.split(",")
        if len(f) != 5 or f[2:] != ["1", "1", "1"] or int(f[0]) != len(ometa[k]["owned_methods"]) \
                or int(f[1]) != len(ometa[k]["owner_mutators"]):
            off = common.driver(ctx.pid, [f"onoffending {k.split(':')[0]} {k.split(':')[1]}"])[0]
            bad_p.append(f"{k}: opair={a} (owned methods, owner mutators kept, nwf, apart, sound); "
                         f"offending (method:pattern:mutator of the composed table) = {off}")
    ctx.obligation(f"owned objects: every composed table (owner, owned object) built from the two "
                   f"classes' own tables is well-formed, names apart, abstraction sound ({len(pkeys)} pairs: {', '.join(pkeys)})",
                   "translator", not bad_p and len(pkeys) > 0, "\n".join(bad_p[:10]))
    oans = common.driver(ctx.pid, own_reqs)
    n_own, bad_o = OW.compare(own_reqs, oans, own_impl, own_meta)
    ctx.obligation(f"correspondence: hit/miss of owner and owned-object queries after EVERY public "
                   f"mutator of the owned class called on the owned object == the Lean machine on "
                   f"the composed table ({n_own} calls in {len(own_reqs)} histories)",
                   "correspondence", not bad_o and n_own > 0, "\n".join(bad_o[:10]))
    ctx.extra["owned_pairs"] = pkeys
    ctx.extra["owned_hit_miss_calls"] = n_own
    # ---- nested model: call edges and the bounded lru cache -------------------------------
    ans = common.driver(ctx.pid, edge_reqs)
    bad_e = []
    for (cname, m, seen), a in zip(edge_obs, ans):
        static = set() if a == "-" else {int(x) for x in a.split(",")}
        extra = [x for x in seen if x not in static]
        if extra:
            names_ = list(tables[cname]["order"])
            bad_e.append(f"{cname}.{m}() looked up {[names_[x] for x in extra]} on the object: no "
                         "such call edge in the nested table")
    ctx.obligation(f"call-edge sandwich: cached methods observed to compute inside a cached call are "
                   f"reachable through the nested table's call edges ({len(edge_reqs)} calls)",
                   "translator", not bad_e, "\n".join(bad_e[:10]))
    lreqs, limpl = lru_history(ctx, tables, quick)
    lans = common.driver(ctx.pid, lreqs)
    bad_l = []
    for i, (a, out) in enumerate(zip(lans, limpl)):
        mod = ["-" if x == "-" else ("H" if x.split("+")[0].split("=")[0].endswith(".H") else "M")
               for x in a.split(",")]
        coh = all(x == "-" or x.endswith("=1") for x in a.split(","))
        if mod != out or not coh:
            j = next((j for j in range(min(len(mod), len(out))) if mod[j] != out[j]), -1)
            bad_l.append(f"history {i}: first difference at op {j}: model={mod[j:j + 6]} "
                         f"impl={out[j:j + 6]} coherent={coh}")
    ctx.obligation(f"correspondence: hit/miss of every call of {len(lreqs)} lru histories (more "
                   f"argument patterns than maxsize, interleaved mutators) == the Lean machine "
                   f"with trimming to Cached.lru_params['maxsize']",
                   "correspondence", not bad_l, "\n".join(bad_l[:5]))
    ctx.obligation(f"coverage: every translator-known public mutator of every driven class is "
                   f"exercised by a spec mutator or a derived invoker ({n_mutators} (class, mutator) "
                   f"pairs)", "coverage", not unexercised, "\n".join(unexercised[:20]))
    ctx.extra["mutators_exercised"] = n_mutators - len(unexercised)
    ctx.obligation(f"translator sandwich: observed attribute writes of mutators and field reads of "
                   f"cached methods are contained in the static tables ({sw_checked} traced calls)",
                   "translator", not sw_bad, "\n".join(sw_bad[:12]))
    # ---- correspondence: model hit/miss prediction vs real cache_info --------------------
    model = common.driver(ctx.pid, hist_reqs)
    bad = []
    for i, ans in enumerate(model):
        third = ans.split(",")[-1] if ans else "?"
        pred = "H" if third.startswith("H") else "M"
        if pred != hist_impl[i] and not (hist_meta[i][3] and hist_impl[i] == "H"):
            bad.append(i)
    ctx.obligation(f"correspondence: model's hit/miss prediction for query;mutate;query == real "
                   f"lru cache behaviour ({len(hist_reqs)} (class, query, mutator) triples)",
                   "correspondence", not bad,
                   "\n".join(f"{hist_meta[i]} model={model[i]} impl={hist_impl[i]}" for i in bad[:8]))
    ctx.extra["hit_miss_triples"] = len(hist_reqs)
