"""C11 — cross/internal measures of interacting networks match sub-blocks.

proof  : lean/Pyunicorn/Properties/C11.lean (kernel loops = sums over unordered pairs,
         triples = C(k,2), dense = sparse, n.s.i. kernels and methods = published double sums,
         block order / transposition, group-exchange symmetry, order independence of the
         triangular loops, APL = mean over reachable pairs, whole-network limits against the
         model of Network (Model/Net.lean), loop bounds and normalisations regenerated from the
         source by translate/arith_C11.json)
tie    : correspondence of the Lean model (lean/Pyunicorn/Model/Cross.lean) with the four
         compiled kernels at the kernel boundary and with every cross_/internal_/nsi_
         method of InteractingNetworks on the same inputs (exact for integer outputs,
         1e-9 relative for float outputs computed from dyadic data); the methods of a case are
         called in random order on one long-lived object per graph (call histories); both
         groups = all nodes included; gen_arith translator
search : the definitions evaluated in `fractions.Fraction` on M[L1][:, L2] blocks of an
         adjacency / path-length / attribute matrix computed by the harness itself;
         both argument orders; dense vs `_sparse`; both groups = all nodes vs the
         single-network method; list vs numpy-array node lists; twins constructed from other
         dtypes / layouts (bit-identical) and rescaled by powers of two (exactly equivariant);
         returned arrays not aliased; library state intact after the history; every
         CoupledClimateNetwork wrapper incl. link_attribute; subnetwork; betweenness
round 4: cross_/internal_/nsi_cross_betweenness inside the model (C03's kernel model behind the
         delegation chain), compared with the implementation on every case and with the published
         double sum inside Lean on a sample; whole-network relations of closeness / efficiency /
         n.s.i. closeness row by row, connected or not; Network.global_efficiency /
         closeness(attr) / interregional_betweenness / nsi_betweenness / path_lengths (BFS) in
         the `net` correspondence; wrapped integer accumulation (sumW) against numpy
"""
import contextlib
import io
import itertools
import math
import warnings
from fractions import Fraction as Fr

import numpy as np

from . import common  # noqa: F401

TOL = 1e-9
INF = None  # oracle representation of an infinite path length


# --------------------------------------------------------------------------
# encoding
# --------------------------------------------------------------------------

def enc_fr(x):
    if x is None:
        return "inf"
    x = Fr(x)
    return str(x.numerator) if x.denominator == 1 else f"{x.numerator}/{x.denominator}"


def enc_mat(M):
    return ";".join(",".join(enc_fr(v) for v in row) for row in M) or "-"


def enc_vec(v):
    return ",".join(enc_fr(x) for x in v) or "-"


def enc_nodes(L):
    return ",".join(str(int(x)) for x in L) or "-"


def parse_model(s):
    """model answer -> nested list of Fraction / 'inf' / 'nan', or an error token"""
    if s.startswith("raise:") or s in ("nan", "inf", "-inf", "bad-request"):
        return s
    if s == "-":
        return []
    rows = []
    for r in s.split(";"):
        row = []
        for t in r.split(","):
            row.append(t if t in ("inf", "nan") else Fr(t))
        rows.append(row)
    return rows


def canon_impl(v):
    """implementation result -> nested list of python numbers (rows), or a token"""
    if isinstance(v, str):
        return v
    a = np.asarray(v)
    if a.ndim == 0:
        x = a.item()
        if isinstance(x, float) and math.isnan(x):
            return "nan"
        if isinstance(x, float) and math.isinf(x):
            return "inf" if x > 0 else "-inf"
        return [[x]]
    if a.ndim == 1:
        return [a.tolist()]
    return a.tolist()


def num_eq(x, q):
    """implementation number x against exact model / oracle value q"""
    if q == "inf" or q is None:
        return isinstance(x, float) and math.isinf(x) and x > 0
    if q == "nan":
        return isinstance(x, float) and math.isnan(x)
    if isinstance(x, (int, np.integer)) and not isinstance(x, bool):
        return Fr(int(x)) == q
    if isinstance(x, float) and (math.isnan(x) or math.isinf(x)):
        return False
    # relative tolerance (the data are dyadic, so the library's sums are exact and only the final
    # quotients are rounded); the floor only matters for exact zeros
    return abs(float(x) - float(q)) <= TOL * max(2.0 ** -40, abs(float(q)))


def same(impl, exact):
    """compare canonical implementation value with exact (model / oracle) value"""
    if exact == "inf" and not isinstance(impl, str):
        # local_efficiency with a zero distance: some entry is inf
        return any(isinstance(x, float) and math.isinf(x) for r in impl for x in r)
    if isinstance(impl, str) or isinstance(exact, str):
        return impl == exact
    if len(impl) != len(exact):
        return False
    for ri, re_ in zip(impl, exact):
        if len(ri) != len(re_):
            return False
        for x, q in zip(ri, re_):
            if not num_eq(x, q):
                return False
    return True


def shape_exact(v):
    """oracle value (scalar / vector / matrix of Fractions) -> rows"""
    if isinstance(v, str):
        return v
    if isinstance(v, list):
        if v and isinstance(v[0], list):
            return v
        return [v]
    return [[v]]


# --------------------------------------------------------------------------
# independent definitions (exact rational arithmetic, plain Python)
# --------------------------------------------------------------------------

def floyd(n, length):
    """all-pairs shortest path lengths; length[a][b] is None (no link) or a Fraction"""
    D = [[(Fr(0) if a == b else length[a][b]) for b in range(n)] for a in range(n)]
    for k in range(n):
        for a in range(n):
            if D[a][k] is None:
                continue
            for b in range(n):
                if D[k][b] is None:
                    continue
                c = D[a][k] + D[k][b]
                if D[a][b] is None or c < D[a][b]:
                    D[a][b] = c
    return D


def blk(M, L1, L2):
    return [[M[a][b] for b in L2] for a in L1]


class Oracle:
    """every measure written from its definition on sub-blocks"""

    def __init__(self, n, directed, A, w, la, Du, Dw):
        self.n, self.directed, self.A, self.w, self.la = n, directed, A, w, la
        self.Du, self.Dw = Du, Dw
        self.Ap = [[1 if (A[a][b] or a == b) else 0 for b in range(n)] for a in range(n)]

    # sub-blocks
    def cross_adjacency(self, L1, L2):
        return blk(self.A, L1, L2)

    def internal_adjacency(self, L1, L2):
        return blk(self.A, L1, L1)

    def cross_adjacency_sparse(self, L1, L2):
        return blk(self.A, L1, L2)

    def cross_link_attribute(self, L1, L2):
        return blk(self.la, L1, L2)

    def internal_link_attribute(self, L1, L2):
        return blk(self.la, L1, L1)

    def cross_path_lengths(self, L1, L2, D=None):
        return blk(D or self.Du, L1, L2)

    def internal_path_lengths(self, L1, L2, D=None):
        return blk(D or self.Du, L1, L1)

    # betweenness of the groups (round 4): the published double sum over enumerated path counts
    def _betw(self, L1, L2, w):
        """b_v = (1/w_v) sum_{t in L2} sum_{s in L1, s != v != t} w_t w_s sigma_ts(v) / sigma_ts with
        sigma = number of shortest paths weighted by the product of the weights of all their
        nodes; sigma_ts(v) = sigma_tv sigma_vs / w_v"""
        n, D, A = self.n, self.Du, self.A
        sg = [[Fr(0)] * n for _ in range(n)]
        for s in range(n):
            order = sorted((t for t in range(n) if D[s][t] is not None), key=lambda t: D[s][t])
            sg[s][s] = Fr(w[s])
            for t in order:
                if t != s:
                    sg[s][t] = w[t] * sum(sg[s][u] for u in range(n)
                                          if A[u][t] and D[s][u] is not None
                                          and D[s][u] + 1 == D[s][t])
        S1 = set(L1)
        out = [Fr(0)] * n
        for t in L2:                      # a repeated target counts repeatedly (loop over targets)
            for s in S1:                  # the sources are a set (mask)
                if s == t or D[t][s] is None:
                    continue
                for v in range(n):
                    if v in (s, t) or D[t][v] is None or D[v][s] is None:
                        continue
                    if D[t][v] + D[v][s] == D[t][s]:
                        out[v] += w[t] * w[s] * sg[t][v] * sg[v][s] / w[v] / sg[t][s]
        return [out[v] / w[v] for v in range(n)]

    def cross_betweenness(self, L1, L2):
        return self._betw(L1, L2, [Fr(1)] * self.n)

    def internal_betweenness(self, L1, L2):
        return self._betw(L1, L1, [Fr(1)] * self.n)

    def nsi_cross_betweenness(self, L1, L2):
        return self._betw(L1, L2, self.w)

    # link counts, degrees
    def number_cross_links(self, L1, L2):
        if self.directed:
            return "raise:NetworkError"
        return Fr(sum(self.A[a][b] for a in L1 for b in L2))

    def cross_link_density(self, L1, L2):
        if self.directed:
            return "raise:NetworkError"
        return Fr(sum(self.A[a][b] for a in L1 for b in L2), len(L1) * len(L2))

    def number_internal_links(self, L1, L2):
        s = sum(self.A[a][b] for a in L1 for b in L1)
        return Fr(s if self.directed else s // 2)

    def internal_link_density(self, L1, L2):
        n = len(L1)
        if n < 2:
            return "raise:ZeroDivisionError"
        s = sum(self.A[a][b] for a in L1 for b in L1 if a != b)
        return Fr(s, n * (n - 1))

    def _out(self, M, L1, L2):
        return [sum(Fr(M[a][b]) for b in L2) for a in L1]

    def _in(self, M, L1, L2):
        return [sum(Fr(M[b][a]) for b in L2) for a in L1]

    def _deg(self, M, L1, L2):
        if self.directed:
            return [x + y for x, y in zip(self._in(M, L1, L2), self._out(M, L1, L2))]
        return self._out(M, L1, L2)

    def cross_degree(self, L1, L2):
        return self._deg(self.A, L1, L2)

    def cross_indegree(self, L1, L2):
        return self._in(self.A, L1, L2)

    def cross_outdegree(self, L1, L2):
        return self._out(self.A, L1, L2)

    def cross_strength(self, L1, L2):
        return self._deg(self.la, L1, L2)

    def cross_instrength(self, L1, L2):
        return self._in(self.la, L1, L2)

    def cross_outstrength(self, L1, L2):
        return self._out(self.la, L1, L2)

    def internal_degree(self, L1, L2):
        return self._deg(self.A, L1, L1)

    def internal_indegree(self, L1, L2):
        return self._in(self.A, L1, L1)

    def internal_outdegree(self, L1, L2):
        return self._out(self.A, L1, L1)

    def internal_strength(self, L1, L2):
        return self._deg(self.la, L1, L1)

    def internal_instrength(self, L1, L2):
        return self._in(self.la, L1, L1)

    def internal_outstrength(self, L1, L2):
        return self._out(self.la, L1, L1)

    def total_cross_degree(self, L1, L2):
        return sum(self.cross_degree(L1, L2)) / len(L1)

    def cross_degree_density(self, L1, L2):
        return [d / len(L2) for d in self.cross_degree(L1, L2)]

    # clustering (undirected only)
    def _tri_trp(self, v, L2):
        A = self.A
        tri = trp = 0
        for p, q in itertools.combinations(L2, 2):
            if A[v][p] and A[v][q]:
                trp += 1
                if A[p][q]:
                    tri += 1
        return tri, trp

    def cross_transitivity(self, L1, L2):
        t = [self._tri_trp(v, L2) for v in L1]
        tri, trp = sum(x[0] for x in t), sum(x[1] for x in t)
        return Fr(tri, trp) if trp else Fr(0)

    cross_transitivity_sparse = cross_transitivity

    def cross_local_clustering(self, L1, L2):
        out = []
        for v in L1:
            tri, trp = self._tri_trp(v, L2)
            out.append(Fr(tri, trp) if trp else Fr(0))
        return out

    cross_local_clustering_sparse = cross_local_clustering

    def cross_global_clustering(self, L1, L2):
        return sum(self.cross_local_clustering(L1, L2)) / len(L1)

    cross_global_clustering_sparse = cross_global_clustering

    def internal_global_clustering(self, L1, L2):
        # mean over the group of the Watts-Strogatz clustering in the WHOLE network
        out = []
        for v in L1:
            tri, trp = self._tri_trp(v, range(self.n))
            out.append(Fr(tri, trp) if trp else Fr(0))
        return sum(out) / len(L1)

    # path lengths
    def cross_average_path_length(self, L1, L2, D=None):
        D = D or self.Du
        vals = [D[a][b] for a in L1 for b in L2 if D[a][b] is not None]
        return sum(vals) / len(vals) if vals else "nan"

    def internal_average_path_length(self, L1, L2, D=None):
        D = D or self.Du
        pos = range(len(L1))
        vals = [D[L1[i]][L1[j]] for i in pos for j in pos
                if i != j and D[L1[i]][L1[j]] is not None]
        return sum(vals) / len(vals) if vals else "nan"

    def cross_closeness(self, L1, L2, D=None):
        # unreachable pairs count as the longest possible path of the whole network
        D = D or self.Du
        out = []
        for a in L1:
            s = sum((D[a][b] if D[a][b] is not None else Fr(self.n - 1)) for b in L2)
            out.append(Fr(len(L2)) / s if s else Fr(0))
        return out

    def internal_closeness(self, L1, L2, D=None):
        # unreachable pairs count as (group size - 1) (the code's documented convention)
        D = D or self.Du
        out = []
        for a in L1:
            s = sum((D[a][b] if D[a][b] is not None else Fr(len(L1) - 1)) for b in L1)
            out.append(Fr(len(L1) - 1) / s if s else Fr(0))
        return out

    def average_cross_closeness(self, L1, L2, D=None):
        return sum(self.cross_closeness(L1, L2, D)) / len(L1)

    def local_efficiency(self, L1, L2, D=None):
        D = D or self.Du
        if any(D[a][b] == 0 for a in L1 for b in L2):
            return "inf"
        return [sum((1 / D[a][b] if D[a][b] is not None else Fr(0)) for b in L2) / len(L2)
                for a in L1]

    def global_efficiency(self, L1, L2, D=None):
        le = self.local_efficiency(L1, L2, D)
        if le == "inf":
            return "inf"
        m = sum(le) / len(L1)
        return 1 / m if m else "inf"

    # n.s.i.
    def nsi_cross_degree(self, L1, L2):
        return [sum(self.w[q] for q in L2 if self.Ap[v][q]) for v in L1]

    def nsi_internal_degree(self, L1, L2):
        return self.nsi_cross_degree(L1, L1)

    def nsi_cross_mean_degree(self, L1, L2):
        W1 = sum(self.w[v] for v in L1)
        return sum(self.w[v] * self.w[q] for v in L1 for q in L2 if self.Ap[v][q]) / W1

    def nsi_cross_edge_density(self, L1, L2):
        W1 = sum(self.w[v] for v in L1)
        W2 = sum(self.w[q] for q in L2)
        return sum(self.w[v] * self.w[q] for v in L1 for q in L2 if self.Ap[v][q]) / (W1 * W2)

    def _nsi_tri(self, v, L2):
        Ap, w = self.Ap, self.w
        return sum(w[p] * w[q] for p in L2 for q in L2 if Ap[v][p] and Ap[p][q] and Ap[q][v])

    def nsi_cross_local_clustering(self, L1, L2):
        k = self.nsi_cross_degree(L1, L2)
        return [self._nsi_tri(v, L2) / kv ** 2 if kv else Fr(0) for v, kv in zip(L1, k)]

    def nsi_internal_local_clustering(self, L1, L2):
        return self.nsi_cross_local_clustering(L1, L1)

    def nsi_cross_global_clustering(self, L1, L2):
        W1 = sum(self.w[v] for v in L1)
        return sum(self.w[v] * c for v, c in
                   zip(L1, self.nsi_cross_local_clustering(L1, L2))) / W1

    def nsi_cross_transitivity(self, L1, L2):
        k = self.nsi_cross_degree(L1, L2)
        T2 = sum(self.w[v] * kv ** 2 for v, kv in zip(L1, k))
        if not T2:
            return "raise:ZeroDivisionError"
        return sum(self.w[v] * self._nsi_tri(v, L2) for v in L1) / T2

    def _dstar(self, a, b):
        d = self.Du[a][b]
        if d is None:
            return Fr(self.n - 1)
        return d + (1 if a == b else 0)

    def nsi_cross_closeness_centrality(self, L1, L2):
        W2 = sum(self.w[q] for q in L2)
        return [W2 / sum(self.w[q] * self._dstar(v, q) for q in L2) for v in L1]

    def nsi_internal_closeness_centrality(self, L1, L2):
        return self.nsi_cross_closeness_centrality(L1, L1)

    def nsi_cross_average_path_length(self, L1, L2):
        # weighted mean of d + delta over the pairs for which a path exists
        # (the convention of Network.nsi_average_path_length)
        w, D = self.w, self.Du
        num = sum(w[v] * w[q] * (D[v][q] + (1 if v == q else 0))
                  for v in L1 for q in L2 if D[v][q] is not None)
        den = sum(w[v] * w[q] for v in L1 for q in L2 if D[v][q] is not None)
        return num / den if den else "nan"


PATH_MEASURES = ["cross_path_lengths", "internal_path_lengths", "cross_average_path_length",
                 "internal_average_path_length", "cross_closeness", "internal_closeness",
                 "average_cross_closeness", "local_efficiency", "global_efficiency"]
CLUSTERING = ["internal_global_clustering", "cross_transitivity", "cross_transitivity_sparse", "cross_local_clustering",
              "cross_local_clustering_sparse", "cross_global_clustering",
              "cross_global_clustering_sparse", "nsi_cross_local_clustering",
              "nsi_internal_local_clustering", "nsi_cross_global_clustering",
              "nsi_cross_transitivity"]
# measures whose definition is symmetric in the two groups (undirected networks);
# 'T' = the matrix result is transposed
BETWEENNESS = ["cross_betweenness", "internal_betweenness", "nsi_cross_betweenness"]
SYMMETRIC = {"number_cross_links": "", "cross_link_density": "", "cross_average_path_length": "",
             "global_efficiency": "", "nsi_cross_edge_density": "",
             "cross_betweenness": "", "nsi_cross_betweenness": "",
             "nsi_cross_average_path_length": "", "cross_adjacency": "T",
             "cross_adjacency_sparse": "T",
             "cross_link_attribute": "T", "cross_path_lengths": "T"}
# the theorem of Properties/C11.lean behind each both-orders relation (round 5d: the betweenness
# is no longer a relation on the implementation only - crossBetweenness_symm /
# nsiCrossBetweenness_symm hold for every undirected network and duplicate-free lists; the lists
# of the harness are duplicate-free, so a failure of the relation contradicts the theorem or the
# correspondence of the kernel model)
SYMMETRIC_THEOREM = {"number_cross_links": "numberCrossLinks_symm",
                     "cross_link_density": "crossLinkDensity_symm",
                     "cross_average_path_length": "crossAPL_symm / unweighted_symmetric_in_groups",
                     "global_efficiency": "globalEfficiency_symm",
                     "nsi_cross_edge_density": "nsiCrossEdgeDensity_symm",
                     "cross_betweenness": "crossBetweenness_symm (round 5d, via Nsi.wcount_rev: "
                                          "walk counts are symmetric under reversal)",
                     "nsi_cross_betweenness": "nsiCrossBetweenness_symm (round 5d)",
                     "cross_adjacency": "block_swap", "cross_adjacency_sparse": "block_swap",
                     "cross_link_attribute": "block_swap", "cross_path_lengths": "block_swap"}
SPARSE_PAIRS = [("cross_transitivity", "cross_transitivity_sparse"),
                ("cross_local_clustering", "cross_local_clustering_sparse"),
                ("cross_global_clustering", "cross_global_clustering_sparse")]


def impl_table(net, L1, L2, attr=None):
    """name -> thunk calling the implementation"""
    la = "la"
    t = {
        "cross_adjacency": lambda: net.cross_adjacency(L1, L2),
        "cross_adjacency_sparse": lambda: net.cross_adjacency_sparse(L1, L2),
        "internal_global_clustering": lambda: net.internal_global_clustering(L1),
        "internal_instrength": lambda: net.internal_indegree(L1, la),
        "internal_outstrength": lambda: net.internal_outdegree(L1, la),
        "internal_adjacency": lambda: net.internal_adjacency(L1),
        "cross_link_attribute": lambda: net.cross_link_attribute(la, L1, L2),
        "internal_link_attribute": lambda: net.internal_link_attribute(la, L1),
        "cross_path_lengths": lambda: net.cross_path_lengths(L1, L2, attr),
        "internal_path_lengths": lambda: net.internal_path_lengths(L1, attr),
        "number_cross_links": lambda: net.number_cross_links(L1, L2),
        "cross_link_density": lambda: net.cross_link_density(L1, L2),
        "number_internal_links": lambda: net.number_internal_links(L1),
        "internal_link_density": lambda: net.internal_link_density(L1),
        "cross_degree": lambda: net.cross_degree(L1, L2),
        "cross_indegree": lambda: net.cross_indegree(L1, L2),
        "cross_outdegree": lambda: net.cross_outdegree(L1, L2),
        "cross_strength": lambda: net.cross_degree(L1, L2, la),
        "cross_instrength": lambda: net.cross_indegree(L1, L2, la),
        "cross_outstrength": lambda: net.cross_outdegree(L1, L2, la),
        "internal_degree": lambda: net.internal_degree(L1),
        "internal_indegree": lambda: net.internal_indegree(L1),
        "internal_outdegree": lambda: net.internal_outdegree(L1),
        "internal_strength": lambda: net.internal_degree(L1, la),
        "total_cross_degree": lambda: net.total_cross_degree(L1, L2),
        "cross_degree_density": lambda: net.cross_degree_density(L1, L2),
        "cross_transitivity": lambda: net.cross_transitivity(L1, L2),
        "cross_transitivity_sparse": lambda: net.cross_transitivity_sparse(L1, L2),
        "cross_local_clustering": lambda: net.cross_local_clustering(L1, L2),
        "cross_local_clustering_sparse": lambda: net.cross_local_clustering_sparse(L1, L2),
        "cross_global_clustering": lambda: net.cross_global_clustering(L1, L2),
        "cross_global_clustering_sparse": lambda: net.cross_global_clustering_sparse(L1, L2),
        "cross_average_path_length": lambda: net.cross_average_path_length(L1, L2, attr),
        "internal_average_path_length": lambda: net.internal_average_path_length(L1, attr),
        "cross_closeness": lambda: net.cross_closeness(L1, L2, attr),
        "internal_closeness": lambda: net.internal_closeness(L1, attr),
        "average_cross_closeness": lambda: net.average_cross_closeness(L1, L2, attr),
        "local_efficiency": lambda: net.local_efficiency(L1, L2, attr),
        "global_efficiency": lambda: net.global_efficiency(L1, L2, attr),
        "nsi_cross_degree": lambda: net.nsi_cross_degree(L1, L2),
        "nsi_internal_degree": lambda: net.nsi_internal_degree(L1),
        "nsi_cross_mean_degree": lambda: net.nsi_cross_mean_degree(L1, L2),
        "nsi_cross_edge_density": lambda: net.nsi_cross_edge_density(L1, L2),
        "nsi_cross_local_clustering": lambda: net.nsi_cross_local_clustering(L1, L2),
        "nsi_internal_local_clustering": lambda: net.nsi_internal_local_clustering(L1),
        "nsi_cross_global_clustering": lambda: net.nsi_cross_global_clustering(L1, L2),
        "nsi_cross_transitivity": lambda: net.nsi_cross_transitivity(L1, L2),
        "nsi_cross_closeness_centrality": lambda: net.nsi_cross_closeness_centrality(L1, L2),
        "nsi_internal_closeness_centrality": lambda: net.nsi_internal_closeness_centrality(L1),
        "nsi_cross_average_path_length": lambda: net.nsi_cross_average_path_length(L1, L2),
        "cross_betweenness": lambda: net.cross_betweenness(L1, L2),
        "internal_betweenness": lambda: net.internal_betweenness(L1),
        "nsi_cross_betweenness": lambda: net.nsi_cross_betweenness(L1, L2),
    }
    return t


def call(thunk):
    try:
        with warnings.catch_warnings():
            warnings.simplefilter("ignore")
            with np.errstate(all="ignore"):
                v = thunk()
        return canon_impl(v)
    except Exception as e:  # noqa
        return "raise:" + type(e).__name__


# --------------------------------------------------------------------------
# generators
# --------------------------------------------------------------------------

class Case:
    __slots__ = ("n", "directed", "A", "w", "la", "Du", "Dw", "net", "tag", "wide")


def make_case(n, directed, A, rng, IN, tag, wide=False):
    """wide: node weights and link attributes m*2^e, m < 8, |e| <= 6 (ratios up to 28672; still
    dyadic and narrow enough that every sum and triple product formed by the library is exact in
    binary64)"""
    c = Case()
    c.n, c.directed, c.A, c.tag = n, directed, A, tag
    if wide:
        c.w = [Fr(rng.randrange(1, 8)) * Fr(2) ** rng.randrange(-6, 7) for _ in range(n)]
    else:
        c.w = [Fr(rng.randrange(1, 9), 4) for _ in range(n)]
    la = [[Fr(0)] * n for _ in range(n)]
    for a in range(n):
        for b in range(n):
            if A[a][b] and (directed or a < b):
                if wide:
                    v = Fr(rng.randrange(1, 8)) * Fr(2) ** rng.randrange(-6, 7)
                else:
                    v = Fr(rng.randrange(1, 13), 4)
                la[a][b] = v
                if not directed:
                    la[b][a] = v
    c.la = la
    c.wide = wide
    c.Du = floyd(n, [[Fr(1) if A[a][b] else None for b in range(n)] for a in range(n)])
    c.Dw = floyd(n, [[la[a][b] if A[a][b] else None for b in range(n)] for a in range(n)])
    c.net = build_net(IN, c, rng, "plain")
    return c


ADJ_FORMS = ["plain", "list", "bool", "int64", "float64", "uint8-fortran"]


def build_net(IN, c, rng, form):
    """construct the InteractingNetworks object of a case from caller data in a given
    representation (the library must not depend on the caller's dtype / layout)"""
    n = c.n
    A = np.array(c.A, dtype=np.int8).reshape(n, n)
    w = np.array([float(x) for x in c.w])
    la = np.array([[float(x) for x in r] for r in c.la]).reshape(n, n)
    if form == "list":
        A, w = [list(map(int, r)) for r in c.A], [float(x) for x in c.w]
    elif form == "bool":
        A, w = A.astype(bool), w.astype(np.float32) if not c.wide else w
        la = la.astype(np.float32) if not c.wide else la
    elif form == "int64":
        A, w = A.astype(np.int64), w[::1].copy()
    elif form == "float64":
        A = A.astype(np.float64)
        la = np.asfortranarray(la)
    elif form == "uint8-fortran":
        A = np.asfortranarray(A.astype(np.uint8))
    net = IN(A, directed=c.directed, node_weights=w, silence_level=3)
    net.set_link_attribute("la", la)
    return net


def graph_from_bits(n, bits, directed):
    A = [[0] * n for _ in range(n)]
    pairs = [(a, b) for a in range(n) for b in range(n) if (a != b if directed else a < b)]
    for (a, b), x in zip(pairs, bits):
        if x:
            A[a][b] = 1
            if not directed:
                A[b][a] = 1
    return A


def structured(n, kind):
    A = [[0] * n for _ in range(n)]

    def link(a, b):
        A[a][b] = A[b][a] = 1
    if kind == "complete":
        for a in range(n):
            for b in range(a):
                link(a, b)
    elif kind == "path":
        for a in range(n - 1):
            link(a, a + 1)
    elif kind == "star":
        for a in range(1, n):
            link(0, a)
    elif kind == "two_components":
        h = n // 2
        for a in range(h):
            for b in range(a):
                link(a, b)
        for a in range(h, n - 1):
            link(a, a + 1)
    elif kind == "cycle":
        for a in range(n):
            link(a, (a + 1) % n)
    return A


def graphs(ctx, quick):
    rng = ctx.rng
    out = []
    # all undirected graphs on 2 and 3 nodes, all directed on 2
    for n in (2, 3):
        m = n * (n - 1) // 2
        for bits in itertools.product([0, 1], repeat=m):
            out.append((n, False, graph_from_bits(n, bits, False), f"all-undirected-n{n}"))
    for bits in itertools.product([0, 1], repeat=2):
        out.append((2, True, graph_from_bits(2, bits, True), "all-directed-n2"))
    if quick:
        n4 = rng.sample(list(itertools.product([0, 1], repeat=6)), 8)
    else:
        n4 = list(itertools.product([0, 1], repeat=6))
    for bits in n4:
        out.append((4, False, graph_from_bits(4, bits, False), "undirected-n4"))
    for n in (4, 5, 6):
        for kind in ("empty", "complete", "path", "star", "two_components", "cycle"):
            out.append((n, False, structured(n, kind), "structured-" + kind))
    nrand = 14 if quick else 120
    for _ in range(nrand):
        n = rng.choice([5, 5, 6, 6, 6])
        p = rng.choice([0.25, 0.4, 0.5, 0.7])
        m = n * (n - 1) // 2
        out.append((n, False, graph_from_bits(n, [rng.random() < p for _ in range(m)], False),
                    f"random-undirected-n{n}"))
    for _ in range(8 if quick else 60):
        n = rng.choice([3, 4, 5, 6])
        p = rng.choice([0.2, 0.4, 0.6])
        out.append((n, True, graph_from_bits(n, [rng.random() < p for _ in range(n * (n - 1))],
                                             True), f"random-directed-n{n}"))
    if not quick:
        for bits in itertools.product([0, 1], repeat=10):
            if rng.random() < 0.25:
                out.append((5, False, graph_from_bits(5, bits, False), "undirected-n5"))
    return out


def bipartitions(n, rng, limit=None):
    """all ordered pairs (L1, L2) of non-empty complementary groups, each list in a random
    order"""
    out = []
    for mask in range(1, 2 ** n - 1):
        L1 = [a for a in range(n) if mask >> a & 1]
        L2 = [a for a in range(n) if not mask >> a & 1]
        out.append((L1, L2))
    if limit is not None and len(out) > limit:
        out = rng.sample(out, limit)
    res = []
    for L1, L2 in out:
        if rng.random() < 0.7:
            rng.shuffle(L1)
            rng.shuffle(L2)
        res.append((L1, L2))
    return res


def partial_pairs(n, rng, k):
    """disjoint non-empty groups that do not cover the node set"""
    res = []
    if n < 3:
        return res
    for _ in range(k):
        nodes = list(range(n))
        rng.shuffle(nodes)
        s1 = rng.randrange(1, n - 1)
        s2 = rng.randrange(1, n - s1)
        res.append((nodes[:s1], nodes[s1:s1 + s2]))
    return res


# --------------------------------------------------------------------------

def classify_nsi_apl(c, L1, L2):
    W1 = sum(c.w[v] for v in L1)
    W2 = sum(c.w[v] for v in L2)
    unconn = any(c.Du[a][b] is None for a in L1 for b in L2)
    if unconn:
        return "unreachable-pair-between-groups"
    if W1 != W2:
        return "group-weights-differ"
    return "reachable-and-equal-group-weights"


def request(c, L1, L2, D):
    return " ".join(["all", "1" if c.directed else "0", str(c.n), enc_mat(c.A), enc_vec(c.w),
                     enc_mat(D), enc_mat(c.la), enc_nodes(L1), enc_nodes(L2)])


def run(ctx):
    from pyunicorn.core import InteractingNetworks as IN
    from pyunicorn.core._ext import numerics as K
    rng = ctx.rng
    quick = ctx.tier == "quick"
    ctx.rule = ("graphs: all undirected on 2-3 nodes, all directed on 2, "
                f"{'8 sampled' if quick else 'all'} on 4, structured (empty/complete/path/star/"
                "two components/cycle) on 4-6, random undirected/directed on 3-6 nodes, random on "
                "7-14; dyadic node weights and link attributes k/4, for 30% of the graphs m*2^e with "
                "m<8, |e|<=6; groups: all ordered bipartitions "
                f"(n<=5{'; 24 sampled for n=6' if quick else ' and n=6'}) with lists in shuffled "
                "order + disjoint non-covering pairs + both groups = a permutation of all nodes; "
                "methods of a case called in random order on one object per graph; "
                "distinct = distinct (graph, weights, L1, L2); "
                "non-trivial = graph has a link and both groups together have >= 3 nodes")
    ctx.trusted = common.DEFAULT_TRUSTED + [
        "Network.path_lengths / igraph distances (C03) are not modelled: the model and the oracle "
        "receive the harness's own Floyd-Warshall matrix, which is compared with the "
        "implementation's blocks",
        "the kernel _nsi_betweenness behind the three betweenness delegates is C03's model "
        "(Pyunicorn.NetBetw, imported): its forward/backward sweeps = pair dependencies is C03's "
        "theorem NetBetw.sweepDiff_eq_contribDef (round 5), used by nsiCrossBetweenness_eq_def / "
        "crossBetweenness_eq_count (round 5b) - no longer a hypothesis; the kernel model is still "
        "compared with the definition inside Lean on a sample of the cases and with the "
        "implementation on every case; the tie of that model to numerics.pyx is C03's",
        "symmetry of cross_betweenness / nsi_cross_betweenness in the two groups (round 5d: theorems "
        "crossBetweenness_symm / nsiCrossBetweenness_symm about the kernel model, undirected "
        "networks, duplicate-free lists) rests on C02's/C03's Nsi.kernel_eq_nsiBetw_net (kernel "
        "model = double sum over weighted walk counts, imported lemma file); the both-orders "
        "relation on the implementation now confirms a theorem instead of standing in for one",
        "Pyunicorn.Net (model of Network.degree / average_path_length / closeness / "
        "local_clustering / transitivity used by the whole_* theorems) is tied to the "
        "implementation by C03's correspondence, not by this check"]
    ctx.proofs()

    reqs, metas = [], []
    cases = []
    nets = []
    for n, directed, A, tag in graphs(ctx, quick):
        wide = rng.random() < 0.3
        c = make_case(n, directed, A, rng, IN, tag, wide)
        nets.append(c)
        ctx.count("graph:" + tag)
        ctx.count("weights:" + ("wide-dyadic-m*2^e,m<8,|e|<=6" if wide else "k/4"))
        groups = bipartitions(n, rng, None if (n <= 5 or not quick) else 24)
        groups += partial_pairs(n, rng, 2 if quick else 6)
        for L1, L2 in groups:
            cases.append((c, L1, L2))
    # larger random graphs, random disjoint groups
    for _ in range(12 if quick else 150):
        n = rng.randrange(7, 15)
        directed = rng.random() < 0.25
        p = rng.choice([0.1, 0.2, 0.35, 0.6])
        m = n * (n - 1) if directed else n * (n - 1) // 2
        A = graph_from_bits(n, [rng.random() < p for _ in range(m)], directed)
        wide = rng.random() < 0.3
        c = make_case(n, directed, A, rng, IN, "random-large", wide)
        nets.append(c)
        ctx.count("graph:random-large" + ("-directed" if directed else ""))
        ctx.count("weights:" + ("wide-dyadic-m*2^e,m<8,|e|<=6" if wide else "k/4"))
        for L1, L2 in partial_pairs(n, rng, 3) + bipartitions(n, rng, 2):
            cases.append((c, L1, L2))
    ndisjoint = len(cases)
    # both groups = all nodes (in a random order): correspondence with the model only (the
    # oracle's definitions are for disjoint groups; the whole-network relation is checked against
    # the single-network methods in `relations`)
    for c in nets:
        perm = list(range(c.n))
        if rng.random() < 0.6:
            rng.shuffle(perm)
        cases.append((c, perm, list(perm)))

    # ------------------------------------------------------------------
    # method-level: implementation vs Lean model vs oracle
    # ------------------------------------------------------------------
    impl_results = []
    for ci, (c, L1, L2) in enumerate(cases):
        # (weighted path lengths of an edgeless graph fail inside igraph: Network.path_lengths,
        #  not C11's subject)
        weighted = rng.random() < 0.4 and any(any(r) for r in c.A)
        # every case is one more step in the history of the object c.net: the methods are called
        # in a random order, the weighted and unweighted path measures interleaved
        t = impl_table(c.net, L1, L2, None)
        todo = [(k, False) for k in t]
        if weighted:
            tw = impl_table(c.net, L1, L2, "la")
            todo += [(k, True) for k in PATH_MEASURES]
        rng.shuffle(todo)
        res, resw = {}, ({} if weighted else None)
        for k, wt in todo:
            if wt:
                resw[k] = call(tw[k])
            else:
                res[k] = call(t[k])
        impl_results.append((res, resw))
        reqs.append(request(c, L1, L2, c.Du))
        metas.append((len(impl_results) - 1, False))
        if weighted:
            reqs.append(request(c, L1, L2, c.Dw))
            metas.append((len(impl_results) - 1, True))
        nontrivial = any(any(r) for r in c.A) and len(L1) + len(L2) >= 3
        ctx.case((c.directed, c.n, c.A, [str(x) for x in c.w], L1, L2), nontrivial,
                 {"directed": c.directed, "adjacency": c.A, "L1": L1, "L2": L2,
                  "node_weights": [str(x) for x in c.w]})
        if ci >= ndisjoint:
            ctx.count("groups:both-all-nodes")
        else:
            ctx.count("groups:" + ("bipartition" if len(L1) + len(L2) == c.n else "partial"))
        ctx.count("order:" + ("sorted" if L1 == sorted(L1) and L2 == sorted(L2) else "shuffled"))
        ctx.count("directed" if c.directed else "undirected")
        if any(c.Du[a][b] is None for a in L1 for b in L2):
            ctx.count("has-unreachable-cross-pair")
        ctx.count(f"n={c.n}" if c.n <= 6 else "n>6")

    model = common.driver(ctx.pid, reqs)
    bad = []
    ncmp = 0
    defbad, ndef = [], 0
    for (idx, weighted), ans in zip(metas, model):
        c, L1, L2 = cases[idx]
        res, resw = impl_results[idx]
        got = dict(kv.split("=", 1) for kv in ans.split("|"))
        names = PATH_MEASURES if weighted else list(got)
        for nm in names:
            if c.directed and nm in CLUSTERING:
                continue  # triangle measures are defined for undirected networks only
            iv = (resw if weighted else res)[nm]
            mv = parse_model(got[nm])
            ncmp += 1
            if not same(iv, mv):
                bad.append((nm, weighted, c, L1, L2, iv, got[nm]))
    ctx.obligation(f"correspondence: Lean Cross model == InteractingNetworks methods "
                   f"({ncmp} method results on {len(cases)} (graph, L1, L2) cases)",
                   "correspondence", not bad,
                   "\n".join(f"{nm}(weighted={wt}) directed={c.directed} A={enc_mat(c.A)} "
                             f"w={enc_vec(c.w)} L1={L1} L2={L2} :: model={mv[:120]} impl={str(iv)[:120]}"
                             for nm, wt, c, L1, L2, iv, mv in bad[:6]))
    ctx.extra["method_results_compared"] = ncmp
    # round 4: the hypothesis of `nsiCrossBetweenness_eq_def_partial`, discharged on a sample of the
    # cases.  Round 5b: no longer a hypothesis of any theorem (`nsiCrossBetweenness_eq_def`,
    # `crossBetweenness_eq_count` use C03's `NetBetw.sweepDiff_eq_contribDef`); kept as a
    # correspondence between the two executable sides of those theorems - the kernel model and the
    # published double sum over enumerated shortest paths (exponential time), both in exact
    # rationals inside Lean
    small = [i for i, (c, L1, L2) in enumerate(cases) if c.n <= 6 and not c.directed]
    mid = [i for i, (c, L1, L2) in enumerate(cases) if 7 <= c.n <= 8 and not c.directed]
    pick = rng.sample(small, min(len(small), 90 if quick else 900)) \
        + rng.sample(mid, min(len(mid), 4 if quick else 40))
    dreqs = ["betwdef" + request(cases[i][0], cases[i][1], cases[i][2], cases[i][0].Du)[3:]
             for i in pick]
    for i, ans in zip(pick, common.driver(ctx.pid, dreqs)):
        c, L1, L2 = cases[i]
        got = dict(kv.split("=", 1) for kv in ans.split("|"))
        for nm in BETWEENNESS:
            ndef += 1
            if got[nm] != got[nm + "_def"] or got[nm].startswith("raise") or got[nm] == "bad-request":
                defbad.append((nm, c, L1, L2, got[nm], got[nm + "_def"]))
    ctx.obligation(f"model-internal: Lean model of the kernel behind cross_/internal_/nsi_cross_"
                   f"betweenness == the published double sum over enumerated shortest paths, exact "
                   f"rationals ({ndef} vectors; proved for all inputs as nsiCrossBetweenness_eq_def, "
                   f"not a hypothesis of a theorem any more)", "correspondence", not defbad,
                   "\n".join(f"{nm} A={enc_mat(c.A)} w={enc_vec(c.w)} L1={L1} L2={L2} :: "
                             f"kernel={a[:120]} def={b[:120]}" for nm, c, L1, L2, a, b in defbad[:5]))
    ctx.extra["betweenness_def_vectors"] = ndef

    # ------------------------------------------------------------------
    # kernel boundary
    # ------------------------------------------------------------------
    kreqs, kimpl = [], []
    for c, L1, L2 in cases[:ndisjoint]:
        if c.directed or rng.random() < (0.5 if quick else 0.0):
            continue
        A = np.ascontiguousarray(np.array(c.A, dtype=np.int16).reshape(c.n, c.n))
        Ap = np.ascontiguousarray(A + np.eye(c.n, dtype=np.int16))
        n1 = np.array(L1, dtype=np.int32)
        n2 = np.array(L2, dtype=np.int32)
        wv = np.array([float(x) for x in c.w])
        base = ["0", str(c.n), None, enc_vec(c.w), "-", "-", enc_nodes(L1), enc_nodes(L2)]

        def req(name, Am, extra=()):
            b = list(base)
            b[2] = enc_mat(Am)
            return " ".join([name] + b + list(extra))
        A_ = np.ascontiguousarray(A.astype(np.int8))
        Ap_ = np.ascontiguousarray(Ap.astype(np.int8))
        kreqs.append(req("k_cross_transitivity", c.A))
        kimpl.append(call(lambda: K._cross_transitivity(A_, n1, n2)))
        # arbitrary norm vector (the kernel only tests norm[i] != 0)
        norm = [Fr(rng.randrange(0, 5), 2) for _ in L1]
        out = np.zeros(len(L1))
        kreqs.append(req("k_cross_local_clustering", c.A, [enc_vec(norm)]))

        def clc():
            K._cross_local_clustering(A_, np.array([float(x) for x in norm]), n1, n2, out)
            return out
        kimpl.append(call(clc))
        Apl = [[int(x) for x in r] for r in Ap.tolist()]
        out2 = np.zeros(len(L1))
        kreqs.append(req("k_nsi_cross_local_clustering", Apl))

        def nclc():
            K._nsi_cross_local_clustering(Ap_, out2, n1, n2, wv)
            return out2
        kimpl.append(call(nclc))
        kreqs.append(req("k_nsi_cross_transitivity", Apl))
        kimpl.append(call(lambda: K._nsi_cross_transitivity(Ap_, n1, n2, wv)))
        ctx.count("kernel-calls", 4)
    kmodel = common.driver(ctx.pid, kreqs)
    kbad = [i for i in range(len(kreqs)) if not same(kimpl[i], parse_model(kmodel[i]))]
    ctx.obligation(f"correspondence: Lean kernel loops == compiled _cross_transitivity / "
                   f"_cross_local_clustering / _nsi_cross_* ({len(kreqs)} kernel calls)",
                   "correspondence", not kbad,
                   "\n".join(f"{kreqs[i][:300]} :: model={kmodel[i][:100]} impl={str(kimpl[i])[:100]}"
                             for i in kbad[:5]))
    ctx.extra["kernel_calls_compared"] = len(kreqs)
    ctx.extra["requests_compared"] = len(reqs) + len(kreqs)

    # ------------------------------------------------------------------
    # oracle on the implementation
    # ------------------------------------------------------------------
    dcases, dres = cases[:ndisjoint], impl_results[:ndisjoint]
    for (c, L1, L2), (res, resw) in zip(dcases, dres):
        oracle_case(ctx, c, L1, L2, res, resw)
    relations(ctx, dcases, dres, IN, quick)
    decomposition_checks(ctx, dcases)
    twin_checks(ctx, dcases, dres, IN, quick)
    alias_checks(ctx, cases, quick, ndisjoint)
    betweenness_checks(ctx, dcases, quick)
    ccn_checks(ctx, quick)
    net_correspondence(ctx, nets)
    width_correspondence(ctx)
    accumulation_correspondence(ctx)
    subclass_checks(ctx, quick)
    frame_checks(ctx, nets)
    hub_checks(ctx, quick)



# --------------------------------------------------------------------------
# round 3: the single-network methods the whole-network theorems refer to, fixed-width integer
# arithmetic, subclasses
# --------------------------------------------------------------------------

NET_METHODS = ["n_links", "link_density", "nsi_degree", "nsi_local_clustering",
               "nsi_global_clustering", "nsi_transitivity", "nsi_closeness",
               "nsi_average_path_length",
               # round 4
               "global_efficiency", "interregional_betweenness", "nsi_betweenness", "path_lengths"]
NET_METHODS_W = ["global_efficiency_w", "closeness_w", "closeness_conv"]


def net_correspondence(ctx, nets):
    """Lean models `netNLinks`, `netLinkDensity`, `Net.nsiDegree`, `Net.nsiLocalClustering`,
    `netNsiGlobalClustering`, `netNsiTransitivity`, `netNsiCloseness`, `netNsiAPL` (the right-hand
    sides of the whole_* theorems of round 3) against the Network methods of the very objects the
    cross_/internal_ histories ran on."""
    reqs, impls = [], []
    for c in nets:
        net = c.net
        from pyunicorn.core import Network
        reqs.append(" ".join(["net", "1" if c.directed else "0", str(c.n), enc_mat(c.A),
                              enc_vec(c.w), enc_mat(c.Du), enc_mat(c.Dw)]))
        haslinks = any(any(r) for r in c.A)
        impls.append({
            "global_efficiency": call(lambda: Network.global_efficiency(net)),
            "interregional_betweenness": call(lambda: Network.interregional_betweenness(net)),
            "nsi_betweenness": call(net.nsi_betweenness),
            "path_lengths": call(net.path_lengths),
            "global_efficiency_w": call(lambda: Network.global_efficiency(net, "la"))
            if haslinks else None,
            "closeness_w": call(lambda: net.closeness("la")) if haslinks else None,
            "closeness_conv": call(lambda: net.internal_closeness(list(range(c.n)), "la"))
            if haslinks else None,
            "n_links": call(lambda: net.n_links),
            "link_density": call(lambda: net.link_density),
            "nsi_degree": call(net.nsi_degree),
            "nsi_local_clustering": call(net.nsi_local_clustering),
            "nsi_global_clustering": call(net.nsi_global_clustering),
            "nsi_transitivity": call(net.nsi_transitivity),
            "nsi_closeness": call(net.nsi_closeness),
            "nsi_average_path_length": call(net.nsi_average_path_length)})
    model = common.driver(ctx.pid, reqs)
    bad, ncmp = [], 0
    for c, ans, res in zip(nets, model, impls):
        got = dict(kv.split("=", 1) for kv in ans.split("|"))
        for nm in NET_METHODS + NET_METHODS_W:
            if res[nm] is None:
                continue   # weighted path lengths of an edgeless graph (igraph fails: C05)
            ncmp += 1
            if not same(res[nm], parse_model(got[nm])):
                bad.append((nm, c, got[nm], res[nm]))
    ctx.count("net-methods-compared", ncmp)
    ctx.obligation(f"correspondence: Lean models of Network.n_links / link_density / nsi_degree / "
                   f"nsi_local_clustering / nsi_global_clustering / nsi_transitivity / nsi_closeness "
                   f"/ nsi_average_path_length / global_efficiency / closeness(link_attribute) / "
                   f"interregional_betweenness / nsi_betweenness / path_lengths (BFS) == the "
                   f"Network methods ({ncmp} results on "
                   f"{len(nets)} networks)",
                   "correspondence", not bad,
                   "\n".join(f"{nm} directed={c.directed} A={enc_mat(c.A)} w={enc_vec(c.w)} :: "
                             f"model={mv[:120]} impl={str(iv)[:120]}" for nm, c, mv, iv in bad[:6]))
    ctx.extra["net_method_results_compared"] = ncmp


def width_correspondence(ctx):
    """`normProdW m k` (Lean: k*(k-1) in a two's-complement type of range [-m, m)) against numpy's
    element-wise arithmetic on int16 / int32 / int64 arrays, boundaries included"""
    rng = ctx.rng
    reqs, exp = [], []
    for dt, bits in ((np.int16, 16), (np.int32, 32), (np.int64, 64)):
        m = 2 ** (bits - 1)
        ks = [0, 1, 2, 3, 181, 182, 183, 200, 240, 255, 256, 257, 32766, 32767, 46340, 46341, 46342,
              65535, 65536, 2 ** 31 - 2, 2 ** 31 - 1, 3037000499, 3037000500, 3037000501,
              2 ** 62, 2 ** 63 - 1]
        ks = [k for k in ks if k < m]
        ks += [rng.randrange(0, m) for _ in range(40)]
        ks += [rng.randrange(0, min(m, 70000)) for _ in range(40)]
        arr = np.array(ks, dtype=dt)
        with np.errstate(all="ignore"), warnings.catch_warnings():
            warnings.simplefilter("ignore")
            prod = arr * (arr - dt(1))
        assert prod.dtype == dt
        reqs.append(f"normprod {m} " + ",".join(str(k) for k in ks))
        exp.append(",".join(str(int(x)) for x in prod))
        ctx.count(f"width:int{bits}-products", len(ks))
    model = common.driver(ctx.pid, reqs)
    bad = [i for i in range(len(reqs)) if model[i] != exp[i]]
    ctx.obligation("correspondence: Lean wrap / normProdW == numpy int16 / int32 / int64 "
                   f"element-wise k*(k-1) ({sum(len(r.split(',')) for r in reqs)} products)",
                   "correspondence", not bad,
                   "\n".join(f"{reqs[i][:200]} :: model={model[i][:200]} numpy={exp[i][:200]}"
                             for i in bad))


def accumulation_correspondence(ctx):
    """`sumW m l` (Lean: every partial sum wrapped into [-m, m)) against numpy's reduction with an
    accumulator of that type (`np.add.reduce(arr, dtype=dt)`), the 127/128 and 32767/32768
    boundaries included; and numpy's default rule itself: the sum of an int8 / int16 / bool array
    accumulates in (and returns) the 64-bit platform integer"""
    rng = ctx.rng
    reqs, exp = [], []
    for dt, bits in ((np.int8, 8), (np.int16, 16), (np.int32, 32), (np.int64, 64)):
        m = 2 ** (bits - 1)
        rows = [[1] * 127, [1] * 128, [1] * 129, [1] * 300, [0, 1] * 200, [127, 1], [100, 27, 1]]
        rows += [[rng.randrange(0, 2) for _ in range(rng.randrange(1, 400))] for _ in range(6)]
        rows += [[rng.randrange(0, 128) for _ in range(rng.randrange(1, 40))] for _ in range(6)]
        if bits >= 16:
            rows += [[1] * 32767, [1] * 32768, [32767, 1], [127] * 300]
        for r in rows:
            arr = np.array(r, dtype=dt)
            with np.errstate(all="ignore"), warnings.catch_warnings():
                warnings.simplefilter("ignore")
                v = np.add.reduce(arr, dtype=dt)
            reqs.append(f"sumw {m} " + ",".join(map(str, r)))
            exp.append(str(int(v)))
            ctx.count(f"width:int{bits}-accumulations")
    model = common.driver(ctx.pid, reqs)
    bad = [i for i in range(len(reqs)) if model[i] != exp[i]]
    ctx.obligation(f"correspondence: Lean sumW == numpy add.reduce with an int8 / int16 / int32 / "
                   f"int64 accumulator ({len(reqs)} reductions)", "correspondence", not bad,
                   "\n".join(f"{reqs[i][:120]} :: model={model[i]} numpy={exp[i]}" for i in bad[:5]))
    # the default accumulator (the hypothesis of crossOutDegree_int64_accumulation)
    wrong = []
    for dt in (np.int8, np.int16, np.uint8, np.bool_):
        for shape, axis in (((3, 300), 1), ((300, 3), 0)):
            a = np.ones(shape, dtype=dt)
            r = a.sum(axis=axis)
            r2 = np.sum(a, axis=axis)
            ctx.count("width:default-accumulator")
            if r.dtype.kind not in "iu" or r.dtype.itemsize < 8 or not (r == 300).all() \
                    or r2.dtype != r.dtype:
                wrong.append((np.dtype(dt).name, shape, str(r.dtype), r.tolist()[:3]))
    ctx.obligation("numpy accumulates sums of int8 / int16 / uint8 / bool arrays in a 64-bit "
                   "integer (row and column sums of a 3x300 block of ones = 300)",
                   "correspondence", not wrong, str(wrong))


def enc_int_mat(M):
    return ";".join(",".join(str(int(v)) for v in row) for row in np.asarray(M).tolist()) or "-"


def isrn_snapshot(isrn, tag):
    """round 5: request for the Lean model `Pyunicorn.CrossISRN` (assembly of the adjacency matrix
    from the three recurrence matrices, the four wrappers, the cross recurrence rate) and the
    implementation's results on the same object"""
    Nx, N = int(isrn.N_x), int(isrn.N)
    Lx, Ly = list(range(Nx)), list(range(Nx, N))
    req = " ".join(["isrn", str(Nx), str(N), enc_int_mat(isrn.rp_x.recurrence_matrix()),
                    enc_int_mat(isrn.crp_xy.recurrence_matrix()),
                    enc_int_mat(isrn.rp_y.recurrence_matrix())])

    def q(f):
        with contextlib.redirect_stdout(io.StringIO()):
            return call(f)
    res = {"adjacency": q(lambda: isrn.adjacency),
           "cross_global_clustering_xy": q(isrn.cross_global_clustering_xy),
           "cross_global_clustering_yx": q(isrn.cross_global_clustering_yx),
           "cross_transitivity_xy": q(isrn.cross_transitivity_xy),
           "cross_transitivity_yx": q(isrn.cross_transitivity_yx),
           "cross_recurrence_rate": q(isrn.cross_recurrence_rate),
           "cross_link_density_xy": q(lambda: isrn.cross_link_density(Lx, Ly)),
           "n_links": q(lambda: isrn.n_links)}
    return req, res, f"{tag} N_x={Nx} N_y={N - Nx}"


def isrn_correspondence(ctx, todo):
    if not todo:
        return
    model = common.driver(ctx.pid, [t[0] for t in todo])
    bad, ncmp = [], 0
    for (req, res, meta), ans in zip(todo, model):
        got = dict(kv.split("=", 1) for kv in ans.split("|")) if "=" in ans else {}
        for nm, iv in res.items():
            ncmp += 1
            if nm not in got or not same(iv, parse_model(got[nm])):
                bad.append((nm, meta, req[:200], got.get(nm, ans)[:160], str(iv)[:160]))
    ctx.count("isrn:results-compared-with-model", ncmp)
    ctx.extra["isrn_results_compared"] = ncmp
    ctx.obligation(f"correspondence: Lean model CrossISRN (adjacency assembled from R_x, CR_xy, R_y "
                   f"with flat[::N+1] = 0, the four xy / yx wrappers, cross recurrence rate, "
                   f"n_links) == InterSystemRecurrenceNetwork ({ncmp} results on {len(todo)} "
                   f"states of {len(set(t[2] for t in todo))} objects, fixed-threshold and "
                   f"fixed-recurrence-rate constructors, re-thresholded objects)",
                   "correspondence", not bad,
                   "\n".join(f"{nm} {meta} {rq} :: model={mv} impl={iv}"
                             for nm, meta, rq, mv, iv in bad[:6]))


def isrn_relations(ctx, isrn, info):
    """implementation only (theorems isrn_cross_recurrence_rate, isrn_n_links, isrn_blocks)"""
    Nx, N = int(isrn.N_x), int(isrn.N)
    Lx, Ly = list(range(Nx)), list(range(Nx, N))
    ctx.count("relation:isrn-blocks")
    try:
        with contextlib.redirect_stdout(io.StringIO()):
            CR = np.asarray(isrn.crp_xy.recurrence_matrix()).astype(int)
            Rx = np.asarray(isrn.rp_x.recurrence_matrix()).astype(int)
            Ry = np.asarray(isrn.rp_y.recurrence_matrix()).astype(int)
            A = np.asarray(isrn.adjacency).astype(int)
            ok = np.array_equal(np.asarray(isrn.cross_adjacency(Lx, Ly)).astype(int), CR) and \
                np.array_equal(np.asarray(isrn.cross_adjacency(Ly, Lx)).astype(int), CR.T) and \
                np.array_equal(np.asarray(isrn.internal_adjacency(Lx)).astype(int),
                               Rx - np.diag(np.diag(Rx))) and \
                np.array_equal(np.asarray(isrn.internal_adjacency(Ly)).astype(int),
                               Ry - np.diag(np.diag(Ry))) and \
                abs(isrn.cross_recurrence_rate() - isrn.cross_link_density(Lx, Ly)) < 1e-12 and \
                int(isrn.n_links) == int(isrn.number_internal_links(Lx)) + \
                int(isrn.number_internal_links(Ly)) + int(CR.sum()) and \
                not np.any(np.diag(A)) and np.array_equal(A, A.T)
        what = ""
    except Exception as e:  # noqa
        ok, what = False, "raise:" + type(e).__name__
    if not ok:
        ctx.fail({"class": "InterSystemRecurrenceNetwork", "method": "adjacency / blocks",
                  "relation": "blocks-are-recurrence-matrices"},
                 "the x / y / cross blocks of an InterSystemRecurrenceNetwork are not its recurrence "
                 "/ cross recurrence matrices (or cross recurrence rate != cross link density, "
                 "n_links != sum over the blocks) " + what, info)


def subclass_checks(ctx, quick):
    """objects of the subclasses of InteractingNetworks (VisibilityGraph,
    InterSystemRecurrenceNetwork) run through the same definitions on the sub-blocks of *their*
    adjacency matrix, and the four ISRN wrappers cross_global_clustering_xy/yx,
    cross_transitivity_xy/yx against the definitions on the x / y blocks"""
    from pyunicorn.timeseries import VisibilityGraph, InterSystemRecurrenceNetwork
    rng = ctx.rng

    def as_case(net, tag):
        n = int(net.N)
        A = [[int(x) for x in r] for r in np.asarray(net.adjacency).tolist()]
        c = Case()
        c.n, c.directed, c.A, c.tag, c.wide = n, False, A, tag, False
        c.w = [Fr(float(x)) for x in np.asarray(net.node_weights).tolist()]
        la = [[Fr(0)] * n for _ in range(n)]
        for a in range(n):
            for b in range(a):
                if A[a][b]:
                    la[a][b] = la[b][a] = Fr(rng.randrange(1, 13), 4)
        c.la = la
        net.set_link_attribute("la", np.array([[float(x) for x in r] for r in la]))
        c.Du = floyd(n, [[Fr(1) if A[a][b] else None for b in range(n)] for a in range(n)])
        c.Dw = floyd(n, [[la[a][b] if A[a][b] else None for b in range(n)] for a in range(n)])
        c.net = net
        return c

    def run_pairs(c, k):
        for L1, L2 in partial_pairs(c.n, rng, k) + bipartitions(c.n, rng, 2):
            t = impl_table(c.net, L1, L2, None)
            names = list(t)
            rng.shuffle(names)
            res = {nm: call(t[nm]) for nm in names}
            weighted = any(any(r) for r in c.A)
            resw = None
            if weighted:
                tw = impl_table(c.net, L1, L2, "la")
                resw = {nm: call(tw[nm]) for nm in PATH_MEASURES}
            ctx.count("subclass:cases:" + c.tag)
            ctx.case((c.tag, c.n, c.A, L1, L2), True)
            oracle_case(ctx, c, L1, L2, res, resw)

    for _ in range(2 if quick else 10):
        n = rng.randrange(6, 13)
        ts = np.array([rng.randrange(0, 9) / 2.0 for _ in range(n)])
        with contextlib.redirect_stdout(io.StringIO()):
            vg = VisibilityGraph(ts, horizontal=rng.random() < 0.4, silence_level=3)
        run_pairs(as_case(vg, "VisibilityGraph"), 2)
    todo = []
    for _ in range(5 if quick else 24):
        nx, ny = rng.randrange(3, 9), rng.randrange(3, 9)
        x = np.array([rng.randrange(0, 12) / 4.0 for _ in range(nx)])
        y = np.array([rng.randrange(0, 12) / 4.0 for _ in range(ny)])
        # dyadic data and thresholds strictly between two attainable distances (multiples of 1/4)
        ths = tuple(rng.choice([0.125, 0.375, 0.625, 1.125, 1.625]) for _ in range(3))
        th = ths
        by_rate = rng.random() < 0.3
        try:
            with contextlib.redirect_stdout(io.StringIO()):
                if by_rate:
                    rr = tuple(rng.choice([0.2, 0.35, 0.5, 0.7]) for _ in range(3))
                    isrn = InterSystemRecurrenceNetwork(x, y, recurrence_rate=rr, silence_level=3)
                else:
                    isrn = InterSystemRecurrenceNetwork(x, y, threshold=ths, silence_level=3)
        except Exception as e:  # noqa
            ctx.count("subclass:isrn-constructor-raises:" + type(e).__name__)
            continue
        ctx.count("subclass:isrn:" + ("fixed-recurrence-rate" if by_rate else "fixed-threshold")
                  + (":N_x=N_y" if nx == ny else ":N_x!=N_y"))
        info = {"x": x.tolist(), "y": y.tolist(), "threshold": list(ths), "by_rate": by_rate}
        todo.append(isrn_snapshot(isrn, f"object{len(todo)}"))
        isrn_relations(ctx, isrn, info)
        c = as_case(isrn, "InterSystemRecurrenceNetwork")
        need_n = int(isrn.N_x) + int(isrn.N_y)
        if c.n != need_n:
            ctx.count("subclass:isrn-size-mismatch")
            continue
        run_pairs(c, 1)
        o = Oracle(c.n, False, c.A, c.w, c.la, c.Du, c.Dw)
        Lx, Ly = list(range(int(isrn.N_x))), list(range(int(isrn.N_x), c.n))
        for nm, exp in (("cross_global_clustering_xy", o.cross_global_clustering(Lx, Ly)),
                        ("cross_global_clustering_yx", o.cross_global_clustering(Ly, Lx)),
                        ("cross_transitivity_xy", o.cross_transitivity(Lx, Ly)),
                        ("cross_transitivity_yx", o.cross_transitivity(Ly, Lx))):
            got = call(getattr(isrn, nm))
            ctx.count("subclass:isrn-wrapper-calls")
            if not same(got, shape_exact(exp)):
                ctx.fail({"class": "InterSystemRecurrenceNetwork", "method": nm,
                          "relation": "wrapper-vs-definition-on-layers"},
                         f"InterSystemRecurrenceNetwork.{nm}() differs from the definition on the "
                         f"x / y blocks of its adjacency (N_x={len(Lx)}, N_y={len(Ly)})",
                         {"x": x.tolist(), "y": y.tolist(), "threshold": th, "adjacency": c.A,
                          "method": nm, "expected": str(exp), "observed": str(got)})

        # a second state of the same object (a multi-step history): new thresholds through the
        # public setter, which replaces the adjacency held by the network
        ths2 = tuple(rng.choice([0.125, 0.375, 0.625, 1.125, 1.625]) for _ in range(3))
        try:
            with contextlib.redirect_stdout(io.StringIO()):
                isrn.set_fixed_threshold(ths2)
            ctx.count("subclass:isrn:re-thresholded")
            info2 = dict(info, threshold=list(ths2), after="set_fixed_threshold")
            todo.append(isrn_snapshot(isrn, todo[-1][2].split()[0] + "-rethresholded"))
            isrn_relations(ctx, isrn, info2)
        except Exception as e:  # noqa
            ctx.count("subclass:isrn-set_fixed_threshold-raises:" + type(e).__name__)
    isrn_correspondence(ctx, todo)

def hub_checks(ctx, quick):
    """large cross degrees: the library's degree dtype is int16, so a normalisation k(k-1)/2 or a
    triple count evaluated in that type wraps from k = 182 on (182*181 > 32767).  One network
    with hubs of cross degree 181, 182, 200 and 240 (and ordinary nodes): clustering, degree and
    density methods against numpy evaluations of their definitions on the sub-blocks, and dense
    vs `_sparse`."""
    from pyunicorn.core import InteractingNetworks
    rng = ctx.rng
    n1, n2 = 6, (250 if quick else 300)
    N = n1 + n2
    A = np.zeros((N, N), dtype=np.int8)
    degs = [181, 182, 200, 240, 5, 0]
    for i, k in enumerate(degs):
        nb = rng.sample(range(n1, N), k)
        for j in nb:
            A[i, j] = A[j, i] = 1
    for _ in range(3 * n2):                      # links inside the second group
        a, b = rng.sample(range(n1, N), 2)
        A[a, b] = A[b, a] = 1
    net = InteractingNetworks(adjacency=A, silence_level=3)
    L1, L2 = list(range(n1)), list(range(n1, N))
    B = A[np.ix_(L1, L2)].astype(np.int64)       # cross block
    A2 = A[np.ix_(L2, L2)].astype(np.int64)
    k = B.sum(axis=1)
    tri = np.array([(B[i][:, None] * B[i][None, :] * A2).sum() / 2 for i in range(n1)])
    with np.errstate(divide="ignore", invalid="ignore"):
        clc = np.where(k > 1, tri / (k * (k - 1) / 2.0), 0.0)
    exp = {"cross_degree": k.astype(float), "cross_local_clustering": clc,
           "cross_local_clustering_sparse": clc, "cross_global_clustering": clc.mean(),
           "cross_global_clustering_sparse": clc.mean(),
           "cross_transitivity": tri.sum() / (k * (k - 1) / 2.0).sum(),
           "cross_transitivity_sparse": tri.sum() / (k * (k - 1) / 2.0).sum(),
           "cross_link_density": B.sum() / float(n1 * n2)}
    ctx.case(("hubs", N, tuple(degs)), True)

    def compare(net, nm, args, e, what, tol=1e-6):
        try:
            with warnings.catch_warnings(), np.errstate(all="ignore"):
                warnings.simplefilter("ignore")
                raw = getattr(net, nm)(*args) if args is not None else getattr(net, nm)
            got = np.asarray(raw, dtype=float)
        except Exception as ex:  # noqa
            ctx.fail({"kind": "hub-raises", "method": nm, "error": type(ex).__name__},
                     f"{nm} raises {type(ex).__name__} on a network with cross degrees up to 240",
                     {"N1": n1, "N2": n2, "cross_degrees": degs, "variant": what})
            return None
        ctx.count("hub:methods-compared")
        if got.shape != np.asarray(e).shape or not np.allclose(got, e, rtol=tol, atol=1e-9):
            ctx.fail({"kind": "hub-definition", "method": nm},
                     f"{nm} ({what}) differs from its definition on the sub-blocks for cross "
                     f"degrees {'> 255' if what == 'clique hub' else degs}: "
                     f"{np.round(got, 4).tolist()[:12] if got.ndim else got} vs "
                     f"{np.round(e, 4).tolist()[:12] if np.ndim(e) else e}",
                     {"N1": n1, "N2": n2, "cross_degrees": degs, "method": nm, "variant": what,
                      "adjacency_rows_of_group_1": [np.nonzero(A[i])[0].tolist() for i in L1]})
        return raw

    for nm, e in exp.items():
        compare(net, nm, (L1, L2), e, "lists")
    # node lists handed over as small-integer arrays (node numbers < 2^15 fit int16)
    a1, a2 = np.array(L1, dtype=np.int16), np.array(L2, dtype=np.int16)
    for nm in ("cross_degree", "cross_local_clustering", "cross_global_clustering",
               "cross_transitivity"):
        compare(net, nm, (a1, a2), exp[nm], "int16 node arrays")
    # integer results must come back in a type that holds k(k-1) for every possible degree
    # (norm_int64_exact): the sums of the int8/int16 adjacency blocks accumulate in 64 bits
    for nm, args in (("cross_degree", (L1, L2)), ("cross_indegree", (L1, L2)),
                     ("cross_outdegree", (L1, L2)), ("internal_degree", (L2,)),
                     ("internal_indegree", (L2,)), ("internal_outdegree", (L2,)),
                     ("number_cross_links", (L1, L2)), ("number_internal_links", (L2,))):
        r = getattr(net, nm)(*args)
        dt = np.asarray(r).dtype
        ctx.count("hub:result-dtypes-checked")
        if not (dt.kind in "iu" and dt.itemsize >= 8):
            ctx.fail({"kind": "hub-result-dtype", "method": nm, "dtype": str(dt)},
                     f"{nm} returns {dt}: degrees / link counts narrower than 64 bits make "
                     f"k*(k-1) wrap for large groups",
                     {"method": nm, "dtype": str(dt)})
    # internal measures of a group that contains the hubs and their neighbourhoods
    Lint = L1 + rng.sample(L2, n2 // 2)
    rng.shuffle(Lint)
    Bi = A[np.ix_(Lint, Lint)].astype(np.int64)
    compare(net, "internal_degree", (Lint,), Bi.sum(axis=1).astype(float), "hub group")
    compare(net, "number_internal_links", (Lint,), float(Bi.sum() // 2), "hub group")
    compare(net, "internal_link_density", (Lint,),
            Bi.sum() / float(len(Lint) * (len(Lint) - 1)), "hub group")
    # n.s.i. measures with dyadic weights against numpy evaluations of the double sums
    w = np.array([rng.randrange(1, 9) / 4.0 for _ in range(N)])
    netw = InteractingNetworks(adjacency=A, node_weights=w, silence_level=3)
    Ap = (A.astype(np.int64) + np.eye(N, dtype=np.int64))
    Bp, Ap2 = Ap[np.ix_(L1, L2)].astype(float), Ap[np.ix_(L2, L2)].astype(float)
    w2, w1 = w[L2], w[L1]
    kst = Bp @ w2
    tri_nsi = np.array([(Bp[i] * w2) @ Ap2 @ (Bp[i] * w2) for i in range(n1)])
    with np.errstate(divide="ignore", invalid="ignore"):
        clc_nsi = np.where(kst != 0, tri_nsi / kst ** 2, 0.0)
    nsi_exp = {"nsi_cross_degree": kst,
               "nsi_cross_local_clustering": clc_nsi,
               "nsi_cross_global_clustering": (w1 * clc_nsi).sum() / w1.sum(),
               "nsi_cross_transitivity": (w1 * tri_nsi).sum() / (w1 * kst ** 2).sum(),
               "nsi_cross_mean_degree": (w1 * kst).sum() / w1.sum(),
               "nsi_cross_edge_density": (w1 * kst).sum() / w1.sum() / w2.sum()}
    for nm, e in nsi_exp.items():
        compare(netw, nm, (L1, L2), e, "n.s.i., weights k/4")
    # both groups = all nodes of the hub network: the single-network methods
    allv = list(range(N))
    rng.shuffle(allv)
    whole = [("cross_degree", (allv, allv), np.asarray(netw.degree())[allv].astype(float)),
             ("internal_degree", (allv,), np.asarray(netw.degree())[allv].astype(float)),
             ("number_internal_links", (allv,), float(netw.n_links)),
             ("internal_link_density", (allv,), float(netw.link_density)),
             ("cross_local_clustering", (allv, allv), np.asarray(netw.local_clustering())[allv]),
             ("cross_transitivity", (allv, allv), float(netw.transitivity())),
             ("nsi_cross_degree", (allv, allv), np.asarray(netw.nsi_degree())[allv]),
             ("nsi_internal_local_clustering", (allv,),
              np.asarray(netw.nsi_local_clustering())[allv]),
             ("nsi_cross_transitivity", (allv, allv), float(netw.nsi_transitivity())),
             ("nsi_cross_global_clustering", (allv, allv), float(netw.nsi_global_clustering()))]
    for nm, args, e in whole:
        compare(netw, nm, args, e, "both groups = all nodes (shuffled) vs single-network method")
    # one node facing a nearly complete group of 262 nodes: more than 2^15 triangles / triples per
    # node, so a counter narrower than the kernels' `long` (counters_are_long) would wrap
    m2 = 262
    Ac = np.ones((m2 + 2, m2 + 2), dtype=np.int8)
    np.fill_diagonal(Ac, 0)
    Ac[0, 1] = Ac[1, 0] = 0
    for _ in range(200):
        a, b = rng.sample(range(2, m2 + 2), 2)
        Ac[a, b] = Ac[b, a] = 0
    for j in rng.sample(range(2, m2 + 2), 3):
        Ac[1, j] = Ac[j, 1] = 0
    netc = InteractingNetworks(adjacency=Ac, silence_level=3)
    C1, C2 = [0, 1], list(range(2, m2 + 2))
    rng.shuffle(C2)
    Bc = Ac[np.ix_(C1, C2)].astype(np.int64)
    A2c = Ac[np.ix_(C2, C2)].astype(np.int64)
    kc = Bc.sum(axis=1)
    tric = np.array([(Bc[i][:, None] * Bc[i][None, :] * A2c).sum() // 2 for i in range(2)])
    trpc = kc * (kc - 1) // 2
    ctx.count("hub:clique-triangles-per-node>2^15", int((tric > 2 ** 15).sum()))
    compare(netc, "cross_local_clustering", (C1, C2), tric / trpc.astype(float), "clique hub")
    compare(netc, "cross_global_clustering", (C1, C2), (tric / trpc.astype(float)).mean(),
            "clique hub")
    compare(netc, "cross_transitivity", (C1, C2), tric.sum() / float(trpc.sum()), "clique hub")
    # directed hubs: cross_degree = in + out reaches 2 * 240
    Ad = A.copy()
    for i in range(n1):
        for j in rng.sample(L2, 30):
            Ad[i, j], Ad[j, i] = 1, 0
    netd = InteractingNetworks(adjacency=Ad, directed=True, silence_level=3)
    Bo = Ad[np.ix_(L1, L2)].astype(np.int64)
    Bi_ = Ad[np.ix_(L2, L1)].astype(np.int64)
    compare(netd, "cross_outdegree", (L1, L2), Bo.sum(axis=1).astype(float), "directed hubs")
    compare(netd, "cross_indegree", (L1, L2), Bi_.sum(axis=0).astype(float), "directed hubs")
    compare(netd, "cross_degree", (L1, L2), (Bo.sum(axis=1) + Bi_.sum(axis=0)).astype(float),
            "directed hubs")
    compare(netd, "total_cross_degree", (L1, L2),
            float((Bo.sum(axis=1) + Bi_.sum(axis=0)).mean()), "directed hubs")
    compare(netd, "cross_degree_density", (L1, L2),
            (Bo.sum(axis=1) + Bi_.sum(axis=0)) / float(n2), "directed hubs")


def sig(method, relation, c, extra=None):
    s = {"class": "InteractingNetworks", "method": method, "relation": relation,
         "directed": bool(c.directed)}
    if extra:
        s.update(extra)
    return s


def replay_of(c, L1, L2, **kw):
    r = {"directed": c.directed, "adjacency": c.A, "node_weights": [str(x) for x in c.w],
         "link_attribute": [[str(x) for x in r] for r in c.la], "node_list1": L1,
         "node_list2": L2}
    r.update(kw)
    return r


def oracle_case(ctx, c, L1, L2, res, resw):
    o = Oracle(c.n, c.directed, c.A, c.w, c.la, c.Du, c.Dw)
    for nm, iv in res.items():
        if c.directed and (nm in CLUSTERING or nm in BETWEENNESS):
            # triangle measures: undirected only; the betweenness kernel refuses directed networks
            # (AssertionError in Network._nsi_betweenness; compared with the model's token)
            continue
        exp = shape_exact(getattr(o, nm)(L1, L2))
        if not same(iv, exp):
            extra = {}
            if nm == "nsi_cross_average_path_length":
                extra["input_class"] = classify_nsi_apl(c, L1, L2)
            ctx.fail(sig(nm, "definition-on-sub-blocks", c, extra),
                     f"{nm}({L1}, {L2}) differs from its definition on the sub-blocks",
                     replay_of(c, L1, L2, method=nm, expected=str(exp)[:400],
                               observed=str(iv)[:400]))
    if resw:
        for nm, iv in resw.items():
            exp = shape_exact(getattr(o, nm)(L1, L2, c.Dw))
            if not same(iv, exp):
                ctx.fail(sig(nm, "definition-on-sub-blocks", c, {"link_attribute": True}),
                         f"{nm}({L1}, {L2}, link_attribute) differs from its definition",
                         replay_of(c, L1, L2, method=nm, expected=str(exp)[:400],
                                   observed=str(iv)[:400]))
    # dense vs sparse on the implementation's own outputs
    if not c.directed:
        for d, s in SPARSE_PAIRS:
            if not impl_close(res[d], res[s]):
                ctx.fail(sig(s, "dense-vs-sparse", c),
                         f"{d} and {s} disagree on ({L1}, {L2})",
                         replay_of(c, L1, L2, dense=str(res[d]), sparse=str(res[s])))


def impl_close(a, b):
    if isinstance(a, str) or isinstance(b, str):
        return a == b
    fa = [x for r in a for x in r]
    fb = [x for r in b for x in r]
    return len(fa) == len(fb) and all(
        (math.isnan(x) and math.isnan(y)) or x == y or abs(x - y) <= TOL * max(2.0 ** -40, abs(x))
        for x, y in zip(map(float, fa), map(float, fb)))


def transpose(v):
    if isinstance(v, str):
        return v
    return [list(r) for r in zip(*v)] if v and v[0] else v


def decomposition_checks(ctx, cases):
    """round 5 (theorems `degree_decomposition`, `nsi_degree_decomposition`,
    `n_links_decomposition[_directed]`), on the implementation only: for every bipartition
    (L1, L2) of the node set the single-network degree / n.s.i. degree / link count is the sum of
    the internal and the cross quantity"""
    for c, L1, L2 in cases:
        if sorted(list(L1) + list(L2)) != list(range(c.n)):
            continue
        net = c.net
        ctx.count("relation:bipartition-decomposition")

        def vec(f):
            v = call(f)
            return v if isinstance(v, str) else [x for r in v for x in r]
        deg = vec(net.degree)
        i1, c12 = vec(lambda: net.internal_degree(L1)), vec(lambda: net.cross_degree(L1, L2))
        bad = []
        if isinstance(deg, str) or isinstance(i1, str) or isinstance(c12, str) or \
                [deg[a] for a in L1] != [x + y for x, y in zip(i1, c12)]:
            bad.append(("degree", f"Network.degree()[L1]={deg} internal={i1} cross={c12}"))
        nd = vec(net.nsi_outdegree)   # = nsi_degree() on undirected networks (Net.nsiOutdeg)
        n1, n12 = vec(lambda: net.nsi_internal_degree(L1)), vec(lambda: net.nsi_cross_degree(L1, L2))
        if isinstance(nd, str) or isinstance(n1, str) or isinstance(n12, str) or any(
                abs(nd[a] - (x + y)) > 1e-9 * max(2.0 ** -40, abs(nd[a]))
                for a, x, y in zip(L1, n1, n12)):
            bad.append(("nsi_outdegree", f"Network.nsi_outdegree()={nd} internal={n1} cross={n12}"))
        nl = call(lambda: net.n_links)
        a1, a2 = call(lambda: net.number_internal_links(L1)), \
            call(lambda: net.number_internal_links(L2))
        if c.directed:
            x12 = vec(lambda: net.cross_outdegree(L1, L2))
            x21 = vec(lambda: net.cross_outdegree(L2, L1))
            cross = None if isinstance(x12, str) or isinstance(x21, str) else sum(x12) + sum(x21)
        else:
            x = call(lambda: net.number_cross_links(L1, L2))
            cross = None if isinstance(x, str) else x[0][0]
        if cross is None or isinstance(nl, str) or isinstance(a1, str) or isinstance(a2, str) or \
                nl[0][0] != a1[0][0] + a2[0][0] + cross:
            bad.append(("n_links", f"n_links={nl} internal={a1},{a2} cross={cross}"))
        if any(any(r) for r in c.A):
            # theorem apl_decomposition: Network.average_path_length(link_attribute) is the pooled
            # mean of the four path-length blocks of the bipartition
            try:
                with warnings.catch_warnings():
                    warnings.simplefilter("ignore")
                    with np.errstate(all="ignore"):
                        with contextlib.redirect_stdout(io.StringIO()):
                            whole = float(net.average_path_length("la"))
                            B = [np.array(net.internal_path_lengths(L1, "la"), dtype=float),
                                 np.array(net.cross_path_lengths(L1, L2, "la"), dtype=float),
                                 np.array(net.cross_path_lengths(L2, L1, "la"), dtype=float),
                                 np.array(net.internal_path_lengths(L2, "la"), dtype=float)]
                S = sum(float(b[np.isfinite(b)].sum()) for b in B)
                U = sum(int(np.isinf(b).sum()) for b in B)
                norm = c.n * (c.n - 1) - U
                okp = (norm == 0 and not math.isfinite(whole)) or (
                    norm != 0 and abs(whole - S / norm) <= 1e-9 * max(2.0 ** -40, abs(S / norm)))
                what = f"average_path_length('la')={whole} blocks: sum={S} inf={U}"
            except Exception as e:  # noqa
                okp, what = False, "raise:" + type(e).__name__
            ctx.count("relation:bipartition-apl-decomposition")
            if not okp:
                bad.append(("average_path_length", what))
        for nm, what in bad:
            ctx.fail(sig(nm, "bipartition-decomposition", c),
                     f"Network.{nm} is not the sum of the internal and the cross quantity of the "
                     f"bipartition ({L1}, {L2}): {what}",
                     replay_of(c, L1, L2, method=nm, observed=what))


def relations(ctx, cases, impl_results, IN, quick):
    rng = ctx.rng
    # ---- both argument orders (undirected) --------------------------------
    seen_nets = {}
    for (c, L1, L2), (res, _) in zip(cases, impl_results):
        seen_nets.setdefault(id(c), c)
        if c.directed:
            continue
        t = impl_table(c.net, L2, L1, None)
        for nm, kind in SYMMETRIC.items():
            rev = call(t[nm])
            fwd = res[nm]
            if kind == "T":
                rev = transpose(rev)
            ctx.count("relation:both-orders")
            if not impl_close(fwd, rev):
                extra = {}
                if nm == "nsi_cross_average_path_length":
                    extra["input_class"] = classify_nsi_apl(c, L1, L2)
                ctx.fail(sig(nm, "symmetric-in-groups", c, extra),
                         f"{nm} differs between ({L1}, {L2}) and ({L2}, {L1}) on an undirected "
                         f"network" + (f" - the model is symmetric by theorem "
                                       f"{SYMMETRIC_THEOREM[nm]}" if nm in SYMMETRIC_THEOREM
                                       else ""),
                         replay_of(c, L1, L2, method=nm, forward=str(fwd), reverse=str(rev)))
    # ---- numpy arrays as node lists -----------------------------------------
    sub = [x for x in zip(cases, impl_results) if rng.random() < (0.15 if quick else 0.3)]
    for (c, L1, L2), (res, _) in sub:
        if c.directed:
            continue
        t = impl_table(c.net, np.array(L1), np.array(L2), None)
        for nm in ["cross_transitivity_sparse", "cross_local_clustering_sparse",
                   "cross_global_clustering_sparse", "cross_degree", "internal_degree",
                   "cross_average_path_length", "nsi_cross_degree", "cross_transitivity",
                   "internal_adjacency", "internal_link_attribute", "cross_betweenness",
                   "internal_betweenness", "nsi_cross_betweenness"]:
            got = call(t[nm])
            ctx.count("relation:array-node-lists")
            if not impl_close(res[nm], got):
                ctx.fail(sig(nm, "array-vs-list-node-lists", c),
                         f"{nm} gives a different result for numpy-array node lists than for the "
                         f"same lists ({L1}, {L2})",
                         replay_of(c, L1, L2, method=nm, with_lists=str(res[nm]),
                                   with_arrays=str(got)))
    # ---- sub-objects and the remaining delegates ---------------------------------
    from pyunicorn.core import Network
    for (c, L1, L2), (res, _) in sub:
        subnet = None
        try:
            subnet = c.net.subnetwork(L1)
            got = (canon_impl(subnet.adjacency), canon_impl(subnet.node_weights),
                   bool(subnet.directed), int(subnet.N))
        except Exception as e:  # noqa
            got = "raise:" + type(e).__name__
        exp = (res["internal_adjacency"], [[float(c.w[i]) for i in L1]], bool(c.directed), len(L1))
        if len(L1) < 2:
            # a Network on a single node cannot be constructed at all (link density 0/0 in
            # Network.__init__): not C11's subject, only the error must be the constructor's
            ctx.count("relation:subnetwork-single-node")
            if got == "raise:ZeroDivisionError":
                continue
        ctx.count("relation:subnetwork")
        if isinstance(got, str) or not (exact_equal(got[0], exp[0]) and exact_equal(got[1], exp[1])
                                        and got[2:] == exp[2:]):
            ctx.fail(sig("subnetwork", "definition-on-sub-blocks", c),
                     f"subnetwork({L1}) is not the network on the internal adjacency block with "
                     f"the group's node weights",
                     replay_of(c, L1, L2, method="subnetwork", expected=str(exp)[:300],
                               observed=str(got)[:300]))
        if not c.directed:
            ref_net = Network(adjacency=np.array(c.A, dtype=np.int8).reshape(c.n, c.n),
                              directed=False, node_weights=np.array([float(x) for x in c.w]),
                              silence_level=3)
            ref = call(lambda: ref_net.nsi_betweenness(sources=list(L1), targets=list(L2)))
            got = call(lambda: c.net.nsi_cross_betweenness(L1, L2))
            ctx.count("relation:nsi-cross-betweenness-delegate")
            if not impl_close(ref, got):
                ctx.fail(sig("nsi_cross_betweenness", "equals-network-nsi-betweenness-of-groups", c),
                         f"nsi_cross_betweenness({L1}, {L2}) differs from Network.nsi_betweenness("
                         f"sources, targets) of an identical fresh network",
                         replay_of(c, L1, L2, method="nsi_cross_betweenness", expected=str(ref)[:300],
                                   observed=str(got)[:300]))
    # ---- both groups = all nodes --------------------------------------------
    for c in seen_nets.values():
        whole_network(ctx, c, rng)


def whole_network(ctx, c, rng):
    net = c.net
    allv = list(range(c.n))
    perm = list(allv)
    if rng.random() < 0.6:
        rng.shuffle(perm)

    def single(f):
        return call(f)

    def take(v, idx):
        if isinstance(v, str):
            return v
        return [[v[0][i] for i in idx]]

    def scale(v, k):
        if isinstance(v, str):
            return v
        return [[k * x for x in r] for r in v]

    t = impl_table(net, perm, perm, None)
    pairs = [
        ("internal_degree", take(single(net.degree), perm)),
        ("cross_degree", take(single(net.degree), perm)),
        ("number_internal_links", single(lambda: net.n_links)),
        ("internal_link_density", single(lambda: net.link_density)),
        ("internal_average_path_length", single(net.average_path_length)),
    ]
    if not c.directed:
        # the n.s.i. cross measures are row (out-link) based; compared on undirected networks
        pairs += [
            ("nsi_internal_degree", take(single(net.nsi_degree), perm)),
            ("nsi_cross_degree", take(single(net.nsi_degree), perm)),
            ("nsi_cross_average_path_length", single(net.nsi_average_path_length)),
        ]
    if all(d is not None for r in c.Du for d in r):
        # Network.nsi_closeness documents 0 for disconnected networks (inf distances), the
        # cross variant counts unreachable pairs as N-1: compared on connected networks only
        # Network.closeness (igraph, per component) likewise has its own convention for
        # disconnected networks ("TODO: check and describe behaviour for unconnected networks")
        # and ignores link directions (igraph mode=ALL) while path_lengths() honours them:
        # compared on connected undirected networks
        if not c.directed:
            pairs.append(("internal_closeness", take(single(net.closeness), perm)))
            pairs.append(("nsi_internal_closeness_centrality",
                          take(single(net.nsi_closeness), perm)))
    if not c.directed:
        pairs += [
            ("number_cross_links", scale(single(lambda: net.n_links), 2)),
            ("cross_local_clustering", take(single(net.local_clustering), perm)),
            ("cross_transitivity", single(net.transitivity)),
            ("cross_global_clustering", single(net.global_clustering)),
            ("nsi_internal_local_clustering", take(single(net.nsi_local_clustering), perm)),
            ("nsi_cross_transitivity", single(net.nsi_transitivity)),
            ("nsi_cross_global_clustering", single(net.nsi_global_clustering)),
        ]
    if not c.directed:
        from pyunicorn.core import Network as _Net
        # round 4: the betweenness delegates against Network's own defaults (every node a source
        # and a target) and against igraph's betweenness (each unordered pair counted twice)
        pairs += [
            ("cross_betweenness", single(lambda: _Net.interregional_betweenness(net))),
            ("internal_betweenness", single(lambda: _Net.interregional_betweenness(net))),
            ("internal_betweenness", scale(single(net.betweenness), 2)),
            ("nsi_cross_betweenness", single(net.nsi_betweenness)),
        ]
    whole_network_r4(ctx, c, perm, t)
    for nm, ref in pairs:
        got = call(t[nm])
        ctx.count("relation:whole-network")
        if isinstance(ref, str) and (ref.startswith("raise:") or ref == "nan"):
            continue   # the single-network measure fails / is undefined: not C11's subject
        if not isinstance(ref, str) and any(
                isinstance(x, float) and math.isnan(x) for r in ref for x in r):
            continue
        if not impl_close(got, ref):
            extra = {}
            if nm == "nsi_cross_average_path_length":
                extra["input_class"] = classify_nsi_apl(c, perm, perm)
            ctx.fail(sig(nm, "whole-network-limit", c, extra),
                     f"{nm} with both groups = all nodes (order {perm}) differs from the "
                     f"single-network measure",
                     replay_of(c, perm, perm, method=nm, single_network=str(ref)[:300],
                               observed=str(got)[:300]))


def whole_network_r4(ctx, c, perm, t):
    """round 4: whole-network relations of the closeness / efficiency / n.s.i. closeness measures
    under their own conventions (theorems whole_cross_closeness, whole_closeness_rows,
    singleton_cross_closeness, whole_efficiency_degenerate, whole_global_efficiency_as_mean_local,
    whole_nsi_closeness_row, whole_nsi_closeness_disconnected), on the implementation's outputs"""
    from pyunicorn.core import Network
    net, n = c.net, c.n
    haslinks = any(any(r) for r in c.A)

    def flat(v):
        return None if isinstance(v, str) else [float(x) for r in v for x in r]

    def close(a, b):
        return (math.isnan(a) and math.isnan(b)) or a == b or \
            abs(a - b) <= TOL * max(2.0 ** -40, abs(a), abs(b))

    def bad(nm, rel, what, **kw):
        ctx.fail(sig(nm, rel, c), what, replay_of(c, perm, perm, method=nm, **kw))

    for attr, D in ((None, c.Du), ("la", c.Dw)):
        if attr and not haslinks:
            continue
        ta = impl_table(net, perm, perm, attr)
        cc, ic = flat(call(ta["cross_closeness"])), flat(call(ta["internal_closeness"]))
        ctx.count("relation:whole-network-r4")
        if cc is None or ic is None or not all(
                close(x * (n - 1), y * n) for x, y in zip(cc, ic)):
            bad("cross_closeness", "whole-network-cross-vs-internal",
                f"(N-1)*cross_closeness(L, L) != N*internal_closeness(L) for L = {perm} "
                f"(link_attribute={attr})", cross=str(cc), internal=str(ic))
        # local / global efficiency: the degenerate limit (zero diagonal)
        le, ge = flat(call(ta["local_efficiency"])), call(ta["global_efficiency"])
        ctx.count("relation:whole-network-r4")
        if le is None or not all(math.isinf(x) and x > 0 for x in le) or flat(ge) != [0.0]:
            bad("global_efficiency", "whole-network-degenerate-limit",
                f"local_efficiency(L, L) is not all inf / global_efficiency(L, L) is not 0 for "
                f"L = {perm} (link_attribute={attr})", local=str(le), observed=str(ge))
        if n < 2:
            continue
        # a node against the rest of the network
        rows = []
        for i in range(n):
            rest = [j for j in range(n) if j != i]
            if ctx.rng.random() < 0.5:
                ctx.rng.shuffle(rest)
            rows.append((flat(call(lambda: net.cross_closeness([i], rest, attr))),
                         flat(call(lambda: net.local_efficiency([i], rest, attr)))))
        ic0 = flat(call(lambda: net.internal_closeness(list(range(n)), attr)))
        ctx.count("relation:node-vs-rest", n)
        for i in range(n):
            if rows[i][0] is None or ic0 is None or not close(rows[i][0][0], ic0[i]):
                bad("cross_closeness", "node-vs-rest-equals-whole-network-closeness",
                    f"cross_closeness([{i}], all other nodes) differs from "
                    f"internal_closeness(all nodes)[{i}] (link_attribute={attr})",
                    node=i, observed=str(rows[i][0]), expected=str(ic0))
        ge_net = flat(call(lambda: Network.global_efficiency(net, attr)))
        les = [r[1] for r in rows]
        if ge_net is None or any(x is None for x in les) or not close(
                ge_net[0], sum(x[0] for x in les) / n):
            bad("local_efficiency", "mean-over-nodes-vs-rest-equals-network-global-efficiency",
                f"Network.global_efficiency(link_attribute={attr}) differs from the mean over all "
                f"nodes i of local_efficiency([i], all other nodes)", network=str(ge_net),
                local=str(les))
        if attr:
            # Network.closeness (weighted branch: unreachable = N) vs internal_closeness
            # (unreachable = N - 1): equal on complete rows, strictly smaller otherwise
            cw = flat(call(lambda: net.closeness(attr)))
            for i in range(n):
                complete = all(D[i][j] is not None for j in range(n))
                ok = cw is not None and ic0 is not None and (
                    close(cw[i], ic0[i]) if complete else cw[i] < ic0[i])
                ctx.count("relation:closeness-row-" + ("complete" if complete else "incomplete"))
                if not ok:
                    bad("internal_closeness", "whole-network-limit-rowwise",
                        f"internal_closeness(all nodes, {attr})[{i}] vs Network.closeness({attr})"
                        f"[{i}]: expected {'equal' if complete else 'strictly larger'}",
                        node=i, network=str(cw), observed=str(ic0))
    # n.s.i. closeness, row-wise, directed networks included
    nc = flat(call(t["nsi_cross_closeness_centrality"]))
    nn = flat(call(net.nsi_closeness))
    if n >= 2:
        for pos, i in enumerate(perm):
            complete = all(c.Du[i][j] is not None for j in range(n))
            ok = nc is not None and nn is not None and (
                close(nc[pos], nn[i]) if complete else (nn[i] == 0.0 and nc[pos] > 0.0))
            ctx.count("relation:nsi-closeness-row-" + ("complete" if complete else "incomplete"))
            if not ok:
                bad("nsi_cross_closeness_centrality", "whole-network-limit-rowwise",
                    f"nsi_cross_closeness_centrality(L, L)[{pos}] vs Network.nsi_closeness()[{i}]: "
                    f"expected {'equal' if complete else '0 in Network, positive in the cross measure'}",
                    node=i, network=str(nn), observed=str(nc))


# --------------------------------------------------------------------------
# twins: same network from caller data in another representation / rescaled by powers of two
# --------------------------------------------------------------------------

NODE_DTYPES = [np.int64, np.int32, np.int16, np.uint8, np.intp]

# how a measure scales when all node weights are multiplied by s (power of two): exponent
NSI_SCALE = {"nsi_cross_degree": 1, "nsi_internal_degree": 1, "nsi_cross_mean_degree": 1,
             "nsi_cross_edge_density": 0, "nsi_cross_local_clustering": 0,
             "nsi_internal_local_clustering": 0, "nsi_cross_global_clustering": 0,
             "nsi_cross_transitivity": 0, "nsi_cross_closeness_centrality": 0,
             "nsi_internal_closeness_centrality": 0}
# ... and when the link attribute is multiplied by s
ATTR_SCALE = {"cross_link_attribute": 1, "internal_link_attribute": 1, "cross_strength": 1,
              "cross_instrength": 1, "cross_outstrength": 1, "internal_strength": 1,
              "internal_instrength": 1, "internal_outstrength": 1}
PATH_SCALE = {"cross_path_lengths": 1, "internal_path_lengths": 1, "cross_average_path_length": 1,
              "internal_average_path_length": 1, "local_efficiency": -1, "global_efficiency": 1}


def scaled(v, f):
    if isinstance(v, str):
        return v
    return [[x * f for x in r] for r in v]


def exact_equal(a, b):
    if isinstance(a, str) or isinstance(b, str):
        return a == b
    fa = [x for r in a for x in r]
    fb = [x for r in b for x in r]
    return len(a) == len(b) and len(fa) == len(fb) and all(
        (isinstance(x, float) and isinstance(y, float) and math.isnan(x) and math.isnan(y))
        or x == y for x, y in zip(fa, fb))


def twin_checks(ctx, cases, impl_results, IN, quick):
    rng = ctx.rng
    frac = 0.06 if quick else 0.25
    for (c, L1, L2), (res, _) in zip(cases, impl_results):
        if rng.random() > frac:
            continue
        # ---- (a) other dtype / layout of the caller's arrays, node lists as arrays ----------
        form = rng.choice(ADJ_FORMS[1:])
        dt = rng.choice(NODE_DTYPES)
        twin = build_net(IN, c, rng, form)
        a1, a2 = np.array(L1, dtype=dt), np.array(L2, dtype=dt)
        keep1, keep2 = a1.copy(), a2.copy()
        t = impl_table(twin, a1, a2, None)
        ctx.count("twin:caller-representation:" + form)
        for nm, f in t.items():
            got = call(f)
            ctx.count("relation:twin-representation")
            if not exact_equal(res[nm], got):
                ctx.fail(sig(nm, "independent-of-caller-array-representation", c,
                             {"adjacency_form": form}),
                         f"{nm}({L1}, {L2}) changes when the same network is constructed from "
                         f"{form} data and the node lists are {np.dtype(dt).name} arrays",
                         replay_of(c, L1, L2, method=nm, adjacency_form=form,
                                   node_list_dtype=np.dtype(dt).name, original=str(res[nm])[:300],
                                   twin=str(got)[:300]))
        if not (np.array_equal(a1, keep1) and np.array_equal(a2, keep2)):
            ctx.fail(sig("*", "caller-node-lists-unchanged", c),
                     "a node-list array passed by the caller was modified",
                     replay_of(c, L1, L2))
        # ---- (b) node weights and link attribute rescaled by (extreme) powers of two --------
        kw = rng.choice([-40, -17, -3, 5, 23, 40])
        ka = rng.choice([-30, -9, 4, 30])
        tw = Case()
        for k in ("n", "directed", "A", "Du", "tag"):
            setattr(tw, k, getattr(c, k))
        tw.wide = True
        tw.w = [x * Fr(2) ** kw for x in c.w]
        tw.la = [[x * Fr(2) ** ka for x in r] for r in c.la]
        tw.Dw = None
        net2 = build_net(IN, tw, rng, "plain")
        t2 = impl_table(net2, L1, L2, None)
        reach = all(c.Du[a][b] is not None for a in L1 for b in L2)
        checks = [(nm, 2.0 ** (kw * e), t2[nm], res[nm]) for nm, e in NSI_SCALE.items()]
        checks += [(nm, 2.0 ** (ka * e), t2[nm], res[nm]) for nm, e in ATTR_SCALE.items()]
        if reach:
            checks.append(("nsi_cross_average_path_length", 1.0,
                           t2["nsi_cross_average_path_length"],
                           res["nsi_cross_average_path_length"]))
        if any(any(r) for r in c.A):
            t1w = impl_table(c.net, L1, L2, "la")
            t2w = impl_table(net2, L1, L2, "la")
            for nm, e in PATH_SCALE.items():
                checks.append((nm + "[la]", 2.0 ** (ka * e), t2w[nm], call(t1w[nm])))
        ctx.count("twin:power-of-two-rescaling")
        for nm, f, thunk, orig in checks:
            if c.directed and nm in CLUSTERING:
                continue
            got = call(thunk)
            ctx.count("relation:twin-rescaled")
            if not exact_equal(scaled(orig, f), got):
                ctx.fail(sig(nm, "equivariant-under-power-of-two-rescaling", c),
                         f"{nm}({L1}, {L2}) does not scale exactly when the node weights are "
                         f"multiplied by 2^{kw} and the link attribute by 2^{ka}",
                         replay_of(c, L1, L2, method=nm, weight_exponent=kw, attribute_exponent=ka,
                                   original=str(orig)[:300], rescaled=str(got)[:300]))


# --------------------------------------------------------------------------
# results handed to the caller are the caller's: writing into them must not change the network
# --------------------------------------------------------------------------

BLOCK_GETTERS = ["cross_adjacency", "cross_adjacency_sparse", "internal_adjacency",
                 "cross_link_attribute", "internal_link_attribute", "cross_path_lengths",
                 "internal_path_lengths", "cross_degree", "nsi_cross_degree", "cross_closeness"]


def alias_checks(ctx, cases, quick, ndisjoint):
    rng = ctx.rng
    for ci, (c, L1, L2) in enumerate(cases):
        # (the cases with both groups = all nodes are the ones where a sub-block could be the
        #  library's own matrix)
        if ci < ndisjoint and rng.random() > (0.05 if quick else 0.2):
            continue
        attr = "la" if (rng.random() < 0.5 and any(any(r) for r in c.A)) else None
        t = impl_table(c.net, L1, L2, attr)
        for nm in BLOCK_GETTERS:
            try:
                with warnings.catch_warnings():
                    warnings.simplefilter("ignore")
                    first = t[nm]()
            except Exception:  # noqa
                continue
            if not isinstance(first, np.ndarray) or not first.size or not first.flags.writeable:
                continue
            keep = canon_impl(first.copy())
            first[...] = 7
            again = call(t[nm])
            ctx.count("relation:returned-array-not-aliased")
            if not exact_equal(keep, again):
                ctx.fail(sig(nm, "returned-array-not-aliased", c, {"link_attribute": bool(attr)}),
                         f"writing into the array returned by {nm}({L1}, {L2}) changes the result "
                         f"of the next call",
                         replay_of(c, L1, L2, method=nm, before=str(keep)[:300],
                                   after=str(again)[:300]))


def frame_checks(ctx, nets):
    """after the whole history of calls on one object the data held by the library are intact"""
    for c in nets:
        net = c.net
        items = [("adjacency", lambda: np.asarray(net.adjacency), c.A),
                 ("node_weights", lambda: np.asarray(net.node_weights), [c.w]),
                 ("link_attribute", lambda: np.asarray(net.link_attribute("la")), c.la),
                 ("path_lengths()", lambda: net.path_lengths(), c.Du)]
        if any(any(r) for r in c.A):
            items.append(("path_lengths('la')", lambda: net.path_lengths("la"), c.Dw))
        for what, f, exp in items:
            got = call(f)
            ctx.count("relation:library-state-intact")
            if not same(got, shape_exact(exp)):
                ctx.fail({"class": "InteractingNetworks", "method": "<history of cross_/internal_ "
                          "calls>", "relation": "library-state-intact", "state": what,
                          "directed": bool(c.directed)},
                         f"{what} held by the network object differs from the constructor's data "
                         f"after a history of cross_/internal_/nsi_ calls",
                         {"directed": c.directed, "adjacency": c.A,
                          "node_weights": [str(x) for x in c.w], "state": what,
                          "expected": str(exp)[:300], "observed": str(got)[:300]})


# --------------------------------------------------------------------------
# betweenness (delegates to Network.interregional_betweenness): oracle only
# --------------------------------------------------------------------------

def path_counts(n, A, D):
    """sigma[s][t] = number of shortest paths s -> t"""
    sig = [[0] * n for _ in range(n)]
    order = {}
    for s in range(n):
        order[s] = sorted((t for t in range(n) if D[s][t] is not None), key=lambda t: D[s][t])
        sig[s][s] = 1
        for t in order[s]:
            if t == s:
                continue
            sig[s][t] = sum(sig[s][u] for u in range(n)
                            if A[u][t] and D[s][u] is not None and D[s][u] + 1 == D[s][t])
    return sig


def oracle_betweenness(c, L1, L2):
    n, D = c.n, c.Du
    sig = path_counts(n, c.A, D)
    out = [Fr(0)] * n
    for s in L1:
        for t in L2:
            if s == t or D[s][t] is None:
                continue
            for i in range(n):
                if i in (s, t) or D[s][i] is None or D[i][t] is None:
                    continue
                if D[s][i] + D[i][t] == D[s][t]:
                    out[i] += Fr(sig[s][i] * sig[i][t], sig[s][t])
    return out


def betweenness_checks(ctx, cases, quick):
    rng = ctx.rng
    for c, L1, L2 in cases:
        if c.directed or rng.random() > (0.25 if quick else 0.6):
            continue
        for nm, args, exp in (
                ("cross_betweenness", (L1, L2), oracle_betweenness(c, L1, L2)),
                ("internal_betweenness", (L1,), oracle_betweenness(c, L1, L1))):
            got = call(lambda: getattr(c.net, nm)(*args))
            ctx.count("oracle:betweenness")
            if not same(got, [exp]):
                ctx.fail(sig(nm, "definition-on-sub-blocks", c),
                         f"{nm}{args} differs from the count of shortest paths between the "
                         f"groups",
                         replay_of(c, L1, L2, method=nm, expected=str(exp), observed=str(got)))


# --------------------------------------------------------------------------
# CoupledClimateNetwork wrappers: layers = (0..N1-1), (N1..N-1)
# --------------------------------------------------------------------------

CCN_PAIR = {"number_internal_links", "internal_link_density", "internal_global_clustering",
            "cross_global_clustering", "cross_transitivity", "internal_average_path_length",
            "internal_average_path_length(la)", "cross_degree", "internal_degree",
            "cross_local_clustering", "cross_closeness", "cross_closeness(la)",
            "internal_closeness", "internal_closeness(la)", "cross_betweenness",
            "internal_betweenness_1", "internal_betweenness_2"}
CCN_LA = {"path_lengths_1(la)", "path_lengths_2(la)", "cross_path_lengths(la)",
          "cross_average_path_length(la)", "internal_average_path_length(la)",
          "cross_closeness(la)", "internal_closeness(la)"}
CCN_F32 = {"cross_average_link_distance", "cross_average_link_distance(reverse)"}


def ccn_impl_results(ccn, has_links):
    """every public layer wrapper of a CoupledClimateNetwork, canonicalised (round 5: the
    implementation side of the correspondence with the Lean model `Pyunicorn.CrossCCN`)"""
    def q(thunk):
        try:
            with warnings.catch_warnings():
                warnings.simplefilter("ignore")
                with np.errstate(all="ignore"):
                    with contextlib.redirect_stdout(io.StringIO()):
                        v = thunk()
        except Exception as e:  # noqa
            return "raise:" + type(e).__name__
        if isinstance(v, tuple):
            return tuple(canon_impl(x) for x in v)
        return canon_impl(v)
    r = {
        "nodes_1": q(lambda: np.array(ccn.nodes_1, dtype=np.int64)),
        "nodes_2": q(lambda: np.array(ccn.nodes_2, dtype=np.int64)),
        "adjacency_1": q(ccn.adjacency_1), "adjacency_2": q(ccn.adjacency_2),
        "cross_layer_adjacency": q(ccn.cross_layer_adjacency),
        "similarity_measure_1": q(ccn.similarity_measure_1),
        "similarity_measure_2": q(ccn.similarity_measure_2),
        "cross_similarity_measure": q(ccn.cross_similarity_measure),
        "path_lengths_1": q(ccn.path_lengths_1), "path_lengths_2": q(ccn.path_lengths_2),
        "cross_path_lengths": q(ccn.cross_path_lengths),
        "cross_link_distance": q(ccn.cross_link_distance),
        "cross_average_link_distance": q(ccn.cross_average_link_distance),
        "cross_average_link_distance(reverse)":
            q(lambda: ccn.cross_average_link_distance(reverse=True)),
        "number_cross_layer_links": q(ccn.number_cross_layer_links),
        "number_internal_links": q(ccn.number_internal_links),
        "cross_link_density": q(ccn.cross_link_density),
        "internal_link_density": q(ccn.internal_link_density),
        "internal_global_clustering": q(ccn.internal_global_clustering),
        "cross_global_clustering": q(ccn.cross_global_clustering),
        "cross_transitivity": q(ccn.cross_transitivity),
        "cross_average_path_length": q(ccn.cross_average_path_length),
        "internal_average_path_length": q(ccn.internal_average_path_length),
        "cross_degree": q(ccn.cross_degree), "internal_degree": q(ccn.internal_degree),
        "cross_local_clustering": q(ccn.cross_local_clustering),
        "cross_closeness": q(ccn.cross_closeness),
        "internal_closeness": q(ccn.internal_closeness),
        "cross_betweenness": q(ccn.cross_betweenness),
        "internal_betweenness_1": q(ccn.internal_betweenness_1),
        "internal_betweenness_2": q(ccn.internal_betweenness_2)}
    if has_links:
        r.update({
            "path_lengths_1(la)": q(lambda: ccn.path_lengths_1("la")),
            "path_lengths_2(la)": q(lambda: ccn.path_lengths_2("la")),
            "cross_path_lengths(la)": q(lambda: ccn.cross_path_lengths("la")),
            "cross_average_path_length(la)": q(lambda: ccn.cross_average_path_length("la")),
            "internal_average_path_length(la)":
                q(lambda: ccn.internal_average_path_length("la")),
            "cross_closeness(la)": q(lambda: ccn.cross_closeness("la")),
            "internal_closeness(la)": q(lambda: ccn.internal_closeness("la"))})
    return r


def same_f32(impl, exact):
    """entries computed by the library in float32 (sums of angular distances): relative 1e-5"""
    if isinstance(impl, str) or isinstance(exact, str):
        return impl == exact
    if len(impl) != len(exact):
        return False
    for ri, re_ in zip(impl, exact):
        if len(ri) != len(re_):
            return False
        for x, qv in zip(ri, re_):
            if qv == "nan":
                if not (isinstance(x, float) and math.isnan(x)):
                    return False
            elif not (isinstance(x, float) and
                      abs(x - float(qv)) <= 1e-5 * max(2.0 ** -40, abs(float(qv)))):
                return False
    return True


def ccn_same(nm, impl, model):
    """canonical implementation result of wrapper `nm` against the model's answer string"""
    cmp_ = same_f32 if nm in CCN_F32 else same
    if nm in CCN_PAIR:
        if model.startswith("raise:") or isinstance(impl, str):
            return impl == model
        parts = model.split("&")
        return isinstance(impl, tuple) and len(impl) == 2 and len(parts) == 2 and all(
            cmp_(i_, parse_model(m_)) for i_, m_ in zip(impl, parts))
    if isinstance(impl, tuple):
        return False
    pm = parse_model(model)
    if nm in CCN_F32 and model == "nan":
        pm = [["nan"]]        # a one-node layer without cross link: the vector [nan]
    if nm in ("nodes_1", "nodes_2") and pm == [] and impl == [[]]:
        return True
    return cmp_(impl, pm)


def ccn_correspondence(ctx, todo):
    """round 5: the Lean model `Pyunicorn.CrossCCN` of every layer wrapper of
    CoupledClimateNetwork (request `ccn`) against the wrappers of the very objects the oracle's
    wrapper histories ran on"""
    if not todo:
        return
    model = common.driver(ctx.pid, [t[0] for t in todo])
    bad, ncmp = [], 0
    for (req, res, meta), ans in zip(todo, model):
        got = dict(kv.split("=", 1) for kv in ans.split("|")) if "=" in ans else {}
        for nm, iv in res.items():
            if "directed=True" in meta and nm == "internal_global_clustering":
                continue   # Network.local_clustering of a directed network: not C03's model
            ncmp += 1
            if nm not in got or not ccn_same(nm, iv, got[nm]):
                bad.append((nm, meta, got.get(nm, ans)[:160], str(iv)[:160]))
    ctx.count("ccn:wrapper-results-compared-with-model", ncmp)
    ctx.extra["ccn_wrapper_results_compared"] = ncmp
    ctx.obligation(f"correspondence: Lean model CrossCCN (nodes_1 / nodes_2, slices, every layer "
                   f"wrapper incl. link_attribute and reverse arguments) == CoupledClimateNetwork "
                   f"({ncmp} results on {len(todo)} coupled networks, directed ones included)",
                   "correspondence", not bad,
                   "\n".join(f"{nm} {meta} :: model={mv} impl={iv}" for nm, meta, mv, iv in bad[:6]))


def ccn_checks(ctx, quick):
    from pyunicorn.climate import CoupledClimateNetwork
    from pyunicorn.core import GeoGrid
    rng = ctx.rng
    todo = []
    kinds = ["random"] * (7 if quick else 48) + ["no-cross-links", "empty", "complete",
                                                 "one-cross-link", "layer-2-isolated"]
    if not quick:
        kinds += ["no-cross-links", "one-cross-link", "layer-2-isolated"] * 3
    for kind in kinds:
        N1 = rng.randrange(1, 7)
        N2 = rng.randrange(1, 7)
        n = N1 + N2
        if n < 3:
            N2 += 1
            n += 1
        directed = kind == "random" and rng.random() < 0.3
        t = np.arange(4.0)
        g1 = GeoGrid(t, np.array([10.0 * k for k in range(N1)]),
                     np.array([5.0 * k for k in range(N1)]), silence_level=3)
        g2 = GeoGrid(t, np.array([-40.0 + 7.0 * k for k in range(N2)]),
                     np.array([100.0 + 3.0 * k for k in range(N2)]), silence_level=3)
        p = rng.choice([0.15, 0.3, 0.5, 0.8])
        nb = n * (n - 1) if directed else n * (n - 1) // 2
        bits = [rng.random() < p for _ in range(nb)]
        A = graph_from_bits(n, bits, directed)
        lay = lambda a: 0 if a < N1 else 1   # noqa
        if kind == "empty":
            A = [[0] * n for _ in range(n)]
        elif kind == "complete":
            A = [[int(a != b) for b in range(n)] for a in range(n)]
        elif kind in ("no-cross-links", "one-cross-link"):
            A = [[A[a][b] if lay(a) == lay(b) else 0 for b in range(n)] for a in range(n)]
            if kind == "one-cross-link":
                a, b = rng.randrange(N1), rng.randrange(N1, n)
                A[a][b] = A[b][a] = 1
        elif kind == "layer-2-isolated":
            A = [[A[a][b] if (lay(a) == 0 and lay(b) == 0) else 0 for b in range(n)]
                 for a in range(n)]
        ctx.count("ccn:kind:" + kind + ("-directed" if directed else ""))
        ctx.count(f"ccn:layers:{'N1<N2' if N1 < N2 else 'N1=N2' if N1 == N2 else 'N1>N2'}")
        # dyadic similarities (exact in float32), away from the threshold 1/2
        S = np.zeros((n, n))
        for a in range(n):
            for b in range(n):
                if a == b:
                    S[a, b] = 1.0
                elif directed or b < a:
                    S[a, b] = rng.choice([0.625, 0.75, 0.875] if A[a][b]
                                         else [0.125, 0.25, 0.375])
                    if not directed:
                        S[b, a] = S[a, b]
        try:
            ccn = CoupledClimateNetwork(g1, g2, S, threshold=0.5, directed=directed,
                                        silence_level=3)
        except Exception as e:  # noqa
            ctx.count("ccn:constructor-raises:" + type(e).__name__)
            continue
        ccn.silence_level = 3
        Aimpl = [[int(x) for x in r] for r in np.asarray(ccn.adjacency).tolist()]
        if Aimpl != A:
            ctx.count("ccn:adjacency-differs-from-thresholded-similarity")
            A = Aimpl
        c = Case()
        c.n, c.directed, c.A, c.tag = n, directed, A, "ccn"
        c.w = [Fr(1)] * n
        c.la = [[Fr(0)] * n for _ in range(n)]
        c.Du = floyd(n, [[Fr(1) if A[a][b] else None for b in range(n)] for a in range(n)])
        c.Dw, c.net = c.Du, ccn
        L1, L2 = list(range(N1)), list(range(N1, n))
        ctx.case(("ccn", A, N1, directed), any(any(r) for r in A),
                 {"class": "CoupledClimateNetwork", "adjacency": A, "N_1": N1,
                  "directed": directed})
        ctx.count("ccn:networks")

        # a dyadic link attribute for the wrappers' non-default `link_attribute` argument
        la = [[Fr(0)] * n for _ in range(n)]
        for a in range(n):
            for b in range(n):
                if A[a][b] and (directed or b < a):
                    la[a][b] = Fr(rng.randrange(1, 13), 4)
                    if not directed:
                        la[b][a] = la[a][b]
        c.la = la
        has_links = any(any(r) for r in A)
        if has_links:
            ccn.set_link_attribute("la", np.array([[float(x) for x in r] for r in la]))
            c.Dw = floyd(n, [[la[a][b] if A[a][b] else None for b in range(n)]
                             for a in range(n)])
        o = Oracle(n, directed, A, c.w, c.la, c.Du, c.Dw)
        held1, held2 = list(ccn.nodes_1), list(ccn.nodes_2)

        def both(name, *extra):
            return (getattr(o, name)(L1, L2, *extra), getattr(o, name)(L2, L1, *extra))

        def pair(v):
            return v if isinstance(v, str) else tuple(v)

        def split(v):
            return ([v[i] for i in L1], [v[i] for i in L2])

        # independent great-circle angular distance between the grid points of the two layers
        lat = np.radians(np.concatenate([g1.grid()["lat"], g2.grid()["lat"]]).astype(float))
        lon = np.radians(np.concatenate([g1.grid()["lon"], g2.grid()["lon"]]).astype(float))
        cosd = (np.sin(lat)[:, None] * np.sin(lat)[None, :]
                + np.cos(lat)[:, None] * np.cos(lat)[None, :]
                * np.cos(lon[:, None] - lon[None, :]))
        ang = np.arccos(np.clip(cosd, -1.0, 1.0))
        Anp = np.array(A, dtype=float)
        with np.errstate(all="ignore"):
            cald = [(Anp[:N1, N1:] * ang[:N1, N1:]).sum(axis=ax) / Anp[:N1, N1:].sum(axis=ax)
                    for ax in (1, 0)]
        Sfull = np.array(ccn.similarity_measure(), dtype=float)
        table = [
            ("adjacency_1", ccn.adjacency_1, o.internal_adjacency(L1, L2)),
            ("adjacency_2", ccn.adjacency_2, o.internal_adjacency(L2, L1)),
        ]
        # (a GeoNetwork on a single node cannot be constructed: Network.__init__ divides by
        #  N (N - 1); not C11's subject)
        if N1 > 1:
            table.append(("network_1.adjacency", lambda: ccn.network_1().adjacency,
                          o.internal_adjacency(L1, L2)))
        if N2 > 1:
            table.append(("network_2.adjacency", lambda: ccn.network_2().adjacency,
                          o.internal_adjacency(L2, L1)))
        table += [
            ("cross_layer_adjacency", ccn.cross_layer_adjacency, o.cross_adjacency(L1, L2)),
            ("similarity_measure_1", ccn.similarity_measure_1, ("np", S[:N1, :N1], 0.0)),
            ("similarity_measure_2", ccn.similarity_measure_2, ("np", S[N1:, N1:], 0.0)),
            ("cross_similarity_measure", ccn.cross_similarity_measure, ("np", S[:N1, N1:], 0.0)),
            ("cross_link_distance", ccn.cross_link_distance, ("np", ang[:N1, N1:], 5e-6)),
            ("cross_average_link_distance", ccn.cross_average_link_distance,
             ("np", cald[0], 5e-6)),
            ("cross_average_link_distance(reverse=True)",
             lambda: ccn.cross_average_link_distance(reverse=True), ("np", cald[1], 5e-6)),
            ("path_lengths_1", ccn.path_lengths_1, o.internal_path_lengths(L1, L2)),
            ("path_lengths_2", ccn.path_lengths_2, o.internal_path_lengths(L2, L1)),
            ("cross_path_lengths", ccn.cross_path_lengths, o.cross_path_lengths(L1, L2)),
            ("number_cross_layer_links", ccn.number_cross_layer_links,
             o.number_cross_links(L1, L2)),
            ("number_internal_links", ccn.number_internal_links, both("number_internal_links")),
            ("cross_link_density", ccn.cross_link_density, o.cross_link_density(L1, L2)),
            ("internal_link_density", ccn.internal_link_density, both("internal_link_density")),
            ("internal_global_clustering", ccn.internal_global_clustering,
             both("internal_global_clustering")),
            ("cross_global_clustering", ccn.cross_global_clustering,
             both("cross_global_clustering")),
            ("cross_transitivity", ccn.cross_transitivity, both("cross_transitivity")),
            ("cross_average_path_length", ccn.cross_average_path_length,
             o.cross_average_path_length(L1, L2)),
            ("internal_average_path_length", ccn.internal_average_path_length,
             both("internal_average_path_length")),
            ("cross_degree", ccn.cross_degree, both("cross_degree")),
            ("internal_degree", ccn.internal_degree, both("internal_degree")),
            ("cross_local_clustering", ccn.cross_local_clustering,
             both("cross_local_clustering")),
            ("cross_closeness", ccn.cross_closeness, both("cross_closeness")),
            ("internal_closeness", ccn.internal_closeness, both("internal_closeness")),
            ("cross_betweenness", ccn.cross_betweenness, split(oracle_betweenness(c, L1, L2))),
            ("internal_betweenness_1", ccn.internal_betweenness_1,
             split(oracle_betweenness(c, L1, L1))),
            ("internal_betweenness_2", ccn.internal_betweenness_2,
             split(oracle_betweenness(c, L2, L2))),
        ]
        if has_links:
            D = c.Dw
            table += [
                ("path_lengths_1(la)", lambda: ccn.path_lengths_1("la"),
                 o.internal_path_lengths(L1, L2, D)),
                ("path_lengths_2(la)", lambda: ccn.path_lengths_2(link_attribute="la"),
                 o.internal_path_lengths(L2, L1, D)),
                ("cross_path_lengths(la)", lambda: ccn.cross_path_lengths("la"),
                 o.cross_path_lengths(L1, L2, D)),
                ("cross_average_path_length(la)", lambda: ccn.cross_average_path_length("la"),
                 o.cross_average_path_length(L1, L2, D)),
                ("internal_average_path_length(la)",
                 lambda: ccn.internal_average_path_length("la"),
                 both("internal_average_path_length", D)),
                ("cross_closeness(la)", lambda: ccn.cross_closeness("la"),
                 both("cross_closeness", D)),
                ("internal_closeness(la)", lambda: ccn.internal_closeness(link_attribute="la"),
                 both("internal_closeness", D)),
            ]
        if directed:
            # triangle-based measures have no documented directed definition; the betweenness
            # delegates raise AssertionError there (model-implementation correspondence below)
            table = [t_ for t_ in table if not any(k in t_[0] for k in (
                "clustering", "transitivity", "betweenness"))]
        rng.shuffle(table)
        for nm, f, exp in table:
            ctx.count("ccn:wrapper-calls")
            try:
                with warnings.catch_warnings():
                    warnings.simplefilter("ignore")
                    with np.errstate(all="ignore"):
                        with contextlib.redirect_stdout(io.StringIO()):
                            got = f()
            except Exception as e:  # noqa
                got = "raise:" + type(e).__name__
            if isinstance(exp, tuple) and len(exp) == 3 and isinstance(exp[0], str) \
                    and exp[0] == "np":
                ref, tol = np.asarray(exp[1], dtype=float), exp[2]
                g = None if isinstance(got, str) else np.asarray(got, dtype=float)
                ok = g is not None and g.shape == ref.shape and bool(np.all(
                    (np.isnan(g) & np.isnan(ref)) | (np.abs(g - ref) <= tol)))
                exp = ref.tolist()
            elif isinstance(exp, tuple):
                ok = (isinstance(got, tuple) and len(got) == 2 and all(
                    (isinstance(e_, str) and e_.startswith("raise:")) or
                    same(canon_impl(g_), shape_exact(e_)) for g_, e_ in zip(got, exp))) or \
                    (isinstance(got, str) and got in [e_ for e_ in exp if isinstance(e_, str)])
            else:
                ok = same(canon_impl(got), shape_exact(exp))
            if not ok:
                ctx.fail({"class": "CoupledClimateNetwork", "method": nm,
                          "relation": "wrapper-vs-definition-on-layers"},
                         f"CoupledClimateNetwork.{nm}() differs from the definition on the "
                         f"layer blocks (N_1={N1}, N_2={N2})",
                         {"adjacency": A, "N_1": N1, "N_2": N2, "method": nm,
                          "expected": str(exp)[:400], "observed": str(got)[:400]})
        ctx.count("relation:library-state-intact")
        if list(ccn.nodes_1) != held1 or list(ccn.nodes_2) != held2 or \
                [[int(x) for x in r] for r in np.asarray(ccn.adjacency).tolist()] != A:
            ctx.fail({"class": "CoupledClimateNetwork", "method": "<history of wrapper calls>",
                      "relation": "library-state-intact"},
                     "nodes_1 / nodes_2 / adjacency held by the CoupledClimateNetwork changed "
                     "during a history of wrapper calls",
                     {"adjacency": A, "N_1": N1, "N_2": N2})
        # round 5, implementation only (theorems ccn_degree, ccn_n_links,
        # ccn_cross_degree_handshake): Network.degree() = internal_degree() + cross_degree()
        # layer by layer; n_links = links within the layers + links between them
        def quiet(f):
            with contextlib.redirect_stdout(io.StringIO()):
                return call(f)
        ctx.count("relation:ccn-layer-decomposition")
        try:
            idg, cdg = ccn.internal_degree(), ccn.cross_degree()
            whole = [int(x) for x in np.asarray(ccn.degree()).tolist()]
            parts = [int(x) + int(y) for x, y in zip(idg[0], cdg[0])] + \
                [int(x) + int(y) for x, y in zip(idg[1], cdg[1])]
            okd = whole == parts
            if directed:
                okl = True
            else:
                nil = ccn.number_internal_links()
                ncl = int(ccn.number_cross_layer_links())
                okl = int(ccn.n_links) == int(nil[0]) + int(nil[1]) + ncl and \
                    int(np.sum(cdg[0])) == ncl == int(np.sum(cdg[1]))
        except Exception as e:  # noqa
            okd, okl, whole, parts = False, False, "raise:" + type(e).__name__, None
        if not (okd and okl):
            ctx.fail({"class": "CoupledClimateNetwork", "method": "degree / n_links",
                      "relation": "layer-decomposition"},
                     "Network.degree() / n_links of a CoupledClimateNetwork is not the sum of the "
                     "internal and cross quantities of its two layers",
                     {"adjacency": A, "N_1": N1, "N_2": N2, "directed": directed,
                      "degree": str(whole), "internal+cross": str(parts)})
        # round 5: the same object once more, now against the Lean model of the wrappers
        G = np.asarray(ccn.distance(), dtype=float)
        Sfull32 = np.asarray(ccn.similarity_measure(), dtype=float)
        req = " ".join(["ccn", "1" if directed else "0", str(N1), str(n), enc_mat(A),
                        enc_mat(c.Du), enc_mat(c.Dw),
                        enc_mat([[Fr(float(x)) for x in r] for r in G.tolist()]),
                        enc_mat([[Fr(float(x)) for x in r] for r in Sfull32.tolist()])])
        todo.append((req, ccn_impl_results(ccn, has_links),
                     f"N_1={N1} N_2={N2} directed={directed} A={enc_mat(A)}"))
    # round 5: objects of the subclass CoupledTsonisClimateNetwork (constructed from two ClimateData
    # sets through CoupledClimateNetwork.__init__; threshold and link_density paths, non_local):
    # the inherited wrappers against the Lean model on *their* adjacency, and the layer
    # decomposition on the implementation
    from pyunicorn.climate import CoupledTsonisClimateNetwork, ClimateData
    for _ in range(2 if quick else 8):
        N1, N2 = rng.randrange(2, 6), rng.randrange(2, 6)
        n = N1 + N2
        T = 24
        tt = np.arange(float(T))
        g1 = GeoGrid(tt, np.array([-40.0 + 9.0 * k for k in range(N1)]),
                     np.array([10.0 + 7.0 * k for k in range(N1)]), silence_level=3)
        g2 = GeoGrid(tt, np.array([5.0 + 11.0 * k for k in range(N2)]),
                     np.array([120.0 + 5.0 * k for k in range(N2)]), silence_level=3)
        nprng = np.random.RandomState(rng.randrange(2 ** 31))
        o1, o2 = nprng.randn(T, N1), nprng.randn(T, N2)
        for k in range(min(N1, N2)):
            if rng.random() < 0.6:
                o2[:, k] += o1[:, k] * rng.choice([1.0, 2.0])
        kw = {"threshold": rng.choice([0.2, 0.35, 0.5])} if rng.random() < 0.6 else \
            {"link_density": rng.choice([0.2, 0.4, 0.6])}
        try:
            with contextlib.redirect_stdout(io.StringIO()):
                ccn = CoupledTsonisClimateNetwork(
                    ClimateData(observable=o1, grid=g1, time_cycle=12, silence_level=3),
                    ClimateData(observable=o2, grid=g2, time_cycle=12, silence_level=3),
                    non_local=rng.random() < 0.3, silence_level=3, **kw)
        except Exception as e:  # noqa
            ctx.count("ccn:tsonis-constructor-raises:" + type(e).__name__)
            continue
        ccn.silence_level = 3
        ctx.count("ccn:CoupledTsonisClimateNetwork:" + next(iter(kw)))
        A = [[int(x) for x in r] for r in np.asarray(ccn.adjacency).tolist()]
        has_links = any(any(r) for r in A)
        la = [[Fr(0)] * n for _ in range(n)]
        for a in range(n):
            for b in range(a):
                if A[a][b]:
                    la[a][b] = la[b][a] = Fr(rng.randrange(1, 13), 4)
        Du = floyd(n, [[Fr(1) if A[a][b] else None for b in range(n)] for a in range(n)])
        Dw = Du
        if has_links:
            ccn.set_link_attribute("la", np.array([[float(x) for x in r] for r in la]))
            Dw = floyd(n, [[la[a][b] if A[a][b] else None for b in range(n)] for a in range(n)])
        ctx.case(("ccn-tsonis", A, N1), has_links,
                 {"class": "CoupledTsonisClimateNetwork", "adjacency": A, "N_1": N1})
        bad = None
        try:
            if int(ccn.N_1) != N1 or int(ccn.N_2) != N2 or list(ccn.nodes_1) != list(range(N1)) \
                    or list(ccn.nodes_2) != list(range(N1, n)):
                bad = f"N_1={ccn.N_1} N_2={ccn.N_2} nodes_1={ccn.nodes_1} nodes_2={ccn.nodes_2}"
            else:
                with contextlib.redirect_stdout(io.StringIO()):
                    idg, cdg = ccn.internal_degree(), ccn.cross_degree()
                    nil, ncl = ccn.number_internal_links(), int(ccn.number_cross_layer_links())
                whole = [int(x) for x in np.asarray(ccn.degree()).tolist()]
                parts = [int(x) + int(y) for x, y in zip(idg[0], cdg[0])] + \
                    [int(x) + int(y) for x, y in zip(idg[1], cdg[1])]
                if whole != parts or int(ccn.n_links) != int(nil[0]) + int(nil[1]) + ncl:
                    bad = f"degree={whole} internal+cross={parts} n_links={ccn.n_links} " \
                          f"internal={nil} cross={ncl}"
        except Exception as e:  # noqa
            bad = "raise:" + type(e).__name__
        ctx.count("relation:ccn-layer-decomposition")
        if bad:
            ctx.fail({"class": "CoupledTsonisClimateNetwork", "method": "degree / n_links / layers",
                      "relation": "layer-decomposition"},
                     "layers / degree() / n_links of a CoupledTsonisClimateNetwork are not the "
                     "bipartition (range(N_1), range(N_1, N)) resp. the sums over its layers: "
                     + bad, {"adjacency": A, "N_1": N1, "N_2": N2, "arguments": str(kw)})
        with contextlib.redirect_stdout(io.StringIO()):
            G = np.asarray(ccn.distance(), dtype=float)
            S32 = np.asarray(ccn.similarity_measure(), dtype=float)
        req = " ".join(["ccn", "0", str(N1), str(n), enc_mat(A), enc_mat(Du), enc_mat(Dw),
                        enc_mat([[Fr(float(x)) for x in r] for r in G.tolist()]),
                        enc_mat([[Fr(float(x)) for x in r] for r in S32.tolist()])])
        todo.append((req, ccn_impl_results(ccn, has_links),
                     f"CoupledTsonisClimateNetwork N_1={N1} N_2={N2} directed=False "
                     f"A={enc_mat(A)}"))
    ccn_correspondence(ctx, todo)
