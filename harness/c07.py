"""C07 — recurrence matrices are exactly the thresholded distance matrices.

proof  : lean/Pyunicorn/Properties/C07.lean about the models
         lean/Pyunicorn/Model/Recurrence.lean (kernels) and RecurrenceObjects.lean
         (the Python methods, composed with index expressions regenerated from
         the source by translate/gen_arith.py -> Generated/ArithC07.lean)
tie    : translator (every run) + exact correspondence model <-> real code at the
         kernel boundary (embedding, six distance kernels, adaptive kernel) and at
         the object level (RecurrencePlot, CrossRecurrencePlot,
         JointRecurrencePlot, RecurrenceNetwork, JointRecurrenceNetwork,
         InterSystemRecurrenceNetwork)
search : brute-force evaluation of the statement in fractions.Fraction,
         independent of the Lean model, + "every quantification method runs and
         accounts for the matrix" on every derived class

Numbers: series are multiples of 1/2 in a small range (exact in float32 and
float64), thresholds multiples of 1/4 (so `d < eps` is decided identically in
IEEE and in Q, *including* exact ties d == eps), rates are dyadic (k/16) so
`int(rr*(N-1))` is exact.  A separate implementation-only stream uses generic
floats with a decision margin.
"""
import contextlib
import io
import math
from fractions import Fraction as Fr

import numpy as np

from . import common

METRICS = ("supremum", "manhattan", "euclidean")
SETTER_CRP = {"t": "set_fixed_threshold", "r": "set_fixed_recurrence_rate"}


# --------------------------------------------------------------------------
# encoding
# --------------------------------------------------------------------------

def enc_v(x):
    x = float(x)
    if math.isnan(x):
        return "nan"
    f = Fr(x)
    return str(f.numerator) if f.denominator == 1 else f"{f.numerator}/{f.denominator}"


def enc_fr(f):
    f = Fr(f)
    return str(f.numerator) if f.denominator == 1 else f"{f.numerator}/{f.denominator}"


def enc_vmat(a):
    a = np.asarray(a, dtype=float)
    if a.ndim == 1:
        a = a.reshape(-1, 1)
    if a.shape[0] == 0:
        return "-"
    if a.shape[1] == 0:
        return f"0x{a.shape[0]}"
    return ";".join(",".join(enc_v(v) for v in row) for row in a)


def enc_bmat(R):
    R = np.asarray(R)
    if R.ndim != 2 or R.shape[0] == 0:
        return "-"
    return ";".join((",".join(str(int(v)) for v in row) or "-") for row in R)


def enc_emb(e):
    return "-" if e is None else f"{e[0]},{e[1]}"


def enc_spec(s):
    return f"{s[0]}:{enc_fr(s[1])}"


def exc_name(e):
    n = type(e).__name__
    return "raise:" + (n if n in ("ValueError", "IndexError") else "Other:" + n)


# --------------------------------------------------------------------------
# the statement, by brute force in Q  (independent of the Lean model)
# --------------------------------------------------------------------------

def q_states(series, emb):
    """state vectors as lists of Fraction | None (None = missing)"""
    a = np.asarray(series, dtype=float)
    if a.ndim == 1:
        a = a.reshape(-1, 1)
    conv = lambda v: None if math.isnan(v) else Fr(float(v))  # noqa
    if emb is None:
        return [[conv(v) for v in row] for row in a]
    dim, tau = emb
    col = [conv(v) for v in a[:, 0]]
    n = len(col) - (dim - 1) * tau
    return [[col[k + j * tau] for j in range(dim)] for k in range(max(n, 0))]


def q_dist(metric, a, b):
    """distance in the metric's comparison units (Euclidean: squared); None if a
    missing value is involved"""
    if any(v is None for v in a) or any(v is None for v in b):
        return None
    d = [abs(x - y) for x, y in zip(a, b)]
    if metric == "manhattan":
        return sum(d, Fr(0))
    if metric == "supremum":
        return max(d, default=Fr(0))
    return sum((x * x for x in d), Fr(0))


def q_lt(metric, d, eps):
    if d is None:
        return False
    if metric == "euclidean":
        return eps > 0 and d < eps * eps
    return d < eps


def q_matrix(metric, sx, sy, eps):
    return [[int(q_lt(metric, q_dist(metric, a, b), eps)) for b in sy] for a in sx]


def q_dists(metric, sx, sy):
    return [[q_dist(metric, a, b) for b in sy] for a in sx]


def q_rate_matrix(D, rr):
    """global fixed rate: threshold = the floor(rr*(len-1))-th smallest of all
    distances, recurrent iff strictly smaller (all distances defined)"""
    flat = sorted(v for row in D for v in row)
    k = math.floor(Fr(rr) * (len(flat) - 1))
    t = flat[k]
    return [[int(v < t) for v in row] for row in D], k, t


def has_missing(states):
    return [any(v is None for v in s) for s in states]


def runs_of(seq):
    out, k = [], 0
    for v in seq:
        if v:
            k += 1
        elif k:
            out.append(k)
            k = 0
    if k:
        out.append(k)
    return out



def q_var(vals):
    """population variance of a flat list of Fraction | None (None if any missing / empty)"""
    if not vals or any(v is None for v in vals):
        return None
    mu = sum(vals, Fr(0)) / len(vals)
    return sum(((v - mu) ** 2 for v in vals), Fr(0)) / len(vals)


def q_sqrt(q):
    """exact rational square root or None"""
    if q is None or q < 0:
        return None
    a, b = math.isqrt(q.numerator), math.isqrt(q.denominator)
    return Fr(a, b) if a * a == q.numerator and b * b == q.denominator else None


def q_lt_std(metric, d, s, var):
    """d < s * sqrt(var), decided exactly (d in the metric's comparison units)"""
    if d is None or var is None or s <= 0:
        return False
    return (d if metric == "euclidean" else d * d) < s * s * var


def q_normalize(series):
    """normalize_time_series in Q: list of rows -> (rows, exact?)  (None: irrational std)"""
    a = np.asarray(series, dtype=float)
    if a.ndim == 1:
        a = a.reshape(-1, 1)
    conv = lambda v: None if math.isnan(v) else Fr(float(v))  # noqa
    cols = []
    for j in range(a.shape[1]):
        col = [conv(v) for v in a[:, j]]
        var = q_var(col)
        if var is None:
            cols.append([None] * len(col))
            continue
        mu = sum(col, Fr(0)) / len(col)
        if var == 0:
            cols.append([v - mu for v in col])
            continue
        sd = q_sqrt(var)
        if sd is None:
            return None
        cols.append([(v - mu) / sd for v in col])
    return [[cols[j][i] for j in range(a.shape[1])] for i in range(a.shape[0])]


def rows_to_array(rows):
    return np.array([[np.nan if v is None else float(v) for v in r] for r in rows],
                    dtype=float).reshape(len(rows), -1)


def ref_adaptive(D, kA, order, nb=None):
    """the adaptive-neighbourhood construction as documented ([Xu2008], processing order
    `order`): in round i every state, in the given order, is linked (symmetrically) to its
    nearest neighbour beyond the i-th it is not yet linked to.  Rows of D without ties, or
    (round 5) the ranking `nb` of the neighbours given by the caller."""
    n = len(D)
    if nb is None:
        nb = [sorted(range(n), key=lambda j: D[i][j]) for i in range(n)]
    R = [[0] * n for _ in range(n)]
    for i in range(kA):
        for l in order:
            k = i + 1
            while k < n and R[l][nb[l][k]]:
                k += 1
            if k < n:
                R[l][nb[l][k]] = R[nb[l][k]][l] = 1
    return R


def numpy_table(obj, miss=None):
    """(round 5c) the table `set_adaptive_neighborhood_size` hands to the kernel for this
    object: the same deterministic call (same array, dtype and layout) on the object's own
    cached distance matrix; `miss` (states holding a missing value, computed by the harness
    from the series) is given for an object built with `missing_values=True`"""
    from pyunicorn.timeseries import RecurrencePlot
    with np.errstate(all="ignore"):
        distance = RecurrencePlot.distance_matrix(obj, obj.metric)
        if miss is not None and any(miss):
            distance = distance.copy()
            distance[np.array(miss, dtype=bool), :] = np.inf
            distance[:, np.array(miss, dtype=bool)] = np.inf
        return distance.argsort(axis=1)


def enc_table(sn):
    return ";".join(",".join(map(str, r)) for r in np.asarray(sn).tolist()) or "-"


STD_BLOCKS = ([-2, 2], [-4, 1, 1, 1, 1], [4, -1, -1, -1, -1])


def gen_exact_std(rng, n, d=1, wide=False):
    """(n, d) series whose columns all have mean c and standard deviation exactly 2a
    (blocks of mean 0 / variance 4, shuffled): np.std, the normalisation and every
    distance are exact in float32; n = 1, 3: a constant series (std 0)."""
    if wide and rng.random() < 0.5:
        a = Fr(2) ** rng.randrange(-12, 13)
        c = Fr(0)
    else:
        a = rng.choice([Fr(1, 4), Fr(1, 2), Fr(1), Fr(2), Fr(3, 2), Fr(3), Fr(5, 2), Fr(5)])
        c = Fr(rng.randrange(0, 13), 2) if rng.random() < 0.7 else Fr(0)
    cols = []
    for _ in range(d):
        qs = [q for q in range(n // 5 + 1) if (n - 5 * q) % 2 == 0]
        if not qs:
            cols.append([c] * n)
            continue
        q = rng.choice(qs)
        vals = [-2, 2] * ((n - 5 * q) // 2)
        for _ in range(q):
            vals += rng.choice(STD_BLOCKS[1:])
        rng.shuffle(vals)
        cols.append([c + a * v for v in vals])
    return np.array([[float(cols[j][i]) for j in range(d)] for i in range(n)], dtype=float)


def caller_array(rng, a):
    """the same numbers as the caller may hold them: float64 / float32, C order or a
    strided view of a larger array"""
    r = rng.random()
    a = np.asarray(a, dtype=float)
    if r < 0.35:
        return a.astype(np.float32)
    if r < 0.5:
        big = np.zeros((2 * a.shape[0],) + a.shape[1:], dtype=rng.choice([np.float32, np.float64]))
        big[::2] = a
        return big[::2]
    if r < 0.6 and a.ndim == 2:
        return np.asfortranarray(a)
    return a.copy()

# --------------------------------------------------------------------------
# generators
# --------------------------------------------------------------------------

def gen_series(rng, n, d, nan_p=0.0, span=6):
    a = np.array([[rng.randrange(0, 2 * span + 1) / 2 for _ in range(d)] for _ in range(n)],
                 dtype=float)
    if nan_p:
        for i in range(n):
            for j in range(d):
                if rng.random() < nan_p:
                    a[i, j] = np.nan
    return a


def gen_eps(rng):
    r = rng.random()
    if r < 0.04:
        return Fr(0)
    if r < 0.07:
        return Fr(-1, 2)
    return Fr(rng.randrange(1, 21), 4)       # 0.25 .. 5 (ties with distances included)


def gen_rate(rng):
    r = rng.random()
    if r < 0.06:
        return Fr(0)
    if r < 0.12:
        return Fr(1)
    return Fr(rng.randrange(1, 16), 16)


def gen_emb(rng, p=0.5):
    if rng.random() < p:
        return (rng.choice([1, 2, 2, 3]), rng.choice([1, 1, 2, 3]))
    return None


def gen_len(rng, quick):
    r = rng.random()
    if r < 0.08:
        return 1
    if r < 0.16:
        return 2
    return rng.randrange(3, 11 if quick else 18)


RQA_METHODS = [("recurrence_rate", ()), ("determinism", (2,)), ("average_diaglength", (2,)),
               ("diag_entropy", (2,)), ("max_diaglength", ()), ("laminarity", (2,)),
               ("trapping_time", (2,)), ("average_vertlength", (2,)), ("vert_entropy", (2,)),
               ("max_vertlength", ()), ("average_white_vertlength", (1,)),
               ("white_vert_entropy", (1,)), ("max_white_vertlength", ()),
               ("mean_recurrence_time", (1,)), ("rqa_summary", ()),
               ("recurrence_probability", (1,))]


def check_rqa(ctx, obj, R, cls, sig_extra, replay):
    """every quantification method is applicable: runs without exception, and
    the line histograms account for the matrix the object holds (N consistent
    with the side of R)."""
    R = np.asarray(R)
    if R.ndim != 2:
        # (round 5) a construction that left no matrix behind: a failing input, not a crash
        ctx.fail(dict(kind="matrix", cls=cls, issue="no-matrix", **sig_extra),
                 f"{cls}: recurrence_matrix() is not a 2-D array ({R!r})", replay)
        return
    side = R.shape[0]
    if side == 0:
        return
    for nm, args in RQA_METHODS:
        try:
            with np.errstate(all="ignore"):
                getattr(obj, nm)(*args)
        except Exception as e:  # noqa
            ctx.fail(dict(kind="rqa", cls=cls, method=nm, error=type(e).__name__, **sig_extra),
                     f"{cls}.{nm}{args} raised {type(e).__name__}: {e}",
                     dict(replay, method=nm, args=list(args)))
            return
    with np.errstate(all="ignore"):
        rr = float(obj.recurrence_rate())
    exp = float(R.sum()) / (side * side)
    if not abs(rr - exp) <= 1e-12:
        ctx.fail(dict(kind="rqa", cls=cls, method="recurrence_rate", error="value", **sig_extra),
                 f"{cls}.recurrence_rate() = {rr}, matrix has density {exp}",
                 dict(replay, expected=exp, observed=rr))
    if not getattr(obj, "missing_values", False):
        v = np.asarray(obj.vertline_dist())
        w = np.asarray(obj.white_vertline_dist())
        d = np.asarray(obj.diagline_dist())
        ev = [0] * side
        ew = [0] * side
        ed = [0] * side
        for row in R:
            for r in runs_of(row):
                ev[r - 1] += 1
            for r in runs_of(1 - row):
                ew[r - 1] += 1
        for k in range(1, side):
            for r in runs_of(np.diag(R, -k)):
                ed[r - 1] += 2
        for nm, got, e in (("vertline_dist", v, ev), ("white_vertline_dist", w, ew),
                           ("diagline_dist", d, ed)):
            if nm == "diagline_dist" and not np.array_equal(R, R.T):
                continue
            if list(map(int, got)) != e:
                ctx.fail(dict(kind="rqa", cls=cls, method=nm, error="value", **sig_extra),
                         f"{cls}.{nm}() is not the run-length count of the object's matrix",
                         dict(replay, expected=e, observed=list(map(int, got))))


# --------------------------------------------------------------------------

def run(ctx):
    from pyunicorn.timeseries._ext import numerics as K
    from pyunicorn.timeseries import (RecurrencePlot, CrossRecurrencePlot, JointRecurrencePlot,
                                      RecurrenceNetwork, JointRecurrenceNetwork,
                                      InterSystemRecurrenceNetwork)
    rng = ctx.rng
    quick = ctx.tier == "quick"
    scale = 8 if quick else 100
    ctx.rule = ("half-integer series (length 1..10 quick / ..17 thorough, 1-3 columns or delay "
                "embedding dim 1-3, tau 1-3, NaN patterns), thresholds k/4 (ties with distances "
                "included, also 0 and negative), dyadic rates k/16 incl. 0 and 1, lags -4..4 and "
                "beyond the length, unequal lengths for cross / inter-system; distinct = distinct "
                "(class, configuration, series); non-trivial = matrix has both colours off the diagonal")
    try:
        ctx.proofs()
    except common.BuildError as e:
        # the model no longer builds against the regenerated arithmetic: a broken
        # tie, settled by the failing-input search below
        ctx.obligation("driver/model builds against Generated/ArithC07.lean", "lean-build",
                       False, str(e))
    have_driver = not any(b["kind"] == "lean-build" for b in ctx.broken) or \
        __import__("os").path.exists(common.driver_path(ctx.pid))

    reqs, impl = [], []

    def nontrivial(R):
        R = np.asarray(R)
        if R.ndim != 2 or R.shape[0] < 2:
            return False
        off = R.sum() - np.trace(R) if R.shape[0] == R.shape[1] else R.sum()
        tot = R.size - (R.shape[0] if R.shape[0] == R.shape[1] else 0)
        return 0 < off < tot

    # ------------------------------------------------------------------
    # 1. kernel boundary: embedding, distance kernels
    # ------------------------------------------------------------------
    for _ in range(60 * scale):
        n = gen_len(rng, quick)
        emb = (rng.choice([1, 2, 3, 4]), rng.choice([1, 2, 3]))
        ts = gen_series(rng, n, 1, nan_p=rng.choice([0, 0, 0.15]))
        reqs.append(f"embed {enc_emb(emb)} {enc_vmat(ts)}")
        try:
            e = RecurrencePlot.embed_time_series(ts, *emb)
            impl.append(enc_vmat(e) if e.shape[0] else "-")
            exp = q_states(ts, emb)
            got = [[None if math.isnan(v) else Fr(float(v)) for v in row] for row in e]
            if got != exp:
                ctx.fail(dict(kind="kernel", kernel="embed"),
                         "embed_time_series differs from x[k + j*tau]",
                         dict(series=ts.tolist(), dim=emb[0], tau=emb[1],
                              expected=str(exp), observed=e.tolist()))
        except Exception as ex:  # noqa
            impl.append(exc_name(ex))
            if n - (emb[0] - 1) * emb[1] >= 0:
                ctx.fail(dict(kind="kernel", kernel="embed", error=type(ex).__name__),
                         f"embed_time_series raised {type(ex).__name__} on a long enough series",
                         dict(series=ts.tolist(), dim=emb[0], tau=emb[1]))
        ctx.case(("embed", emb, ts.tobytes().hex()), n - (emb[0] - 1) * emb[1] > 1)
        ctx.count("kernel:embed")

    def dist_to_units(metric, D):
        """implementation distances -> exact comparison units (Euclid: squares,
        which are multiples of 1/4 for half-integer data)"""
        D = np.asarray(D, dtype=float)
        if metric == "euclidean":
            with np.errstate(invalid="ignore"):
                D = np.round(D * D * 4) / 4
        return D

    for _ in range(90 * scale):
        n = gen_len(rng, quick)
        d = rng.choice([1, 1, 2, 3])
        metric = rng.choice(METRICS)
        x = gen_series(rng, n, d, nan_p=rng.choice([0, 0, 0.1]))
        fn = getattr(K, f"_{metric}_distance_matrix_rp")
        D = fn(n, d, np.ascontiguousarray(x))
        reqs.append(f"dist_rp {metric} {enc_vmat(x)}")
        impl.append(enc_vmat(dist_to_units(metric, D)))
        sx = q_states(x, None)
        exp = q_dists(metric, sx, sx)
        bad = None
        U = dist_to_units(metric, D)
        for i in range(n):
            for j in range(n):
                e = exp[i][j]
                g = U[i, j]
                if i == j:
                    ok = g == 0       # np.zeros diagonal, also for states with missing values
                elif e is None:
                    # a missing value: Manhattan/Euclid must give NaN; the
                    # supremum kernel skips NaN components (IEEE comparison)
                    ok = math.isnan(g) or metric == "supremum"
                else:
                    ok = (not math.isnan(g)) and Fr(float(g)) == e
                if not ok:
                    bad = (i, j, str(e), float(g))
        if bad:
            ctx.fail(dict(kind="kernel", kernel=f"{metric}_rp"),
                     f"_{metric}_distance_matrix_rp[{bad[0]},{bad[1]}] = {bad[3]}, definition gives {bad[2]}",
                     dict(metric=metric, embedding=x.tolist(), entry=bad[:2]))
        ctx.case(("dist_rp", metric, x.tobytes().hex()), n >= 2)
        ctx.count(f"kernel:dist_rp:{metric}")
        # cross variant
        m = gen_len(rng, quick)
        y = gen_series(rng, m, d, nan_p=rng.choice([0, 0, 0.1]))
        fn = getattr(K, f"_{metric}_distance_matrix_crp")
        D = fn(n, m, d, np.ascontiguousarray(x), np.ascontiguousarray(y))
        reqs.append(f"dist_crp {metric} {enc_vmat(x)} {enc_vmat(y)}")
        impl.append(enc_vmat(dist_to_units(metric, D)))
        sy = q_states(y, None)
        exp = q_dists(metric, sx, sy)
        U = dist_to_units(metric, D)
        for i in range(n):
            for j in range(m):
                e, g = exp[i][j], U[i, j]
                ok = (math.isnan(g) or metric == "supremum") if e is None else \
                    ((not math.isnan(g)) and Fr(float(g)) == e)
                if not ok:
                    ctx.fail(dict(kind="kernel", kernel=f"{metric}_crp"),
                             f"_{metric}_distance_matrix_crp[{i},{j}] = {g}, definition gives {e}",
                             dict(metric=metric, x=x.tolist(), y=y.tolist(), entry=[i, j]))
                    break
        ctx.case(("dist_crp", metric, x.tobytes().hex(), y.tobytes().hex()), n >= 2 and m >= 2)
        ctx.count(f"kernel:dist_crp:{metric}")

    # ------------------------------------------------------------------
    # 2. adaptive kernel at the kernel boundary
    # ------------------------------------------------------------------
    for _ in range(60 * scale):
        n = rng.randrange(1, 9)
        kA = rng.randrange(0, n + 1)
        sn = []
        for l in range(n):
            others = [c for c in range(n) if c != l]
            rng.shuffle(others)
            row = [l] + others
            if rng.random() < 0.1 and n > 1:      # self not first (tied zero distance)
                row[0], row[1] = row[1], row[0]
            sn.append(row)
        order = list(range(n))
        if rng.random() < 0.5:
            rng.shuffle(order)
        R = np.zeros((n, n), dtype=np.int8)
        reqs.append(f"adaptive {n} {kA} " + (";".join(",".join(map(str, r)) for r in sn) or "-")
                    + " " + (",".join(map(str, order)) or "-"))
        try:
            K._set_adaptive_neighborhood_size(n, kA, np.array(sn, dtype=np.int32).reshape(n, n),
                                              np.array(order, dtype=np.int32), R)
            impl.append(enc_bmat(R))
        except Exception as ex:  # noqa
            impl.append(exc_name(ex))
        ctx.case(("adaptive", n, kA, str(sn), str(order)), n >= 3 and 0 < kA < n - 1)
        ctx.count("kernel:adaptive")

    # ------------------------------------------------------------------
    # 3. RecurrencePlot / RecurrenceNetwork
    # ------------------------------------------------------------------
    def rp_kwargs(metric, mv, emb, spec):
        kw = dict(metric=metric, missing_values=mv, silence_level=3)
        if emb is not None:
            kw.update(dim=emb[0], tau=emb[1])
        kw[{"t": "threshold", "r": "recurrence_rate", "l": "local_recurrence_rate"}[spec[0]]] = \
            float(spec[1])
        return kw

    def oracle_rp(cls, obj, R, ts, metric, mv, emb, spec, replay):
        """the statement for a single-series plot"""
        st = q_states(ts, emb)
        miss = has_missing(st)
        n = len(st)
        R = np.asarray(R)
        sig = dict(kind="matrix", cls=cls, spec=spec[0], metric=metric, missing=any(miss),
                   missing_values=mv, embedded=emb is not None)
        if R.shape != (n, n):
            ctx.fail(dict(sig, issue="shape"), f"{cls}: matrix shape {R.shape}, {n} state vectors",
                     replay)
            return
        if int(obj.N) != n and cls == "RecurrencePlot":
            ctx.fail(dict(sig, issue="N"), f"{cls}: N = {obj.N}, {n} state vectors", replay)
        if any(miss) and mv:
            for i in range(n):
                if miss[i] and (R[i, :].any() or R[:, i].any()):
                    ctx.fail(dict(sig, issue="missing-recurrent"),
                             f"{cls}({spec[0]}): state {i} holds a missing value but is marked recurrent",
                             dict(replay, state=i, R=enc_bmat(R)))
                    return
        if any(miss):
            return      # the remaining clauses are evaluated on complete data only
        D = q_dists(metric, st, st)
        if spec[0] == "t":
            exp = q_matrix(metric, st, st, spec[1])
            if R.tolist() != exp:
                ctx.fail(dict(sig, issue="entries"),
                         f"{cls}: recurrence matrix differs from [d < eps]",
                         dict(replay, expected=enc_bmat(exp), observed=enc_bmat(R)))
        elif spec[0] == "r":
            exp, k, t = q_rate_matrix(D, spec[1])
            if R.tolist() != exp:
                ctx.fail(dict(sig, issue="entries"),
                         f"{cls}: matrix differs from thresholding at the floor(rr(N^2-1))-th distance",
                         dict(replay, expected=enc_bmat(exp), observed=enc_bmat(R)))
            if R.sum() > spec[1] * n * n:
                ctx.fail(dict(sig, issue="rate-exceeded"),
                         f"{cls}: realised rate {R.sum()}/{n*n} exceeds requested {spec[1]}", replay)
        elif spec[0] == "l":
            k = math.floor(spec[1] * (n - 1))
            for i in range(n):
                srt = sorted(D[i])
                cnt = int(R[i].sum())
                exp_row = [int(v < srt[k]) for v in D[i]]
                tie = k > 0 and srt[k - 1] == srt[k]
                if R[i].tolist() != exp_row or cnt > k or (not tie and cnt != k):
                    ctx.fail(dict(sig, issue="local-row"),
                             f"{cls}: row {i} has {cnt} recurrences, requested {k} (tie at cut: {tie})",
                             dict(replay, row=i, expected=exp_row, observed=R[i].tolist()))
                    break
            counts = set(int(c) for c in R.sum(axis=1))
            if len(counts) > 1:
                # tied distances at the cut: rows cannot all get k (DESIGN section 9)
                ctx.fail(dict(kind="matrix", cls=cls, spec="l", issue="unequal-row-counts-with-ties"),
                         f"{cls}: local recurrence rate gives rows different counts {sorted(counts)}",
                         dict(replay, counts=sorted(counts)))

    n_rp = 260 * scale
    for c in range(n_rp):
        n = gen_len(rng, quick)
        emb = gen_emb(rng, 0.45)
        d = 1 if emb is not None else rng.choice([1, 1, 2, 3])
        metric = rng.choice(METRICS)
        mv = rng.random() < 0.3
        nanp = rng.choice([0.1, 0.2]) if (mv or rng.random() < 0.08) else 0
        ts = gen_series(rng, n, d, nan_p=nanp, span=rng.choice([2, 4, 6]))
        kind = rng.choice("tttrrl")
        spec = (kind, gen_eps(rng) if kind == "t" else gen_rate(rng))
        net = rng.random() < 0.4
        cls = "RecurrenceNetwork" if net else "RecurrencePlot"
        kw = rp_kwargs(metric, mv, emb, spec)
        replay = dict(cls=cls, time_series=ts.tolist(), kwargs={k: v for k, v in kw.items()})
        req = f"{'rn' if net else 'rp'} {metric} {int(mv)} {enc_emb(emb)} {enc_spec(spec)} {enc_vmat(ts)}"
        ctx.count(f"{cls}:{kind}:{metric}" + (":mv" if mv else "") + (":emb" if emb else ""))
        st0 = q_states(ts, emb)
        nodes = len(st0) - (sum(has_missing(st0)) if mv else 0)
        # Network.__init__ (core/network.py, not modelled here) is only entered
        # by the correspondence for graphs with at least two nodes
        in_corr = not (net and nodes <= 1)
        if in_corr:
            reqs.append(req)
        try:
            with np.errstate(all="ignore"):
                obj = (RecurrenceNetwork if net else RecurrencePlot)(caller_array(rng, ts), **kw)
        except Exception as ex:  # noqa
            if in_corr:
                impl.append(exc_name(ex))
            ctx.case((req,), False)
            st_n = n - ((emb[0] - 1) * emb[1] if emb else 0)
            if st_n >= 1:
                ctx.fail(dict(kind="construct", cls=cls, spec=kind, error=type(ex).__name__,
                              missing_values=mv, nodes=("<=1" if nodes <= 1 else ">=2") if net else None),
                         f"{cls} could not be built ({type(ex).__name__}: {ex}) for {st_n} state vectors"
                         + (f" ({nodes} nodes)" if net else ""), replay)
            continue
        R = obj.recurrence_matrix()
        if net:
            A = np.asarray(obj.adjacency)
            if in_corr:
                impl.append(f"N={int(obj.N)} A={enc_bmat(A)}")
        else:
            impl.append(f"N={int(obj.N)} M={int(obj.N)} R={enc_bmat(R)}")
        ctx.case((req,), nontrivial(R), dict(cls=cls, series=ts.tolist(), kwargs=str(kw))
                 if n <= 5 else None)
        oracle_rp(cls, obj, R, ts, metric, mv, emb, spec, replay)
        st = q_states(ts, emb)
        miss = has_missing(st)
        if net:
            # a recurrence network is the recurrence matrix without its diagonal
            # (and without the states holding missing values)
            keep = [i for i in range(len(st)) if not (mv and miss[i])]
            exp = np.asarray(R)[np.ix_(keep, keep)].copy() if keep else np.zeros((0, 0), int)
            np.fill_diagonal(exp, 0)
            if A.shape != exp.shape or not np.array_equal(A, exp):
                ctx.fail(dict(kind="network", cls=cls, spec=kind, missing=any(miss) and mv),
                         f"{cls}: adjacency is not the recurrence matrix without its diagonal",
                         dict(replay, expected=enc_bmat(exp), observed=enc_bmat(A)))
        if not (mv and any(miss)) or net:
            check_rqa(ctx, obj, R, cls, dict(spec=kind, missing=bool(mv and any(miss))), replay)
        if net and not any(miss) and len(st) >= 2:
            # the setters rebuild plot *and* network
            setters = [("set_fixed_threshold", float(gen_eps(rng))),
                       ("set_fixed_recurrence_rate", float(gen_rate(rng))),
                       ("set_fixed_local_recurrence_rate", float(gen_rate(rng))),
                       ("set_fixed_threshold_std", rng.choice([0.25, 0.5, 1.0, 2.0])),
                       ("set_adaptive_neighborhood_size", rng.randrange(1, len(st)))]
            for nm, arg in rng.sample(setters, 2):
                ctx.count(f"RecurrenceNetwork.{nm}")
                try:
                    getattr(obj, nm)(arg)
                except Exception as ex:  # noqa
                    ctx.fail(dict(kind="network", cls=cls, issue="setter-raises", method=nm,
                                  error=type(ex).__name__),
                             f"{cls}.{nm}({arg}) raised {type(ex).__name__}: {ex}",
                             dict(replay, setter=nm, setter_arg=arg))
                    break
                R2 = np.asarray(obj.recurrence_matrix())
                e2 = R2.copy()
                np.fill_diagonal(e2, 0)
                A2 = np.asarray(obj.adjacency)
                if A2.shape != e2.shape or not np.array_equal(A2, e2):
                    ctx.fail(dict(kind="network", cls=cls, issue="adjacency", method=nm),
                             f"{cls}.{nm}({arg}): adjacency is not the recurrence matrix without its diagonal",
                             dict(replay, setter=nm, setter_arg=arg, expected=enc_bmat(e2),
                                  observed=enc_bmat(A2)))
                if nm == "set_fixed_threshold":
                    exp2 = q_matrix(metric, st, st, Fr(arg))
                    if R2.tolist() != exp2:
                        ctx.fail(dict(kind="matrix", cls=cls, spec="t", issue="entries", method=nm),
                                 f"{cls}.{nm}({arg}): recurrence matrix differs from [d < eps]",
                                 dict(replay, setter=nm, setter_arg=arg))

    # adaptive neighbourhood size on objects (property: >= k neighbours each)
    for c in range(40 * scale):
        n = rng.randrange(2, 11 if quick else 16)
        kA = rng.randrange(1, n)
        d = rng.choice([1, 2])
        metric = rng.choice(METRICS)
        # distinct distances from every state: a strictly convex scalar sequence
        if rng.random() < 0.6:
            vals = sorted(rng.sample(range(0, 400), n))
            ts = np.array([[float(v * v % 1009)] + [0.0] * (d - 1) for v in vals])
        else:
            ts = gen_series(rng, n, d)
        net = rng.random() < 0.5
        cls = "RecurrenceNetwork" if net else "RecurrencePlot"
        replay = dict(cls=cls, time_series=ts.tolist(),
                      kwargs=dict(metric=metric, adaptive_neighborhood_size=kA))
        ctx.count(f"{cls}:adaptive")
        try:
            obj = (RecurrenceNetwork if net else RecurrencePlot)(
                caller_array(rng, ts), metric=metric, adaptive_neighborhood_size=kA, silence_level=3)
        except Exception as ex:  # noqa
            ctx.case(("adaptive-obj", n, kA, ts.tobytes().hex(), metric), False)
            ctx.fail(dict(kind="adaptive", cls=cls, error=type(ex).__name__),
                     f"{cls}(adaptive_neighborhood_size={kA}) raised {type(ex).__name__} "
                     f"for {n} states (k <= n-1)", replay)
            continue
        R = np.asarray(obj.recurrence_matrix())
        if R.ndim != 2:
            ctx.case(("adaptive-obj", n, kA, ts.tobytes().hex(), metric), False)
            ctx.fail(dict(kind="adaptive", cls=cls, issue="no-matrix"),
                     f"{cls}(adaptive_neighborhood_size={kA}): recurrence_matrix() is not a 2-D "
                     f"array ({R!r})", replay)
            continue
        ctx.case(("adaptive-obj", n, kA, ts.tobytes().hex(), metric), nontrivial(R))
        neigh = (R.sum(axis=1) - np.diag(R))
        st = q_states(ts, None)
        D = q_dists(metric, st, st)
        problem = None
        if R.shape != (n, n) or not np.array_equal(R, R.T):
            problem = "matrix not symmetric n x n"
        elif (neigh < kA).any():
            problem = f"state {int(np.argmin(neigh))} has {int(neigh.min())} < {kA} neighbours"
        else:
            for i in range(n):
                others = sorted((D[i][j], j) for j in range(n) if j != i)
                if len(set(v for v, _ in others)) == len(others) and len(set(D[i])) == n:
                    for v, j in others[:kA]:
                        if not R[i, j]:
                            problem = f"state {i} is not linked to its {kA} nearest neighbours"
        if problem:
            ctx.fail(dict(kind="adaptive", cls=cls, issue=problem.split()[0]),
                     f"{cls}(adaptive_neighborhood_size={kA}): {problem}",
                     dict(replay, R=enc_bmat(R)))
        if net:
            exp = R.copy()
            np.fill_diagonal(exp, 0)
            if not np.array_equal(np.asarray(obj.adjacency), exp):
                ctx.fail(dict(kind="network", cls=cls, spec="adaptive", missing=False),
                         f"{cls}: adjacency is not the recurrence matrix without its diagonal", replay)
        check_rqa(ctx, obj, R, cls, dict(spec="adaptive", missing=False), replay)
        # correspondence at the object level (argsort + kernel + stride), rows without ties:
        # the constructor, then the setter with a caller-chosen processing order
        # (round 5c: through `adaptiveObjPlot` / `adaptiveObjNet` with the table NumPy produced,
        #  so rows with tied distances are no longer excluded from the correspondence; the
        #  reference construction below still needs an unambiguous ranking)
        tie_free = all(len(set(r)) == len(r) for r in D)
        if True:
            ctx.count("adaptive-object in correspondence" + ("" if tie_free else " (tied rows)"))
            sntxt = enc_table(numpy_table(obj))
            if net:
                reqs.append(f"rnx 0 {metric} 0 0 - a:{kA} - {sntxt} {enc_vmat(ts)}")
                impl.append(f"N={int(obj.N)} A={enc_bmat(obj.adjacency)}")
            else:
                reqs.append(f"rpx {metric} 0 0 - a:{kA} - {sntxt} {enc_vmat(ts)}")
                impl.append(f"N={int(obj.N)} M={int(obj.N)} R={enc_bmat(R)}")
            kB = rng.randrange(0, n + 2)
            order = list(range(n))
            rng.shuffle(order)
            if rng.random() < 0.1:
                order = order[:-1]              # too short: IndexError as soon as a round runs
            ordtxt = ",".join(map(str, order)) or "-"
            try:
                obj.set_adaptive_neighborhood_size(kB, order=np.array(order, dtype=np.int64))
                R2 = np.asarray(obj.recurrence_matrix())
                got = (f"N={int(obj.N)} A={enc_bmat(obj.adjacency)}" if net else
                       f"N={int(obj.N)} M={int(obj.N)} R={enc_bmat(R2)}")
                if len(order) == n and tie_free and R2.tolist() != ref_adaptive(D, kB, order):
                    ctx.fail(dict(kind="adaptive", cls=cls, issue="order"),
                             f"{cls}.set_adaptive_neighborhood_size({kB}, order={order}) is not the "
                             "documented construction for that processing order",
                             dict(replay, setter_arg=kB, order=order, R=enc_bmat(R2)))
                if len(order) == n and (not np.array_equal(R2, R2.T) or
                                        ((R2.sum(axis=1) - np.diag(R2)) < min(kB, n - 1)).any()):
                    ctx.fail(dict(kind="adaptive", cls=cls, issue="count-or-symmetry"),
                             f"{cls}.set_adaptive_neighborhood_size({kB}, order={order}): asymmetric "
                             f"or a state with fewer than min({kB}, n-1) neighbours",
                             dict(replay, setter_arg=kB, order=order, R=enc_bmat(R2)))
            except Exception as ex:  # noqa
                got = exc_name(ex)
                if len(order) == n:
                    ctx.fail(dict(kind="adaptive", cls=cls, error=type(ex).__name__, step="setter"),
                             f"{cls}.set_adaptive_neighborhood_size({kB}, order=permutation) raised "
                             f"{type(ex).__name__}: {ex}", dict(replay, setter_arg=kB, order=order))
            if len(order) and not (net and got.startswith("raise")):
                reqs.append((f"rnx 1 {metric} 0 0 - a:{kB} {ordtxt} {sntxt} {enc_vmat(ts)}" if net else
                             f"rpx {metric} 0 0 - a:{kB} {ordtxt} {sntxt} {enc_vmat(ts)}"))
                impl.append(got)

    # adaptive neighbourhood size with TIED distances and with MISSING VALUES (round 5):
    # duplicate state vectors, lattice data, NaN states with and without missing_values=True,
    # 17+ states.  NumPy's order among ties is unspecified (its argsort is not stable), so the
    # model is handed the table NumPy produces for the matrix the method sorts (distances;
    # with missing_values the rows / columns of states with missing values at +inf), first
    # checks that it IS an argsort of the model's own matrix (`argsortOK`; theorems
    # adaptive_plot_any_argsort / adaptive_plot_missing_values speak about every such table)
    # and then runs the kernel on it: constructor, then the setter with a caller-chosen order.
    def q_key(v):
        return (1, 0) if v is None else (0, v)

    for c in range(320 if quick else 1600):
        big = rng.random() < (0.2 if quick else 0.3)
        n = rng.randrange(17, 48 if quick else 100) if big else rng.randrange(2, 13)
        emb = gen_emb(rng, 0.3)
        d = 1 if emb is not None else rng.choice([1, 1, 2, 3])
        n_st = n - ((emb[0] - 1) * emb[1] if emb else 0)
        if n_st < 2:
            continue
        nv = rng.choice([1, 2, 2, 3, 4, 6])
        ts = np.array([[float(rng.randrange(nv)) for _ in range(d)] for _ in range(n)])
        if rng.random() < 0.3:
            ts = ts[np.lexsort(ts.T[::-1])]       # runs of equal states
        mv = rng.random() < 0.4
        with_nan = rng.random() < (0.8 if mv else 0.15)
        if with_nan:
            for _ in range(rng.choice([1, 1, 2, 3])):
                ts[rng.randrange(n), rng.randrange(d)] = np.nan
        st = q_states(ts, emb)
        miss = has_missing(st) if mv else [False] * n_st
        comp = [i for i in range(n_st) if not miss[i]]
        nC = len(comp)
        metric = rng.choice(METRICS)
        kA = min(n_st - 1, rng.choice([1, 1, 2, 3, rng.randrange(1, n_st)]))
        if n_st > 24:
            kA = min(kA, 4)      # (the model's matrix is a chain of closures: cost ~ (n k)^2 n)
        net = rng.random() < 0.4 and nC >= 2
        cls = "RecurrenceNetwork" if net else "RecurrencePlot"
        kw = dict(metric=metric, adaptive_neighborhood_size=kA, missing_values=mv, silence_level=3)
        if emb:
            kw.update(dim=emb[0], tau=emb[1])
        replay = dict(cls=cls, time_series=ts.tolist(), kwargs={k: v for k, v in kw.items()})
        ctx.count(f"{cls}:adaptive-ties" + (":17+" if big else "") + (":nan" if with_nan else "")
                  + (":missing_values" if mv else "") + (":emb" if emb else ""))
        sig = dict(kind="adaptive", cls=cls, ties=True, missing_values=mv)
        try:
            with np.errstate(all="ignore"):
                obj = (RecurrenceNetwork if net else RecurrencePlot)(caller_array(rng, ts), **kw)
                Dm = np.array(obj.distance_matrix(metric), dtype=float)
                if mv:
                    Dm[miss, :] = np.inf
                    Dm[:, miss] = np.inf
                sn = Dm.argsort(axis=1)
        except Exception as ex:  # noqa
            ctx.case(("adaptive-ties", cls, metric, emb, kA, mv, ts.tobytes().hex()), False)
            ctx.fail(dict(sig, error=type(ex).__name__),
                     f"{cls}(adaptive_neighborhood_size={kA}, missing_values={mv}) raised "
                     f"{type(ex).__name__}: {ex} for {n_st} states with tied distances", replay)
            continue
        R = np.asarray(obj.recurrence_matrix())
        if R.ndim != 2:
            ctx.case(("adaptive-ties", cls, metric, emb, kA, mv, ts.tobytes().hex()), False)
            ctx.fail(dict(sig, issue="no-matrix"),
                     f"{cls}(adaptive_neighborhood_size={kA}, missing_values={mv}): "
                     f"recurrence_matrix() is not a 2-D array ({R!r})", replay)
            continue
        ctx.case(("adaptive-ties", cls, metric, emb, kA, mv, ts.tobytes().hex()), nontrivial(R))
        D = q_dists(metric, st, st)
        for i in range(n_st):
            D[i][i] = Fr(0)                      # the kernels leave the np.zeros diagonal
        tied = any(len(set(r)) < len(r) for r in D)
        ctx.count("adaptive-ties: some row has tied distances" if tied else
                  "adaptive-ties: no tie")
        if (sn != Dm.argsort(axis=1, kind="stable")).any():
            ctx.count("adaptive-ties: NumPy's table differs from the stable argsort")
        if (sn[:, 0] != np.arange(n_st)).any():
            ctx.count("adaptive-ties: some state does not sort first in its own row")
        # oracle (independent of the model; tie-independent statements only)
        problem = None
        if R.shape != (n_st, n_st) or not np.array_equal(R, R.T) or \
                int(obj.N) != (nC if net else n_st):
            problem = "matrix not symmetric n x n / N"
        elif any(miss[i] and (R[i, :].any() or R[:, i].any()) for i in range(n_st)):
            i = next(i for i in range(n_st) if miss[i] and (R[i, :].any() or R[:, i].any()))
            problem = f"missing: state {i} holds a missing value but is recurrent"
        elif kA <= nC - 1:
            # (without missing_values and with NaN the supremum kernel skips the component:
            #  no Fraction distance there)
            use_d = not (with_nan and not mv and metric == "supremum")
            for i in comp:
                srt = sorted((D[i][j] for j in comp), key=q_key)
                want = srt[1:kA + 1]                         # distances of ranks 1..kA
                have = sorted((D[i][j] for j in comp if R[i, j]), key=q_key)
                it = iter(have)                              # multiset inclusion want <= have
                if use_d and not all(any(h == w for h in it) for w in want):
                    problem = (f"nearest: state {i} is not linked to states at its {kA} smallest "
                               "distances (ranks 1..k of the sorted row)")
                    break
                others = sum(int(R[i, j]) for j in comp if j != i)
                if not (with_nan and not mv) and others < kA:
                    problem = (f"count: state {i} has {others} < {kA} neighbours other than itself"
                               + (" among the states without missing values" if mv else ""))
                    break
        if problem is None:
            exp = np.array(ref_adaptive(D, kA, list(range(n_st)), nb=sn.tolist()), dtype=int)
            exp[miss, :] = 0
            exp[:, miss] = 0
            if R.tolist() != exp.tolist():
                problem = "construction: not the documented construction on the sorted neighbours"
        if problem:
            ctx.fail(dict(sig, issue=problem.split(":")[0].split()[0]),
                     f"{cls}(adaptive_neighborhood_size={kA}, missing_values={mv}), tied distances: "
                     f"{problem}", dict(replay, R=enc_bmat(R)))
        if net:
            exp = R.copy()
            np.fill_diagonal(exp, 0)
            exp = exp[np.ix_(comp, comp)]
            if not np.array_equal(np.asarray(obj.adjacency), exp):
                ctx.fail(dict(kind="network", cls=cls, spec="adaptive", missing=mv, ties=True),
                         f"{cls}: adjacency is not the recurrence matrix without its diagonal"
                         + (" and without the states with missing values" if mv else ""), replay)
        if not with_nan:
            check_rqa(ctx, obj, R, cls, dict(spec="adaptive", missing=False), replay)
        sntxt = ";".join(",".join(map(str, r)) for r in sn.tolist())
        # round 5c: three in four go through the object-level model (`adaptiveObjPlot` /
        # `adaptiveObjNet`: series -> states -> masked distances -> kernel -> stride / deletion),
        # the rest through the round-5 request on the state vectors
        obj_level = c % 4 != 0
        ctx.count("adaptive-ties via " + ("rpx/rnx (object level)" if obj_level else "adaptsn"))
        if obj_level:
            reqs.append((f"rnx 0 {metric} {int(mv)} 0" if net else f"rpx {metric} {int(mv)} 0")
                        + f" {enc_emb(emb)} a:{kA} - {sntxt} {enc_vmat(ts)}")
        else:
            reqs.append(f"adaptsn {'0' if net else 'p'} {metric} {int(mv)} {enc_emb(emb)} {kA} - "
                        f"{sntxt} {enc_vmat(ts)}")
        impl.append(f"N={int(obj.N)} A={enc_bmat(obj.adjacency)}" if net else
                    f"N={int(obj.N)} M={int(obj.N)} R={enc_bmat(R)}")
        ctx.count("adaptive-ties object in correspondence")
        if net and nC < n_st:
            continue      # setters of a network with deleted states: known finding (shared N)
        # the setter on the same object with a caller-chosen processing order
        kB = rng.randrange(0, n_st + 2) if n_st <= 24 else rng.randrange(0, 5)
        order = list(range(n_st))
        rng.shuffle(order)
        try:
            obj.set_adaptive_neighborhood_size(kB, order=np.array(order, dtype=np.int64))
            R2 = np.asarray(obj.recurrence_matrix())
            got = (f"N={int(obj.N)} A={enc_bmat(obj.adjacency)}" if net else
                   f"N={int(obj.N)} M={int(obj.N)} R={enc_bmat(R2)}")
            exp = np.array(ref_adaptive(D, kB, order, nb=sn.tolist()), dtype=int).reshape(n_st, n_st)
            exp[miss, :] = 0
            exp[:, miss] = 0
            if R2.tolist() != exp.tolist():
                ctx.fail(dict(sig, issue="order"),
                         f"{cls}.set_adaptive_neighborhood_size({kB}, order={order}) is not the "
                         "documented construction for that processing order (tied distances, "
                         f"missing_values={mv})",
                         dict(replay, setter_arg=kB, order=order, R=enc_bmat(R2)))
        except Exception as ex:  # noqa
            got = exc_name(ex)
            ctx.fail(dict(sig, error=type(ex).__name__, step="setter"),
                     f"{cls}.set_adaptive_neighborhood_size({kB}, order=permutation) raised "
                     f"{type(ex).__name__}: {ex}", dict(replay, setter_arg=kB, order=order))
        if not (net and got.startswith("raise")):
            if obj_level:
                reqs.append((f"rnx 1 {metric} {int(mv)} 0" if net else f"rpx {metric} {int(mv)} 0")
                            + f" {enc_emb(emb)} a:{kB} {','.join(map(str, order))} {sntxt} "
                              f"{enc_vmat(ts)}")
            else:
                reqs.append(f"adaptsn {'1' if net else 'p'} {metric} {int(mv)} {enc_emb(emb)} {kB} "
                            f"{','.join(map(str, order))} {sntxt} {enc_vmat(ts)}")
            impl.append(got)

    # ------------------------------------------------------------------
    # 4. CrossRecurrencePlot
    # ------------------------------------------------------------------
    for c in range(100 * scale):
        n, m = gen_len(rng, quick), gen_len(rng, quick)
        emb = gen_emb(rng, 0.4)
        d = 1 if emb is not None else rng.choice([1, 1, 2, 3])
        metric = rng.choice(METRICS)
        x, y = gen_series(rng, n, d), gen_series(rng, m, d)
        kind = rng.choice("ttr")
        spec = (kind, gen_eps(rng) if kind == "t" else gen_rate(rng))
        kw = dict(metric=metric, silence_level=3)
        if emb:
            kw.update(dim=emb[0], tau=emb[1])
        kw["threshold" if kind == "t" else "recurrence_rate"] = float(spec[1])
        replay = dict(cls="CrossRecurrencePlot", x=x.tolist(), y=y.tolist(), kwargs=kw)
        req = f"crp {metric} {enc_emb(emb)} {enc_spec(spec)} {enc_vmat(x)} {enc_vmat(y)}"
        reqs.append(req)
        ctx.count(f"CrossRecurrencePlot:{kind}:{metric}" + (":emb" if emb else ""))
        sx, sy = q_states(x, emb), q_states(y, emb)
        try:
            obj = CrossRecurrencePlot(caller_array(rng, x), caller_array(rng, y), **kw)
        except Exception as ex:  # noqa
            impl.append(exc_name(ex))
            ctx.case((req,), False)
            if len(sx) >= 1 and len(sy) >= 1 and n - ((emb[0] - 1) * emb[1] if emb else 0) >= 0 \
                    and m - ((emb[0] - 1) * emb[1] if emb else 0) >= 0:
                ctx.fail(dict(kind="construct", cls="CrossRecurrencePlot", spec=kind,
                              error=type(ex).__name__),
                         f"CrossRecurrencePlot could not be built ({type(ex).__name__}: {ex})", replay)
            continue
        CR = np.asarray(obj.recurrence_matrix())
        impl.append(f"N={int(obj.N)} M={int(obj.M)} R={enc_bmat(CR)}")
        ctx.case((req,), nontrivial(CR))
        sig = dict(kind="matrix", cls="CrossRecurrencePlot", spec=kind, metric=metric,
                   embedded=emb is not None)
        if CR.shape != (len(sx), len(sy)) or (int(obj.N), int(obj.M)) != (len(sx), len(sy)):
            if len(sx) and len(sy):
                ctx.fail(dict(sig, issue="shape"),
                         f"cross plot shape {CR.shape}, N={obj.N}, M={obj.M} for {len(sx)} x {len(sy)} states",
                         replay)
            continue
        if kind == "t":
            exp = q_matrix(metric, sx, sy, spec[1])
        else:
            exp, _, _ = q_rate_matrix(q_dists(metric, sx, sy), spec[1])
        if CR.tolist() != exp:
            ctx.fail(dict(sig, issue="entries"), "cross recurrence matrix differs from the definition",
                     dict(replay, expected=enc_bmat(exp), observed=enc_bmat(CR)))
        # history on the same object: a trajectory is replaced through its property setter and
        # the plot re-thresholded (the distance matrices are cached per embedding state)
        if len(sx) >= 1 and len(sy) >= 1 and rng.random() < 0.6:
            dimc = len(sx[0])
            which = rng.choice("xy")
            new = gen_series(rng, gen_len(rng, quick), dimc)
            kind2 = rng.choice("tr")
            spec2 = (kind2, gen_eps(rng) if kind2 == "t" else gen_rate(rng))
            ctx.count(f"CrossRecurrencePlot:replace-{which}-trajectory:{kind2}")
            rep2 = dict(replay, replaced=which, new_trajectory=new.tolist(),
                        setter=SETTER_CRP[kind2], setter_arg=float(spec2[1]))
            X2, Y2 = (new, rows_to_array(sy)) if which == "x" else (rows_to_array(sx), new)
            try:
                obj.distance_matrix(metric)          # make sure the old matrix is in the cache
                setattr(obj, which + "_embedded", caller_array(rng, new))
                getattr(obj, SETTER_CRP[kind2])(float(spec2[1]))
                CR2 = np.asarray(obj.recurrence_matrix())
                reqs.append(f"crp {metric} - {enc_spec(spec2)} {enc_vmat(X2)} {enc_vmat(Y2)}")
                impl.append(f"N={int(obj.N)} M={int(obj.M)} R={enc_bmat(CR2)}")
                s2x, s2y = q_states(X2, None), q_states(Y2, None)
                exp2 = (q_matrix(metric, s2x, s2y, spec2[1]) if kind2 == "t"
                        else q_rate_matrix(q_dists(metric, s2x, s2y), spec2[1])[0])
                if CR2.shape != (len(s2x), len(s2y)) or CR2.tolist() != exp2:
                    ctx.fail(dict(sig, issue="entries", step="trajectory-replaced"),
                             f"CrossRecurrencePlot: after replacing {which}_embedded and "
                             f"{SETTER_CRP[kind2]} the matrix is not the thresholded cross distance "
                             "matrix of the current trajectories",
                             dict(rep2, expected=enc_bmat(exp2), observed=enc_bmat(CR2)))
                CR = CR2
            except Exception as ex:  # noqa
                ctx.fail(dict(sig, issue="raises", step="trajectory-replaced",
                              error=type(ex).__name__),
                         f"CrossRecurrencePlot: replacing {which}_embedded + {SETTER_CRP[kind2]} raised "
                         f"{type(ex).__name__}: {ex}", rep2)
                continue
        if CR.size:
            try:
                rr = obj.recurrence_rate()
                if abs(rr - CR.sum() / CR.size) > 1e-12:
                    ctx.fail(dict(kind="rqa", cls="CrossRecurrencePlot", method="recurrence_rate",
                                  error="value"), "cross recurrence rate wrong", replay)
                with np.errstate(all="ignore"):
                    obj.balance()
            except Exception as ex:  # noqa
                ctx.fail(dict(kind="rqa", cls="CrossRecurrencePlot", method="recurrence_rate",
                              error=type(ex).__name__), f"raised {ex}", replay)

    # ------------------------------------------------------------------
    # 5. JointRecurrencePlot / JointRecurrenceNetwork
    # ------------------------------------------------------------------
    lags = list(range(-4, 5))
    for c in range(150 * scale):
        n = gen_len(rng, quick)
        lag = lags[c % 9] if c < 90 else rng.choice([-n - 1, -n, -n + 1, n - 1, n, n + 1, 0, 1, -1])
        embx = gen_emb(rng, 0.3)
        emby = gen_emb(rng, 0.5) if embx else None
        dx = 1 if embx else rng.choice([1, 2])
        dy = 1 if embx else rng.choice([1, 2])
        mx, my = rng.choice(METRICS), rng.choice(METRICS)
        x, y = gen_series(rng, n, dx), gen_series(rng, n, dy)
        kind = rng.choice("ttr")
        sx_ = (kind, gen_eps(rng) if kind == "t" else gen_rate(rng))
        sy_ = (kind, gen_eps(rng) if kind == "t" else gen_rate(rng))
        if emby is None and embx is not None:
            emby = embx
        kw = dict(metric=(mx, my), lag=lag, silence_level=3)
        if embx:
            kw.update(dim=(embx[0], emby[0]), tau=(embx[1], emby[1]))
        kw["threshold" if kind == "t" else "recurrence_rate"] = (float(sx_[1]), float(sy_[1]))
        net = rng.random() < 0.4
        cls = "JointRecurrenceNetwork" if net else "JointRecurrencePlot"
        replay = dict(cls=cls, x=x.tolist(), y=y.tolist(), kwargs=kw)
        req = (f"jrp {mx} {my} {lag} {enc_emb(embx)} {enc_emb(emby)} {enc_spec(sx_)} {enc_spec(sy_)} "
               f"{enc_vmat(x)} {enc_vmat(y)}")
        stx, sty = q_states(x, embx), q_states(y, emby)
        N = min(len(stx), len(sty))
        stx, sty = stx[:N], sty[:N]
        lensok = (n - ((embx[0] - 1) * embx[1] if embx else 0) >= 0 and
                  n - ((emby[0] - 1) * emby[1] if emby else 0) >= 0)
        ctx.count(f"{cls}:{kind}:lag{'0' if lag == 0 else ('+' if lag > 0 else '-')}" +
                  (":emb" if embx else ""))
        sig = dict(cls=cls, spec=kind, lag_nonzero=lag != 0, embedded=embx is not None)
        # |lag| beyond the number of state vectors is only reachable with embedding
        # (the guard compares with the raw length); nothing is claimed or modelled there
        in_corr = (not net) and abs(lag) <= N
        try:
            obj = (JointRecurrenceNetwork if net else JointRecurrencePlot)(
                caller_array(rng, x), caller_array(rng, y), **kw)
        except Exception as ex:  # noqa
            if in_corr:
                reqs.append(req)
                impl.append(exc_name(ex))
            ctx.case((req, net), False)
            if lensok and N >= 1 and abs(lag) < N:
                ctx.fail(dict(sig, kind="construct", error=type(ex).__name__,
                              nodes=("<=1" if N - abs(lag) <= 1 else ">=2") if net else None),
                         f"{cls}(lag={lag}) could not be built ({type(ex).__name__}: {ex}) "
                         f"for {N} state vectors", replay)
            continue
        JR = np.asarray(obj.recurrence_matrix())
        if in_corr:
            reqs.append(req)
            impl.append(f"N={int(obj.N)} M={int(obj.N)} R={enc_bmat(JR)}")
        ctx.case((req, net), nontrivial(JR))
        if abs(lag) > N:
            continue        # only reachable with embedding; nothing is claimed there
        side = N - abs(lag)
        if kind == "t":
            Rx = q_matrix(mx, stx, stx, sx_[1])
            Ry = q_matrix(my, sty, sty, sy_[1])
        else:
            if N == 0:
                continue
            Rx, _, _ = q_rate_matrix(q_dists(mx, stx, stx), sx_[1])
            Ry, _, _ = q_rate_matrix(q_dists(my, sty, sty), sy_[1])
        ox, oy = (0, lag) if lag >= 0 else (-lag, 0)
        exp = [[Rx[i + ox][j + ox] & Ry[i + oy][j + oy] for j in range(side)] for i in range(side)]
        if JR.shape != (side, side) or JR.tolist() != exp:
            if side > 0 or JR.size:
                ctx.fail(dict(sig, kind="matrix", issue="entries"),
                         f"{cls}(lag={lag}): JR differs from Rx[i,j] * Ry[i+lag,j+lag]",
                         dict(replay, expected=enc_bmat(exp), observed=enc_bmat(JR)))
            continue
        if int(obj.N) != side and not net:
            ctx.fail(dict(sig, kind="size", issue="N"),
                     f"{cls}(lag={lag}): N = {int(obj.N)} but the joint recurrence matrix has side {side}",
                     dict(replay, N=int(obj.N), side=side))
        if net:
            A = np.asarray(obj.adjacency)
            e = JR.copy()
            np.fill_diagonal(e, 0)
            if A.shape != e.shape or not np.array_equal(A, e):
                ctx.fail(dict(sig, kind="network", issue="adjacency", method="__init__"),
                         f"{cls}(lag={lag}): adjacency is not JR without its diagonal",
                         dict(replay, expected=enc_bmat(e), observed=enc_bmat(A)))
            # the setters rebuild plot and network
            try:
                if kind == "t":
                    obj.set_fixed_threshold((float(sy_[1]), float(sx_[1])))
                    Rx2 = q_matrix(mx, stx, stx, sy_[1])
                    Ry2 = q_matrix(my, sty, sty, sx_[1])
                else:
                    obj.set_fixed_recurrence_rate((float(sy_[1]), float(sx_[1])))
                    Rx2, _, _ = q_rate_matrix(q_dists(mx, stx, stx), sy_[1])
                    Ry2, _, _ = q_rate_matrix(q_dists(my, sty, sty), sx_[1])
                e2 = np.array([[Rx2[i + ox][j + ox] & Ry2[i + oy][j + oy] if i != j else 0
                                for j in range(side)] for i in range(side)]).reshape(side, side)
                A2 = np.asarray(obj.adjacency)
                if A2.shape != e2.shape or not np.array_equal(A2, e2):
                    ctx.fail(dict(sig, kind="network", issue="adjacency", method="setter"),
                             f"{cls}(lag={lag}).set_fixed_*: adjacency is not the new JR without its diagonal",
                             dict(replay, setter_args=[float(sy_[1]), float(sx_[1])],
                                  expected=enc_bmat(e2), observed=enc_bmat(A2)))
                JR = np.asarray(obj.recurrence_matrix())
            except Exception as ex:  # noqa
                ctx.fail(dict(sig, kind="network", issue="setter-raises", error=type(ex).__name__),
                         f"{cls}(lag={lag}).set_fixed_* raised {type(ex).__name__}: {ex}", replay)
                continue
        if side > 0:
            check_rqa(ctx, obj, JR, cls, dict(lag_nonzero=lag != 0), replay)

    # ------------------------------------------------------------------
    # 6. InterSystemRecurrenceNetwork
    # ------------------------------------------------------------------
    for c in range(70 * scale):
        n, m = gen_len(rng, quick), gen_len(rng, quick)
        emb = gen_emb(rng, 0.35)
        d = 1 if emb is not None else rng.choice([1, 1, 2])
        taus = (emb[1], rng.choice([1, 2])) if emb else None
        metric = rng.choice(METRICS)
        x, y = gen_series(rng, n, d), gen_series(rng, m, d)
        kind = rng.choice("ttr")
        specs = [(kind, gen_eps(rng) if kind == "t" else gen_rate(rng)) for _ in range(3)]
        kw = dict(metric=metric, silence_level=3)
        if emb:
            kw.update(dim=emb[0], tau=taus)
        kw["threshold" if kind == "t" else "recurrence_rate"] = tuple(float(s[1]) for s in specs)
        replay = dict(cls="InterSystemRecurrenceNetwork", x=x.tolist(), y=y.tolist(), kwargs=kw)
        req = (f"isrn {metric} {enc_emb(emb)} {'-' if not taus else f'{taus[0]},{taus[1]}'} "
               + " ".join(enc_spec(s) for s in specs) + f" {enc_vmat(x)} {enc_vmat(y)}")
        ex_, ey_ = ((emb[0], taus[0]), (emb[0], taus[1])) if emb else (None, None)
        sx, sy = q_states(x, ex_), q_states(y, ey_)
        lensok = (not emb) or (n - (emb[0] - 1) * taus[0] >= 1 and m - (emb[0] - 1) * taus[1] >= 1)
        if not lensok:
            continue          # no state vectors on one side: nothing is claimed
        reqs.append(req)
        ctx.count(f"InterSystemRecurrenceNetwork:{kind}" + (":emb" if emb else ""))
        sig = dict(cls="InterSystemRecurrenceNetwork", spec=kind,
                   embedded=bool(emb and emb[0] > 1))
        try:
            obj = InterSystemRecurrenceNetwork(caller_array(rng, x), caller_array(rng, y), **kw)
        except Exception as ex:  # noqa
            impl.append(exc_name(ex))
            ctx.case((req,), False)
            if lensok:
                ctx.fail(dict(sig, kind="construct", error=type(ex).__name__),
                         f"InterSystemRecurrenceNetwork could not be built ({type(ex).__name__}: {ex}) "
                         f"for {len(sx)} + {len(sy)} state vectors", replay)
            continue
        A = np.asarray(obj.adjacency)
        impl.append(f"N={int(obj.N)} A={enc_bmat(A)}")
        ctx.case((req,), nontrivial(A))
        nx, ny = len(sx), len(sy)

        def blocks(sp):
            if kind == "t":
                return (q_matrix(metric, sx, sx, sp[0][1]), q_matrix(metric, sy, sy, sp[1][1]),
                        q_matrix(metric, sx, sy, sp[2][1]))
            return (q_rate_matrix(q_dists(metric, sx, sx), sp[0][1])[0],
                    q_rate_matrix(q_dists(metric, sy, sy), sp[1][1])[0],
                    q_rate_matrix(q_dists(metric, sx, sy), sp[2][1])[0])

        def assemble(bx, by, bc):
            E = np.zeros((nx + ny, nx + ny), dtype=int)
            E[:nx, :nx] = np.array(bx).reshape(nx, nx)
            E[nx:, nx:] = np.array(by).reshape(ny, ny)
            E[:nx, nx:] = np.array(bc).reshape(nx, ny)
            E[nx:, :nx] = np.array(bc).reshape(nx, ny).T
            np.fill_diagonal(E, 0)
            return E
        E = assemble(*blocks(specs))
        if A.shape != E.shape or not np.array_equal(A, E) or int(obj.N) != nx + ny \
                or (int(obj.N_x), int(obj.N_y)) != (nx, ny):
            ctx.fail(dict(sig, kind="matrix", issue="blocks"),
                     "inter-system adjacency is not [[Rx, CRxy], [CRxy^T, Ry]] without diagonal",
                     dict(replay, expected=enc_bmat(E), observed=enc_bmat(A)))
            continue
        try:
            with np.errstate(all="ignore"):
                obj.internal_recurrence_rates()
                obj.cross_recurrence_rate()
                obj.cross_global_clustering_xy()
                obj.cross_global_clustering_yx()
                obj.cross_transitivity_xy()
                obj.cross_transitivity_yx()
                irr = obj.internal_recurrence_rates()
            bx, by, bc = blocks(specs)
            if abs(irr[0] - np.sum(bx) / nx ** 2) > 1e-12 or abs(irr[1] - np.sum(by) / ny ** 2) > 1e-12 \
                    or abs(obj.cross_recurrence_rate() - np.sum(bc) / (nx * ny)) > 1e-12:
                ctx.fail(dict(sig, kind="rqa", method="recurrence_rates", error="value"),
                         "inter-system recurrence rates differ from the block densities", replay)
        except Exception as ex:  # noqa
            ctx.fail(dict(sig, kind="rqa", method="quantification", error=type(ex).__name__),
                     f"inter-system quantification raised {type(ex).__name__}: {ex}", replay)
        # the setters: the network must follow the new sub-plots
        specs2 = [specs[1], specs[0], specs[2]]
        try:
            if kind == "t":
                obj.set_fixed_threshold(tuple(float(s[1]) for s in specs2))
            else:
                obj.set_fixed_recurrence_rate(tuple(float(s[1]) for s in specs2))
            E2 = assemble(*blocks(specs2))
            if not np.array_equal(np.asarray(obj.adjacency), E2):
                ctx.fail(dict(sig, kind="network", issue="adjacency", method="setter"),
                         "InterSystemRecurrenceNetwork.set_fixed_*: adjacency does not follow the new sub-plots",
                         dict(replay, setter_args=[float(s[1]) for s in specs2],
                              expected=enc_bmat(E2), observed=enc_bmat(obj.adjacency)))
        except Exception as ex:  # noqa
            ctx.fail(dict(sig, kind="network", issue="setter-raises", error=type(ex).__name__),
                     f"set_fixed_* raised {type(ex).__name__}: {ex}", replay)

    # ------------------------------------------------------------------
    # 6b. threshold_std, normalize, adaptive objects with processing order, histories of
    #     setters on one object, public distance / quantile wrappers, caller dtypes
    # ------------------------------------------------------------------
    def states_after(ts, norm, emb):
        """state vectors (Fractions) of the stored series; None = irrational std"""
        if norm:
            rows = q_normalize(ts)
            if rows is None:
                return None, None
        else:
            rows = q_states(ts, None)
        if emb is None:
            return rows, rows
        # embed the exact rows (no float round trip: ties must stay ties)
        dim, tau = emb
        col = [r[0] for r in rows]
        n_ = len(col) - (dim - 1) * tau
        return rows, [[col[k + j * tau] for j in range(dim)] for k in range(max(n_, 0))]

    def exact_R(metric, rows, st, spec):
        """the statement for spec kinds t / s / r / l on complete data (matrix of 0/1)"""
        D = q_dists(metric, st, st)
        n = len(st)
        if spec[0] == "t":
            return q_matrix(metric, st, st, spec[1])
        if spec[0] == "s":
            var = q_var([v for r in rows for v in r])
            return [[int(q_lt_std(metric, D[i][j], spec[1], var)) for j in range(n)]
                    for i in range(n)]
        if spec[0] == "r":
            return q_rate_matrix(D, spec[1])[0]
        if spec[0] == "l":
            k = math.floor(spec[1] * (n - 1))
            return [[int(v < sorted(D[i])[k]) for v in D[i]] for i in range(n)]
        return None

    def rows_distinct(metric, st):
        D = q_dists(metric, st, st)
        return all(len(set(r)) == len(r) for r in D)

    def margin_ok(metric, rows, st, spec, exact, inexact=False):
        """are all float decisions of this request safely away from a tie?  (exact data:
        ties are decided identically in IEEE and in Q, nothing to exclude)"""
        if exact:
            return True
        D = q_dists(metric, st, st)
        if spec[0] in "rla":
            # raw half-integer data: distances are exact; after an inexact normalisation
            # distances that tie in Q may be separated by rounding
            if not inexact:
                return True
            n_ = len(st)
            if spec[0] == "r":
                up = [D[i][j] for i in range(n_) for j in range(i)]
                return len(set(up)) == len(up) and all(v != 0 for v in up)
            return all(len(set(r)) == len(r) for r in D)
        if spec[0] == "s":
            var = q_var([v for r in rows for v in r])
            if var is None:
                return True
            thr = float(spec[1]) * math.sqrt(float(var))
        else:
            thr = float(spec[1])
        for r in D:
            for d in r:
                if d is None:
                    continue
                dv = math.sqrt(float(d)) if metric == "euclidean" else float(d)
                if abs(dv - thr) <= 1e-4 * max(1.0, abs(thr)):
                    return False
        return True

    SETTER = {"t": "set_fixed_threshold", "s": "set_fixed_threshold_std",
              "r": "set_fixed_recurrence_rate", "l": "set_fixed_local_recurrence_rate",
              "a": "set_adaptive_neighborhood_size"}
    KW = {"t": "threshold", "s": "threshold_std", "r": "recurrence_rate",
          "l": "local_recurrence_rate", "a": "adaptive_neighborhood_size"}

    def gen_spec(kind, n_states):
        if kind == "t":
            return ("t", gen_eps(rng))
        if kind == "s":
            r = rng.random()
            return ("s", Fr(0) if r < 0.05 else Fr(-1, 2) if r < 0.08 else Fr(rng.randrange(1, 13), 4))
        if kind in "rl":
            return (kind, gen_rate(rng))
        return ("a", Fr(rng.randrange(0, max(n_states, 1))))

    def enc_spec_x(spec):
        return f"a:{int(spec[1])}" if spec[0] == "a" else enc_spec(spec)

    def spec_arg(spec):
        return int(spec[1]) if spec[0] == "a" else float(spec[1])

    for c in range(170 * scale):
        n = gen_len(rng, quick)
        metric = rng.choice(METRICS)
        norm = rng.random() < 0.45
        exact = rng.random() < 0.75
        emb = gen_emb(rng, 0.4)
        d = 1 if emb is not None else rng.choice([1, 1, 2])
        if exact:
            ts = gen_exact_std(rng, n, d, wide=True)
        else:
            ts = gen_series(rng, n, d, span=rng.choice([2, 4, 6]))
        mv = rng.random() < 0.15
        if mv and not norm:
            for i in range(n):
                if rng.random() < 0.15:
                    ts[i, rng.randrange(d)] = np.nan
        net = rng.random() < 0.45 and not mv
        cls = "RecurrenceNetwork" if net else "RecurrencePlot"
        rows, st = states_after(ts, norm, emb)
        if rows is None:
            # irrational std: the exact model declines (and must say so); the float stream
            # below covers these inputs with a margin
            reqs.append(f"normalize {enc_vmat(ts)}")
            impl.append("outside-model")
            ctx.count("normalize:irrational-std (model declines)")
            continue
        n_st = len(st)
        if emb is not None and n - (emb[0] - 1) * emb[1] < 1:
            continue
        if net and n_st <= 1:
            continue
        complete = not any(has_missing(st))
        # the history: constructor + up to three setters on the same object
        # (round 5c: adaptive objects also on incomplete data — `missing_values=True` with NaN —
        #  through `adaptiveObjPlot` with NumPy's table; rounds 1–5 built them only on complete data)
        kinds = "tsrla"
        hist = [gen_spec(rng.choice(kinds if not norm else "ttsrla"), n_st)
                for _ in range(rng.choice([1, 2, 3, 4]))]
        arr = caller_array(rng, ts if d > 1 or rng.random() < 0.5 else ts[:, 0])
        arr0 = arr.copy()
        obj = None
        for step, spec in enumerate(hist):
            order = None
            if spec[0] == "a" and step > 0 and rng.random() < 0.6:
                order = list(range(n_st))
                rng.shuffle(order)
            kw = dict(metric=metric, normalize=norm, missing_values=mv, silence_level=3)
            if emb is not None:
                kw.update(dim=emb[0], tau=emb[1])
            replay = dict(cls=cls, time_series=ts.tolist(), dtype=str(arr.dtype), kwargs=dict(kw),
                          history=[(SETTER[h[0]], spec_arg(h)) for h in hist[:step + 1]],
                          order=order)
            sig = dict(kind="matrix", cls=cls, spec=spec[0], metric=metric, normalize=norm,
                       missing_values=mv, step="init" if step == 0 else "setter",
                       embedded=emb is not None)
            ctx.count(f"x:{cls}:{'init' if step == 0 else 'setter'}:{spec[0]}"
                      + (":norm" if norm else "") + (":exact" if exact else ""))
            try:
                with np.errstate(all="ignore"):
                    if step == 0:
                        kw[KW[spec[0]]] = spec_arg(spec)
                        obj = (RecurrenceNetwork if net else RecurrencePlot)(arr, **kw)
                    elif order is not None:
                        obj.set_adaptive_neighborhood_size(spec_arg(spec),
                                                           order=np.array(order, dtype=np.int64))
                    else:
                        getattr(obj, SETTER[spec[0]])(spec_arg(spec))
            except Exception as ex:  # noqa
                ctx.fail(dict(sig, issue="raises", error=type(ex).__name__),
                         f"{cls}: {SETTER[spec[0]] if step else '__init__'}({spec_arg(spec)}) raised "
                         f"{type(ex).__name__}: {ex} for {n_st} state vectors", replay)
                break
            R = np.asarray(obj.recurrence_matrix())
            ctx.case(("x", cls, metric, norm, mv, emb, arr0.tobytes().hex(), str(hist[:step + 1]),
                      str(order)), nontrivial(R))
            if not np.array_equal(arr, arr0, equal_nan=True) or arr.shape != arr0.shape:
                ctx.fail(dict(sig, issue="caller-array-modified"),
                         f"{cls} modified the caller's array", replay)
                break
            # correspondence (rows with tied distances: argsort order unspecified)
            # (round 5c: adaptive requests carry the table NumPy produced for this object, so
            #  tied rows and states with missing values stay in the correspondence; after an
            #  inexact normalisation `margin_ok` still asks for distinct distances)
            in_corr = margin_ok(metric, rows, st, spec, exact, norm)
            if in_corr and spec[0] == "a":
                ordtxt = "-" if order is None else ",".join(map(str, order))
                sntxt = enc_table(numpy_table(obj, has_missing(st) if mv else None))
                ctx.count("x:adaptive object in correspondence"
                          + (":tied rows" if not (complete and rows_distinct(metric, st)) else "")
                          + (":missing states" if not complete else "")
                          + (":norm" if norm else "") + (":emb" if emb else ""))
                if net:
                    reqs.append(f"rnx {int(step > 0)} {metric} {int(mv)} {int(norm)} {enc_emb(emb)} "
                                f"{enc_spec_x(spec)} {ordtxt} {sntxt} {enc_vmat(ts)}")
                    impl.append(f"N={int(obj.N)} A={enc_bmat(obj.adjacency)}")
                else:
                    reqs.append(f"rpx {metric} {int(mv)} {int(norm)} {enc_emb(emb)} "
                                f"{enc_spec_x(spec)} {ordtxt} {sntxt} {enc_vmat(ts)}")
                    impl.append(f"N={int(obj.N)} M={int(obj.N)} R={enc_bmat(R)}")
            elif in_corr:
                ordtxt = "-" if order is None else ",".join(map(str, order))
                if net:
                    reqs.append(f"rnx {int(step > 0)} {metric} {int(norm)} {enc_emb(emb)} "
                                f"{enc_spec_x(spec)} {ordtxt} {enc_vmat(ts)}")
                    impl.append(f"N={int(obj.N)} A={enc_bmat(obj.adjacency)}")
                else:
                    reqs.append(f"rpx {metric} {int(mv)} {int(norm)} {enc_emb(emb)} "
                                f"{enc_spec_x(spec)} {ordtxt} {enc_vmat(ts)}")
                    impl.append(f"N={int(obj.N)} M={int(obj.N)} R={enc_bmat(R)}")
            # oracle
            if R.shape != (n_st, n_st) or int(obj.N) != n_st:
                ctx.fail(dict(sig, issue="shape"),
                         f"{cls}: matrix {R.shape}, N={obj.N}, {n_st} state vectors", replay)
                break
            miss = has_missing(st)
            if mv and any(miss):
                for i in range(n_st):
                    if miss[i] and (R[i, :].any() or R[:, i].any()):
                        ctx.fail(dict(sig, issue="missing-recurrent"),
                                 f"{cls}({spec[0]}): state {i} holds a missing value but is recurrent",
                                 dict(replay, state=i))
                        break
            if complete and spec[0] != "a" and margin_ok(metric, rows, st, spec, exact, norm):
                exp = exact_R(metric, rows, st, spec)
                if R.tolist() != exp:
                    ctx.fail(dict(sig, issue="entries"),
                             f"{cls} step {step} ({SETTER[spec[0]]}={spec_arg(spec)}): recurrence matrix "
                             "differs from the thresholded distance matrix of the stored series",
                             dict(replay, expected=enc_bmat(exp), observed=enc_bmat(R)))
                    break
            if not complete and spec[0] == "a" and not np.array_equal(R, R.T):
                ctx.fail(dict(kind="adaptive", cls=cls, issue="symmetry", missing_values=mv),
                         f"{cls}.set_adaptive_neighborhood_size({int(spec[1])}, order={order}) with "
                         "missing values: asymmetric matrix", dict(replay, R=enc_bmat(R)))
                break
            if complete and spec[0] == "a":
                kA = int(spec[1])
                neigh = R.sum(axis=1) - np.diag(R)
                if not np.array_equal(R, R.T) or (kA <= n_st - 1 and (neigh < kA).any()):
                    ctx.fail(dict(kind="adaptive", cls=cls, issue="count-or-symmetry"),
                             f"{cls}.set_adaptive_neighborhood_size({kA}, order={order}): asymmetric or "
                             f"a state with fewer than {kA} neighbours", dict(replay, R=enc_bmat(R)))
                    break
            if net:
                e2 = R.copy()
                np.fill_diagonal(e2, 0)
                A2 = np.asarray(obj.adjacency)
                if A2.shape != e2.shape or not np.array_equal(A2, e2):
                    ctx.fail(dict(kind="network", cls=cls, issue="adjacency", method=SETTER[spec[0]],
                                  step="init" if step == 0 else "setter"),
                             f"{cls} step {step}: adjacency is not the recurrence matrix without diagonal",
                             dict(replay, expected=enc_bmat(e2), observed=enc_bmat(A2)))
                    break
            if not (mv and any(miss)):
                check_rqa(ctx, obj, R, cls, dict(spec=spec[0], missing=False, step=step), replay)
            # public distance wrappers on the live object (cached between setters)
            if complete and rng.random() < 0.5:
                mm = rng.choice(METRICS)
                ctx.count("x:distance_matrix wrapper")
                with np.errstate(all="ignore"):
                    Dm = np.asarray(obj.distance_matrix(mm) if rng.random() < 0.5
                                    else getattr(obj, f"{mm}_distance_matrix")(), dtype=float)
                De = q_dists(mm, st, st)
                okD = Dm.shape == (n_st, n_st)
                for i in range(n_st if okD else 0):
                    for j in range(n_st):
                        ev = math.sqrt(float(De[i][j])) if mm == "euclidean" else float(De[i][j])
                        if abs(Dm[i, j] - ev) > 1e-5 * max(1.0, abs(ev)):
                            okD = False
                if not okD:
                    ctx.fail(dict(kind="wrapper", cls=cls, method="distance_matrix", metric=mm),
                             f"{cls}.distance_matrix('{mm}') differs from the metric of the state vectors",
                             replay)
                    break

    # threshold_from_recurrence_rate (public static wrapper), 1-D and 2-D, NaN last
    for c in range(30 * scale):
        shape = rng.choice([(rng.randrange(1, 9),), (rng.randrange(1, 5), rng.randrange(1, 5))])
        size = int(np.prod(shape))
        vals = [rng.randrange(0, 12) / 2 for _ in range(size)]
        if rng.random() < 0.2:
            vals[rng.randrange(size)] = float("nan")
        Darr = np.array(vals, dtype=rng.choice([np.float32, np.float64])).reshape(shape)
        rr = gen_rate(rng)
        D0 = Darr.copy()
        t = RecurrencePlot.threshold_from_recurrence_rate(Darr, float(rr))
        reqs.append(f"quantile {enc_fr(rr)} " + ",".join(enc_v(v) for v in vals))
        impl.append(enc_v(t))
        ctx.count("wrapper:threshold_from_recurrence_rate")
        ctx.case(("quantile", str(vals), rr), size > 1)
        fin = sorted(v for v in vals if not math.isnan(v))
        k = math.floor(rr * (size - 1))
        expq = fin[k] if k < len(fin) else float("nan")
        if not ((math.isnan(expq) and math.isnan(float(t))) or float(t) == expq) or \
                not np.array_equal(Darr, D0, equal_nan=True):
            ctx.fail(dict(kind="wrapper", method="threshold_from_recurrence_rate"),
                     f"threshold_from_recurrence_rate = {t}, floor(rr(N-1))-th smallest is {expq} "
                     "(or the distance array was modified)", dict(distance=vals, rr=float(rr)))

    # normalize_time_series at the boundary
    for c in range(30 * scale):
        n = gen_len(rng, quick)
        d = rng.choice([1, 2, 3])
        ts = gen_exact_std(rng, n, d, wide=True)
        if rng.random() < 0.15:
            ts[rng.randrange(n), rng.randrange(d)] = np.nan
        work = ts.astype(np.float32)
        with np.errstate(all="ignore"):
            RecurrencePlot.normalize_time_series(work)
        reqs.append(f"normalize {enc_vmat(ts)}")
        impl.append(enc_vmat(work))
        ctx.count("kernel:normalize")
        ctx.case(("normalize", ts.tobytes().hex()), n > 1)

    # joint plots / networks: threshold_std, normalize, network constructor and setters
    for c in range(70 * scale):
        n = rng.choice([2, 4, 5, 6, 7, 8, 9, 10])
        lag = rng.choice([0, 0, 1, -1, 2, -2, 3, -3])
        norm = rng.random() < 0.4
        embx = gen_emb(rng, 0.3)
        emby = gen_emb(rng, 1.0) if embx else None
        mx, my = rng.choice(METRICS), rng.choice(METRICS)
        x = gen_exact_std(rng, n, 1 if embx else rng.choice([1, 2]), wide=True)
        y = gen_exact_std(rng, n, 1 if embx else rng.choice([1, 2]), wide=True)
        kind = rng.choice("sst" if not norm else "tts")
        sxs, sys_ = gen_spec(kind, n), gen_spec(kind, n)
        net = rng.choice(["p", "n", "n"])
        rowsx, stx = states_after(x, norm, embx)
        rowsy, sty = states_after(y, norm, emby)
        N = min(len(stx), len(sty))
        side = N - abs(lag)
        if side < (2 if net != "p" else 1):
            continue
        stx, sty = stx[:N], sty[:N]
        kw = dict(metric=(mx, my), lag=lag, normalize=norm, silence_level=3)
        if embx:
            kw.update(dim=(embx[0], emby[0]), tau=(embx[1], emby[1]))
        cls = "JointRecurrencePlot" if net == "p" else "JointRecurrenceNetwork"
        ax, ay = caller_array(rng, x), caller_array(rng, y)
        steps = [(sxs, sys_)] + ([(gen_spec(kind, n), gen_spec(kind, n))] if net != "p" else [])
        obj = None
        for step, (s1, s2) in enumerate(steps):
            replay = dict(cls=cls, x=x.tolist(), y=y.tolist(), kwargs=dict(kw),
                          history=[(KW[a[0]], float(a[1]), float(b[1])) for a, b in steps[:step + 1]])
            sig = dict(cls=cls, spec=kind, lag_nonzero=lag != 0, normalize=norm,
                       step="init" if step == 0 else "setter")
            ctx.count(f"x:{cls}:{'init' if step == 0 else 'setter'}:{kind}" + (":norm" if norm else ""))
            try:
                if step == 0:
                    kw2 = dict(kw)
                    kw2[KW[kind]] = (float(s1[1]), float(s2[1]))
                    obj = (JointRecurrencePlot if net == "p" else JointRecurrenceNetwork)(ax, ay, **kw2)
                else:
                    getattr(obj, SETTER[kind])((float(s1[1]), float(s2[1])))
            except Exception as ex:  # noqa
                ctx.fail(dict(sig, kind="construct", error=type(ex).__name__),
                         f"{cls}(lag={lag}, {KW[kind]}) raised {type(ex).__name__}: {ex}", replay)
                break
            JR = np.asarray(obj.recurrence_matrix())
            tag = "p" if net == "p" else ("n" if step == 0 else "s")
            reqs.append(f"jrpx {tag} {mx} {my} {lag} {int(norm)} {enc_emb(embx)} {enc_emb(emby)} "
                        f"{enc_spec(s1)} {enc_spec(s2)} {enc_vmat(x)} {enc_vmat(y)}")
            impl.append(f"N={int(obj.N)} M={int(obj.N)} R={enc_bmat(JR)}" if net == "p" else
                        f"N={int(obj.N)} A={enc_bmat(obj.adjacency)}")
            ctx.case(("jx", tag, mx, my, lag, norm, embx, emby, x.tobytes().hex(), y.tobytes().hex(),
                      str(steps[:step + 1])), nontrivial(JR))
            if kind == "t":
                Rx, Ry = q_matrix(mx, stx, stx, s1[1]), q_matrix(my, sty, sty, s2[1])
            else:
                vx = q_var([v for r in rowsx for v in r])
                vy = q_var([v for r in rowsy for v in r])
                Dx, Dy = q_dists(mx, stx, stx), q_dists(my, sty, sty)
                Rx = [[int(q_lt_std(mx, v, s1[1], vx)) for v in r] for r in Dx]
                Ry = [[int(q_lt_std(my, v, s2[1], vy)) for v in r] for r in Dy]
            ox, oy = (0, lag) if lag >= 0 else (-lag, 0)
            exp = [[Rx[i + ox][j + ox] & Ry[i + oy][j + oy] for j in range(side)] for i in range(side)]
            if JR.shape != (side, side) or JR.tolist() != exp or int(obj.N) != side:
                ctx.fail(dict(sig, kind="matrix", issue="entries"),
                         f"{cls}(lag={lag}, {KW[kind]}) step {step}: JR (N={obj.N}) differs from "
                         "Rx[i,j] * Ry[i+lag,j+lag]",
                         dict(replay, expected=enc_bmat(exp), observed=enc_bmat(JR)))
                break
            if net != "p":
                e2 = JR.copy()
                np.fill_diagonal(e2, 0)
                if not np.array_equal(np.asarray(obj.adjacency), e2):
                    ctx.fail(dict(sig, kind="network", issue="adjacency",
                                  method="__init__" if step == 0 else "setter"),
                             f"{cls}(lag={lag}) step {step}: adjacency is not JR without its diagonal",
                             dict(replay, expected=enc_bmat(e2), observed=enc_bmat(obj.adjacency)))
                    break
            check_rqa(ctx, obj, JR, cls, dict(lag_nonzero=lag != 0, step=step), replay)

    # cross plots and inter-system networks with normalize=True and both float widths
    for c in range(50 * scale):
        n, m = rng.choice([2, 4, 5, 6, 7, 8, 9]), rng.choice([2, 4, 5, 6, 7, 8, 9])
        norm = rng.random() < 0.7
        emb = gen_emb(rng, 0.35)
        d = 1 if emb is not None else rng.choice([1, 1, 2])
        metric = rng.choice(METRICS)
        x, y = gen_exact_std(rng, n, d, wide=True), gen_exact_std(rng, m, d, wide=True)
        isrn = rng.random() < 0.5
        kind = rng.choice("ttr")
        taus = (emb[1], rng.choice([1, 2])) if (emb and isrn) else None
        ex_, ey_ = ((emb[0], taus[0]), (emb[0], taus[1])) if taus else (emb, emb)
        _, sx = states_after(x, norm, ex_)
        _, sy = states_after(y, norm, ey_)
        if len(sx) < 1 or len(sy) < 1:
            continue
        nx, ny = len(sx), len(sy)
        ax, ay = caller_array(rng, x), caller_array(rng, y)
        kw = dict(metric=metric, normalize=norm, silence_level=3)
        if emb:
            kw.update(dim=emb[0], tau=taus if isrn else emb[1])

        def rmat(a, b, sp):
            if kind == "t":
                return q_matrix(metric, a, b, sp[1])
            return q_rate_matrix(q_dists(metric, a, b), sp[1])[0]
        if isrn:
            specs = [gen_spec(kind, 0) for _ in range(3)]
            kw[KW[kind]] = tuple(float(s_[1]) for s_ in specs)
            replay = dict(cls="InterSystemRecurrenceNetwork", x=x.tolist(), y=y.tolist(), kwargs=kw)
            ctx.count(f"x:InterSystemRecurrenceNetwork:{kind}" + (":norm" if norm else ""))
            reqs.append(f"isrnx {metric} {int(norm)} {enc_emb(emb)} "
                        f"{'-' if not taus else f'{taus[0]},{taus[1]}'} "
                        + " ".join(enc_spec(s_) for s_ in specs) + f" {enc_vmat(x)} {enc_vmat(y)}")
            try:
                obj = InterSystemRecurrenceNetwork(ax, ay, **kw)
            except Exception as ex:  # noqa
                impl.append(exc_name(ex))
                ctx.fail(dict(cls="InterSystemRecurrenceNetwork", kind="construct", normalize=norm,
                              error=type(ex).__name__),
                         f"InterSystemRecurrenceNetwork raised {type(ex).__name__}: {ex}", replay)
                continue
            A = np.asarray(obj.adjacency)
            impl.append(f"N={int(obj.N)} A={enc_bmat(A)}")
            ctx.case((reqs[-1],), nontrivial(A))
            E = np.zeros((nx + ny, nx + ny), dtype=int)
            E[:nx, :nx] = np.array(rmat(sx, sx, specs[0])).reshape(nx, nx)
            E[nx:, nx:] = np.array(rmat(sy, sy, specs[1])).reshape(ny, ny)
            E[:nx, nx:] = np.array(rmat(sx, sy, specs[2])).reshape(nx, ny)
            E[nx:, :nx] = E[:nx, nx:].T
            np.fill_diagonal(E, 0)
            if A.shape != E.shape or not np.array_equal(A, E) or int(obj.N) != nx + ny:
                ctx.fail(dict(cls="InterSystemRecurrenceNetwork", kind="matrix", issue="blocks",
                              normalize=norm, spec=kind),
                         "inter-system adjacency is not [[Rx, CRxy], [CRxy^T, Ry]] without diagonal",
                         dict(replay, expected=enc_bmat(E), observed=enc_bmat(A)))
        else:
            sp = gen_spec(kind, 0)
            kw[KW[kind]] = float(sp[1])
            replay = dict(cls="CrossRecurrencePlot", x=x.tolist(), y=y.tolist(), kwargs=kw)
            ctx.count(f"x:CrossRecurrencePlot:{kind}" + (":norm" if norm else ""))
            reqs.append(f"crpx {metric} {int(norm)} {enc_emb(emb)} {enc_spec(sp)} "
                        f"{enc_vmat(x)} {enc_vmat(y)}")
            try:
                obj = CrossRecurrencePlot(ax, ay, **kw)
            except Exception as ex:  # noqa
                impl.append(exc_name(ex))
                ctx.fail(dict(cls="CrossRecurrencePlot", kind="construct", normalize=norm,
                              error=type(ex).__name__),
                         f"CrossRecurrencePlot raised {type(ex).__name__}: {ex}", replay)
                continue
            CR = np.asarray(obj.recurrence_matrix())
            impl.append(f"N={int(obj.N)} M={int(obj.M)} R={enc_bmat(CR)}")
            ctx.case((reqs[-1],), nontrivial(CR))
            exp = rmat(sx, sy, sp)
            if CR.shape != (nx, ny) or CR.tolist() != exp:
                ctx.fail(dict(cls="CrossRecurrencePlot", kind="matrix", issue="entries",
                              normalize=norm, spec=kind),
                         "cross recurrence matrix differs from the definition on the stored series",
                         dict(replay, expected=enc_bmat(exp), observed=enc_bmat(CR)))
            with np.errstate(all="ignore"):
                Dm = np.asarray(obj.distance_matrix(metric), dtype=float)
            De = q_dists(metric, sx, sy)
            if Dm.shape != (nx, ny) or any(
                    abs(Dm[i, j] - (math.sqrt(float(De[i][j])) if metric == "euclidean"
                                    else float(De[i][j]))) > 1e-5 * max(1.0, float(De[i][j]))
                    for i in range(nx) for j in range(ny)):
                ctx.fail(dict(kind="wrapper", cls="CrossRecurrencePlot", method="distance_matrix",
                              metric=metric),
                         "CrossRecurrencePlot.distance_matrix differs from the metric", replay)


    # ------------------------------------------------------------------
    # 6c. round 3: EVERY public (non-setter) method of every class on every construction
    #     (N = 1..3 and larger, lag, embedding, missing values, sparse_rqa): each call must
    #     return or raise the error documented for that situation; the observed outcome is
    #     compared with the model's `outcome` (Model/RecurrenceRqa.lean); recurrence rate /
    #     cross recurrence rate / recurrence probability against the model with the generated
    #     denominators; twins against the row-equality definition (also on the asymmetric
    #     local-rate matrices); sequential RQA against the non-sparse object and the model
    # ------------------------------------------------------------------
    NEED = {}
    for nm_ in ("recurrence_matrix", "balance", "cross_recurrence_rate",
                "inter_system_recurrence_matrix", "internal_recurrence_rates",
                "cross_global_clustering_xy", "cross_global_clustering_yx",
                "cross_transitivity_xy", "cross_transitivity_yx",
                "transitivity_dim_single_scale", "local_clustering_dim_single_scale"):
        NEED[nm_] = "matrix"
    NEED["recurrence_rate"] = "rate"
    NEED["recurrence_probability"] = "diagOf"
    for nm_ in ("diagline_dist", "vertline_dist", "resample_diagline_dist", "resample_vertline_dist",
                "max_diaglength", "determinism", "average_diaglength", "diag_entropy",
                "max_vertlength", "laminarity", "average_vertlength", "trapping_time",
                "vert_entropy", "rqa_summary"):
        NEED[nm_] = "blackLines"
    for nm_ in ("white_vertline_dist", "max_white_vertlength", "average_white_vertlength",
                "mean_recurrence_time", "white_vert_entropy"):
        NEED[nm_] = "whiteLines"
    NEED["twins"] = NEED["twin_surrogates"] = "twins"
    NEED["permutation_entropy"] = NEED["complexity_entropy"] = "ordinal"
    for nm_ in ("distance_matrix", "manhattan_distance_matrix", "euclidean_distance_matrix",
                "supremum_distance_matrix"):
        NEED[nm_] = "distance"
    ARGS = {"distance_matrix": [("supremum",), ("euclidean",), ("manhattan",)],
            "resample_diagline_dist": [(5,)], "resample_vertline_dist": [(5,)],
            "recurrence_probability": [(0,), (1,)], "twins": [(), (0,), (1,)],
            "twin_surrogates": [(), (2, 0)], "determinism": [(), (1,), (3,)],
            "laminarity": [(), (1,)], "average_white_vertlength": [(), (2,)]}

    def public_methods(klass):
        """every public callable defined by the timeseries classes of the MRO that is not a
        setter, static or class method (introspection: a new method is covered unasked)"""
        out = []
        for k in klass.__mro__:
            if not k.__module__.startswith("pyunicorn.timeseries"):
                continue
            for nm, v in vars(k).items():
                if nm.startswith("_") or nm.startswith("set_") or nm in out:
                    continue
                if isinstance(v, (staticmethod, classmethod, property)) or not callable(v):
                    continue
                out.append(nm)
        return out

    def documented(tag, sparse, sup_thr, embedded, nm):
        """the documented errors, by method name (independent of the model's `Need` table):
        returns the set of exception names a call may raise in this situation"""
        allowed = set()
        if nm in ("permutation_entropy", "complexity_entropy") and not (tag in ("rp", "rn") and embedded):
            allowed.add("ValueError")           # "only works for one-dimensional embedded time series"
        if tag == "crp" and (nm.endswith("line_dist") or "diag" in nm or "vert" in nm
                             or nm in ("determinism", "laminarity", "trapping_time", "rqa_summary",
                                       "mean_recurrence_time", "twins", "twin_surrogates")):
            allowed.add("NotImplementedError")  # "not yet available for cross-recurrence plots"
        if sparse and NEED.get(nm) in ("whiteLines", "twins", "diagOf"):
            allowed.add("NotImplementedError")  # the matrix is not stored
        if sparse and not sup_thr and NEED.get(nm) in ("rate", "blackLines"):
            allowed.add("NotImplementedError")  # "only available for fixed threshold and the supremum metric"
        return allowed

    seen_rqa = set()

    seen_rqam = set()

    def enumerate_methods(obj, tag, klass, sparse, sup_thr, embedded, replay, R=None, check_values=True,
                          atoms=None):
        """`atoms` = what the caller asked of the constructor: (sparse_rqa, metric == "supremum",
        threshold given, missing_values, dim given, tau given); round 4: every call is also compared
        with the outcome *derived from the regenerated method bodies* (request `rqam`)"""
        for nm in public_methods(klass):
            for a in ARGS.get(nm, [()]):
                try:
                    with np.errstate(all="ignore"), contextlib.redirect_stdout(io.StringIO()):
                        val = getattr(obj, nm)(*a)
                    got = "ok"
                except Exception as ex:  # noqa
                    got = "raise:" + type(ex).__name__
                    val = None
                    if type(ex).__name__ not in documented(tag, sparse, sup_thr, embedded, nm):
                        ctx.fail(dict(kind="rqa-applicable", cls=tag, method=nm, sparse=sparse,
                                      error=type(ex).__name__),
                                 f"{klass.__name__}.{nm}{a} raised an undocumented "
                                 f"{type(ex).__name__}: {ex}", dict(replay, method=nm, args=list(a)))
                ctx.count(f"rqa-applicable:{tag}" + (":sparse" if sparse else ""))
                need = NEED.get(nm)
                key = (tag, sparse, sup_thr, embedded, need, got)
                if need is not None and key not in seen_rqa:
                    seen_rqa.add(key)
                    reqs.append(f"rqa {tag} {int(sparse)} {int(sup_thr)} {int(embedded)} {need}")
                    impl.append(got)
                if atoms is not None:
                    keym = (klass.__name__, nm, atoms, got)
                    if keym not in seen_rqam:
                        seen_rqam.add(keym)
                        reqs.append(f"rqam {klass.__name__} {nm} " + " ".join(str(int(b)) for b in atoms))
                        impl.append(got if got in ("ok", "raise:NotImplementedError", "raise:ValueError")
                                    else "undocumented:" + got)
                        ctx.count(f"rqa-derived:{tag}" + (":sparse" if sparse else ""))
                if need is None and got != "ok":
                    ctx.fail(dict(kind="rqa-applicable", cls=tag, method=nm, sparse=sparse,
                                  error="unclassified"),
                             f"{klass.__name__}.{nm} (not classified by the check) raised {got}",
                             dict(replay, method=nm))
                if got != "ok" or R is None or not check_values:
                    continue
                Rm = np.asarray(R)
                # values with generated denominators
                if nm == "recurrence_rate" and tag != "crp" and Rm.shape[0] <= 12:
                    reqs.append(f"rr {int(obj.N)} {enc_bmat(Rm)}")
                    impl.append(enc_fr(Fr(int(Rm.sum()), int(obj.N) ** 2))
                                if float(val) == int(Rm.sum()) / int(obj.N) ** 2 else f"float:{val}")
                if nm == "cross_recurrence_rate" and tag == "crp" and Rm.size and Rm.shape[0] <= 12:
                    reqs.append(f"crr {int(obj.N)} {int(obj.M)} {enc_bmat(Rm)}")
                    impl.append(enc_fr(Fr(int(Rm.sum()), int(obj.N) * int(obj.M)))
                                if float(val) == int(Rm.sum()) / (int(obj.N) * int(obj.M))
                                else f"float:{val}")
                if nm == "recurrence_probability" and tag not in ("crp",) and Rm.shape[0] <= 12:
                    lag_ = a[0]
                    reqs.append(f"rprob {int(obj.N)} {lag_} {enc_bmat(Rm)}")
                    dsum = int(np.diag(Rm, lag_).sum())
                    den = int(obj.N) - lag_
                    if den == 0:
                        impl.append("undefined" if not np.isfinite(val) else f"float:{val}")
                    else:
                        impl.append(enc_fr(Fr(dsum, den)) if float(val) == dsum / den else f"float:{val}")
                        if float(val) != dsum / den:
                            ctx.fail(dict(kind="rqa-applicable", cls=tag, method=nm, error="value"),
                                     f"{klass.__name__}.recurrence_probability({lag_}) = {val}: the "
                                     f"{lag_}-th diagonal has {dsum} recurrences out of {den}",
                                     dict(replay, lag=lag_, expected=dsum / den, observed=float(val)))
                if nm == "diagline_dist" and tag != "crp" and 1 <= Rm.shape[0] <= 12 \
                        and Rm.shape[0] == int(obj.N):
                    # round 4: the method as it computes (twice the lines of the lower triangle, with
                    # the missing-value mask) against the model `diaglineDist` — on symmetric
                    # matrices, where the property fixes the value.  On the asymmetric matrices of a
                    # fixed local rate the property does not say which triangle is to be read: the
                    # oracle accepts twice the lower, twice the upper triangle or their sum.
                    mvi = getattr(obj, "missing_value_indices", None) \
                        if getattr(obj, "missing_values", False) else None
                    mask = "none" if mvi is None else ",".join(str(int(b)) for b in mvi)
                    symm = bool(np.array_equal(Rm, Rm.T))
                    ctx.count("diagline_dist:" + ("symmetric" if symm else "asymmetric")
                              + (":mv" if mvi is not None else ""))
                    if symm:
                        reqs.append(f"dline {int(obj.N)} {mask} {enc_bmat(Rm)}")
                        impl.append(",".join(str(int(v)) for v in val) or "-")
                    elif mvi is None:
                        side_ = Rm.shape[0]
                        lo, up = [0] * side_, [0] * side_
                        for k_ in range(1, side_):
                            for r_ in runs_of(np.diag(Rm, -k_)):
                                lo[r_ - 1] += 1
                            for r_ in runs_of(np.diag(Rm, k_)):
                                up[r_ - 1] += 1
                        got_d = [int(v) for v in val]
                        if got_d not in ([2 * a_ for a_ in lo], [2 * a_ for a_ in up],
                                         [a_ + b_ for a_, b_ in zip(lo, up)]):
                            ctx.fail(dict(kind="rqa-applicable", cls=tag, method="diagline_dist",
                                          error="value", symmetric=False),
                                     f"{klass.__name__}.diagline_dist() on an asymmetric matrix is neither "
                                     "the line count of a triangle (doubled) nor of both triangles",
                                     dict(replay, observed=got_d, lower=lo, upper=up))
                if nm == "twins" and tag != "crp":
                    md = a[0] if a else 7
                    Nn = Rm.shape[0]
                    exp_t = [set() for _ in range(Nn)]
                    for j in range(Nn):
                        for k in range(max(j - md, 0)):
                            if int(Rm[j].sum()) != 1 and np.array_equal(Rm[j], Rm[k]):
                                exp_t[j].add(k)
                                exp_t[k].add(j)
                    got_t = [set(int(v) for v in t) for t in list(val)[:Nn]]
                    if got_t != exp_t:
                        ctx.fail(dict(kind="rqa-applicable", cls=tag, method="twins", error="value",
                                      symmetric=bool(np.array_equal(Rm, Rm.T))),
                                 f"{klass.__name__}.twins({md}) is not the list of states with identical "
                                 "rows of the recurrence matrix", dict(replay, min_dist=md,
                                                                       expected=str(exp_t), observed=str(got_t)))

    SPECS5 = (("t", "threshold"), ("s", "threshold_std"), ("r", "recurrence_rate"),
              ("l", "local_recurrence_rate"), ("a", "adaptive_neighborhood_size"))
    sizes = [1, 2, 3, 1, 2, 3, 4, 6] if quick else [1, 2, 3] * 6 + [4, 5, 6, 8, 11]
    for n in sizes:
        for metric in METRICS:
            emb = rng.choice([None, None, (1, 1), (2, 1), (2, 2), (3, 1)])
            n_raw = n + ((emb[0] - 1) * emb[1] if emb else 0)       # n state vectors
            d = 1 if emb else rng.choice([1, 2])
            ekw = dict(dim=emb[0], tau=emb[1]) if emb else {}
            for kind, kwname in SPECS5:
                arg = {"t": float(gen_eps(rng)), "s": rng.choice([0.5, 1.0, 2.0]),
                       "r": float(gen_rate(rng)), "l": float(gen_rate(rng)),
                       "a": rng.randrange(0, max(n, 1))}[kind]
                for mv in (False, True):
                    if kind == "a" and mv:
                        continue
                    ts = gen_series(rng, n_raw, d, nan_p=0.25 if mv else 0, span=rng.choice([2, 4]))
                    has_nan = bool(np.isnan(ts).any())
                    replay = dict(cls="RecurrencePlot", time_series=ts.tolist(),
                                  kwargs=dict(metric=metric, missing_values=mv, **{kwname: arg}, **ekw))
                    # plain
                    try:
                        with np.errstate(all="ignore"):
                            o = RecurrencePlot(caller_array(rng, ts), metric=metric, missing_values=mv,
                                               silence_level=3, **{kwname: arg}, **ekw)
                    except Exception as ex:  # noqa
                        ctx.fail(dict(kind="construct", cls="RecurrencePlot", spec=kind,
                                      error=type(ex).__name__, missing_values=mv),
                                 f"RecurrencePlot({kwname}={arg}) raised {type(ex).__name__}: {ex} "
                                 f"for {n} state vectors", replay)
                        continue
                    Rm = np.asarray(o.recurrence_matrix())
                    ctx.case(("rqa-all", "rp", metric, emb, kind, arg, mv, ts.tobytes().hex()),
                             nontrivial(Rm))
                    at_ = (metric == "supremum", kind == "t", mv, emb is not None, emb is not None)
                    enumerate_methods(o, "rp", RecurrencePlot, False, False, emb is not None, replay,
                                      R=Rm, check_values=not (mv and has_nan), atoms=(False,) + at_)
                    if not (mv and has_nan):
                        check_rqa(ctx, o, Rm, "RecurrencePlot", dict(spec=kind, missing=False,
                                                                    stream="all-methods"), replay)
                    # sequential RQA
                    sup_thr = metric == "supremum" and kind == "t"
                    try:
                        with np.errstate(all="ignore"):
                            osp = RecurrencePlot(caller_array(rng, ts), metric=metric, missing_values=mv,
                                                 sparse_rqa=True, silence_level=3, **{kwname: arg}, **ekw)
                    except Exception as ex:  # noqa
                        ctx.fail(dict(kind="construct", cls="RecurrencePlot", spec=kind, sparse=True,
                                      error=type(ex).__name__),
                                 f"RecurrencePlot(sparse_rqa=True, {kwname}={arg}) raised "
                                 f"{type(ex).__name__}: {ex}", replay)
                        continue
                    rep_s = dict(replay, sparse_rqa=True)
                    enumerate_methods(osp, "rp", RecurrencePlot, True, sup_thr, emb is not None, rep_s,
                                      atoms=(True,) + at_)
                    if sup_thr:
                        ctx.count("sparse_rqa:threshold:supremum" + (":mv" if mv and has_nan else ""))
                        with np.errstate(all="ignore"):
                            pairs = [(nm_, getattr(osp, nm_)(), getattr(o, nm_)())
                                     for nm_ in ("vertline_dist", "diagline_dist", "max_diaglength",
                                                 "max_vertlength", "determinism", "laminarity",
                                                 "average_diaglength", "trapping_time", "diag_entropy",
                                                 "vert_entropy")]
                            if not (mv and has_nan):
                                pairs.append(("recurrence_rate", osp.recurrence_rate(), o.recurrence_rate()))
                        for nm_, gs, gp in pairs:
                            if not np.allclose(np.asarray(gs, dtype=float), np.asarray(gp, dtype=float),
                                               rtol=1e-12, atol=1e-12, equal_nan=True):
                                ctx.fail(dict(kind="sparse", method=nm_, missing=bool(mv and has_nan)),
                                         f"RecurrencePlot(sparse_rqa=True).{nm_}() = {gs} differs from the "
                                         f"object that stores the matrix ({gp})", dict(rep_s, method=nm_))
                                break
                        reqs.append(f"sparse {int(mv)} {enc_emb(emb)} {enc_fr(Fr(arg))} {enc_vmat(ts)}")
                        impl.append(f"N={int(osp.N)} V={','.join(str(int(v)) for v in osp.vertline_dist()) or '-'} "
                                    f"D={','.join(str(int(v) // 2) for v in osp.diagline_dist()) or '-'}")
                    # RecurrenceNetwork (at least two nodes)
                    nodes = n - (int(np.isnan(np.asarray(o.embedding)).any(axis=1).sum()) if mv else 0)
                    if nodes >= 2:
                        try:
                            with np.errstate(all="ignore"):
                                on = RecurrenceNetwork(caller_array(rng, ts), metric=metric,
                                                       missing_values=mv, silence_level=3,
                                                       **{kwname: arg}, **ekw)
                            enumerate_methods(on, "rn", RecurrenceNetwork, False, False, emb is not None,
                                              dict(replay, cls="RecurrenceNetwork"),
                                              R=np.asarray(on.recurrence_matrix()),
                                              check_values=not (mv and has_nan), atoms=(False,) + at_)
                        except Exception as ex:  # noqa
                            ctx.fail(dict(kind="construct", cls="RecurrenceNetwork", spec=kind,
                                          error=type(ex).__name__, missing_values=mv, nodes=">=2"),
                                     f"RecurrenceNetwork({kwname}={arg}) raised {type(ex).__name__}: {ex}",
                                     dict(replay, cls="RecurrenceNetwork"))
            # cross / inter-system / joint
            for kind, kwname in (("t", "threshold"), ("r", "recurrence_rate")):
                m_raw = rng.choice([1, 2, 3, 5]) + ((emb[0] - 1) * emb[1] if emb else 0)
                x, y = gen_series(rng, n_raw, d), gen_series(rng, m_raw, d)
                arg = float(gen_eps(rng)) if kind == "t" else float(gen_rate(rng))
                replay = dict(cls="CrossRecurrencePlot", x=x.tolist(), y=y.tolist(),
                              kwargs=dict(metric=metric, **{kwname: arg}, **ekw))
                try:
                    oc = CrossRecurrencePlot(caller_array(rng, x), caller_array(rng, y), metric=metric,
                                             silence_level=3, **{kwname: arg}, **ekw)
                    at2_ = (False, metric == "supremum", kind == "t", False, emb is not None,
                            emb is not None)
                    enumerate_methods(oc, "crp", CrossRecurrencePlot, False, False, False, replay,
                                      R=np.asarray(oc.recurrence_matrix()), atoms=at2_)
                except Exception as ex:  # noqa
                    ctx.fail(dict(kind="construct", cls="CrossRecurrencePlot", spec=kind,
                                  error=type(ex).__name__),
                             f"CrossRecurrencePlot raised {type(ex).__name__}: {ex}", replay)
                ekw3 = dict(dim=emb[0], tau=(emb[1], emb[1])) if emb else {}
                replay = dict(cls="InterSystemRecurrenceNetwork", x=x.tolist(), y=y.tolist(),
                              kwargs=dict(metric=metric, **{kwname: (arg,) * 3}, **ekw3))
                try:
                    with np.errstate(all="ignore"):
                        oi = InterSystemRecurrenceNetwork(caller_array(rng, x), caller_array(rng, y),
                                                          metric=metric, silence_level=3,
                                                          **{kwname: (arg,) * 3}, **ekw3)
                        enumerate_methods(oi, "isrn", InterSystemRecurrenceNetwork, False, False, False,
                                          replay, atoms=(False, metric == "supremum", kind == "t", False,
                                                         emb is not None, emb is not None))
                except Exception as ex:  # noqa
                    ctx.fail(dict(kind="construct", cls="InterSystemRecurrenceNetwork", spec=kind,
                                  error=type(ex).__name__),
                             f"InterSystemRecurrenceNetwork raised {type(ex).__name__}: {ex}", replay)
            for kind, kwname in (("t", "threshold"), ("s", "threshold_std"), ("r", "recurrence_rate")):
                for lag in (0, 1, -1, 2, -2):
                    if abs(lag) >= n:
                        continue
                    dy = 1 if emb else rng.choice([1, 2])
                    x, y = gen_series(rng, n_raw, d), gen_series(rng, n_raw, dy)
                    arg = (float(gen_eps(rng)) if kind == "t" else 1.0 if kind == "s"
                           else float(gen_rate(rng)))
                    ekw2 = dict(dim=(emb[0], emb[0]), tau=(emb[1], emb[1])) if emb else {}
                    kwj = dict(metric=(metric, rng.choice(METRICS)), lag=lag, **{kwname: (arg, arg)}, **ekw2)
                    replay = dict(cls="JointRecurrencePlot", x=x.tolist(), y=y.tolist(), kwargs=kwj)
                    try:
                        with np.errstate(all="ignore"):
                            oj = JointRecurrencePlot(caller_array(rng, x), caller_array(rng, y),
                                                     silence_level=3, **kwj)
                        JRm = np.asarray(oj.recurrence_matrix())
                        at3_ = (False, metric == "supremum", kind == "t", False, emb is not None,
                                emb is not None)
                        enumerate_methods(oj, "jrp", JointRecurrencePlot, False, False, False, replay, R=JRm,
                                          atoms=at3_)
                        check_rqa(ctx, oj, JRm, "JointRecurrencePlot",
                                  dict(lag_nonzero=lag != 0, stream="all-methods"), replay)
                        if n - abs(lag) >= 2:
                            with np.errstate(all="ignore"):
                                ojn = JointRecurrenceNetwork(caller_array(rng, x), caller_array(rng, y),
                                                             silence_level=3, **kwj)
                            enumerate_methods(ojn, "jrn", JointRecurrenceNetwork, False, False, False,
                                              dict(replay, cls="JointRecurrenceNetwork"),
                                              R=np.asarray(ojn.recurrence_matrix()), atoms=at3_)
                    except Exception as ex:  # noqa
                        ctx.fail(dict(kind="construct", cls="JointRecurrencePlot", spec=kind,
                                      lag_nonzero=lag != 0, error=type(ex).__name__),
                                 f"Joint recurrence plot / network (lag={lag}) raised "
                                 f"{type(ex).__name__}: {ex}", replay)

    # round 4: only one of `dim` / `tau` given (no embedding takes place; the ordinal entropies
    # must raise their documented ValueError), with and without sequential RQA, all metrics,
    # threshold and rate — every public method against the outcome derived from the method bodies
    for metric in METRICS:
        for part in (dict(dim=2), dict(tau=1), dict(dim=3, tau=None), dict(dim=None, tau=2)):
            for kind, kwname in (("t", "threshold"), ("r", "recurrence_rate")):
                for mv in (False, True):
                    n = rng.choice([2, 3, 5])
                    ts = gen_series(rng, n, rng.choice([1, 2]), nan_p=0.2 if mv else 0)
                    arg = float(gen_eps(rng)) if kind == "t" else float(gen_rate(rng))
                    kw = dict(metric=metric, missing_values=mv, **{kwname: arg}, **part)
                    replay = dict(cls="RecurrencePlot", time_series=ts.tolist(), kwargs=kw)
                    at_ = (metric == "supremum", kind == "t", mv, part.get("dim") is not None,
                           part.get("tau") is not None)
                    ctx.count("partial-embedding:" + ",".join(sorted(k for k, v in part.items()
                                                                     if v is not None)))
                    try:
                        with np.errstate(all="ignore"):
                            o = RecurrencePlot(caller_array(rng, ts), silence_level=3, **kw)
                            enumerate_methods(o, "rp", RecurrencePlot, False, False, False, replay,
                                              atoms=(False,) + at_)
                            osp = RecurrencePlot(caller_array(rng, ts), silence_level=3, sparse_rqa=True,
                                                 **kw)
                            enumerate_methods(osp, "rp", RecurrencePlot, True,
                                              metric == "supremum" and kind == "t", False,
                                              dict(replay, sparse_rqa=True), atoms=(True,) + at_)
                            if n - (int(np.isnan(ts).any(axis=1).sum()) if mv else 0) >= 2:
                                on = RecurrenceNetwork(caller_array(rng, ts), silence_level=3, **kw)
                                enumerate_methods(on, "rn", RecurrenceNetwork, False, False, False,
                                                  dict(replay, cls="RecurrenceNetwork"),
                                                  atoms=(False,) + at_)
                    except Exception as ex:  # noqa
                        ctx.fail(dict(kind="construct", cls="RecurrencePlot", spec=kind,
                                      error=type(ex).__name__, partial_embedding=True),
                                 f"RecurrencePlot({kw}) raised {type(ex).__name__}: {ex}", replay)

    # round 4: diagline_dist on the asymmetric matrices of a fixed local recurrence rate (plot and
    # directed network, with / without missing values): the method = model `diaglineDist`
    # (twice the lines of the lower triangle), every other public method against its derived outcome
    for c in range(4 * scale):
        n = rng.randrange(3, 11)
        metric = rng.choice(METRICS)
        mv = rng.random() < 0.3
        ts = gen_series(rng, n, rng.choice([1, 2]), nan_p=0.15 if mv else 0, span=rng.choice([6, 12]))
        lrr = float(gen_rate(rng))
        kw = dict(metric=metric, missing_values=mv, local_recurrence_rate=lrr)
        replay = dict(cls="RecurrencePlot", time_series=ts.tolist(), kwargs=kw)
        try:
            with np.errstate(all="ignore"):
                klass = RecurrenceNetwork if (rng.random() < 0.3 and not mv) else RecurrencePlot
                o = klass(caller_array(rng, ts), silence_level=3, **kw)
            Rm = np.asarray(o.recurrence_matrix())
            ctx.case(("local-rate-diag", metric, mv, lrr, ts.tobytes().hex()), nontrivial(Rm))
            enumerate_methods(o, "rn" if klass is RecurrenceNetwork else "rp", klass, False, False, False,
                              dict(replay, cls=klass.__name__), R=Rm,
                              check_values=klass is RecurrencePlot,
                              atoms=(False, metric == "supremum", False, mv, False, False))
        except Exception as ex:  # noqa
            ctx.fail(dict(kind="construct", cls="RecurrencePlot", spec="l", error=type(ex).__name__,
                          stream="local-rate-diag"),
                     f"RecurrencePlot(local_recurrence_rate={lrr}) raised {type(ex).__name__}: {ex}", replay)

    # sequential RQA, dedicated stream: supremum metric + fixed threshold, all sizes, embedding,
    # multi-column series, missing values, thresholds with exact ties
    for c in range(15 * scale):
        n = gen_len(rng, quick)
        emb = gen_emb(rng, 0.4)
        if emb is not None and n - (emb[0] - 1) * emb[1] < 1:
            continue
        d = 1 if emb else rng.choice([1, 2, 3])
        mv = rng.random() < 0.4
        ts = gen_series(rng, n, d, nan_p=0.2 if mv else 0, span=rng.choice([2, 4, 6]))
        eps = gen_eps(rng)
        ekw = dict(dim=emb[0], tau=emb[1]) if emb else {}
        rep_s = dict(cls="RecurrencePlot", time_series=ts.tolist(),
                     kwargs=dict(metric="supremum", threshold=float(eps), missing_values=mv,
                                 sparse_rqa=True, **ekw))
        has_nan = bool(np.isnan(ts).any())
        ctx.count("sparse_rqa:stream" + (":mv" if mv and has_nan else "") + (":emb" if emb else ""))
        try:
            with np.errstate(all="ignore"):
                o = RecurrencePlot(caller_array(rng, ts), metric="supremum", threshold=float(eps),
                                   missing_values=mv, silence_level=3, **ekw)
                osp = RecurrencePlot(caller_array(rng, ts), metric="supremum", threshold=float(eps),
                                     missing_values=mv, sparse_rqa=True, silence_level=3, **ekw)
                names = ["vertline_dist", "diagline_dist", "max_diaglength", "max_vertlength",
                         "determinism", "laminarity", "average_diaglength", "trapping_time",
                         "diag_entropy", "vert_entropy"]
                if not (mv and has_nan):
                    # with missing values the sequential rate is built from the lines that do not
                    # touch a missing state ("experimental"); nothing is demanded of it
                    names += ["recurrence_rate", "rqa_summary"]
                for nm_ in names:
                    gs, gp = getattr(osp, nm_)(), getattr(o, nm_)()
                    if isinstance(gs, dict):
                        gs, gp = [gs[k] for k in sorted(gs)], [gp[k] for k in sorted(gp)]
                    if not np.allclose(np.asarray(gs, dtype=float), np.asarray(gp, dtype=float),
                                       rtol=1e-12, atol=1e-12, equal_nan=True):
                        ctx.fail(dict(kind="sparse", method=nm_, missing=bool(mv and has_nan)),
                                 f"RecurrencePlot(sparse_rqa=True).{nm_}() = {gs} differs from the "
                                 f"object that stores the matrix ({gp})", dict(rep_s, method=nm_))
                        break
            reqs.append(f"sparse {int(mv)} {enc_emb(emb)} {enc_fr(eps)} {enc_vmat(ts)}")
            impl.append(f"N={int(osp.N)} V={','.join(str(int(v)) for v in osp.vertline_dist()) or '-'} "
                        f"D={','.join(str(int(v) // 2) for v in osp.diagline_dist()) or '-'}")
            ctx.case(("sparse", emb, mv, float(eps), ts.tobytes().hex()),
                     nontrivial(np.asarray(o.recurrence_matrix())))
        except Exception as ex:  # noqa
            ctx.fail(dict(kind="sparse", error=type(ex).__name__, missing=bool(mv and has_nan)),
                     f"sequential RQA raised {type(ex).__name__}: {ex}", rep_s)

    # joint plots of series with unequal raw lengths: the documented ValueError (generated guard)
    for c in range(3 * scale):
        n, m = rng.randrange(1, 8), rng.randrange(1, 8)
        if n == m:
            m += 1
        x, y = gen_series(rng, n, 1), gen_series(rng, m, 1)
        lag = rng.choice([0, 1, -1])
        reqs.append(f"jrp supremum supremum {lag} - - t:1 t:1 {enc_vmat(x)} {enc_vmat(y)}")
        ctx.count("JointRecurrencePlot:unequal raw lengths")
        try:
            JointRecurrencePlot(x, y, threshold=(1.0, 1.0), lag=lag, silence_level=3)
            impl.append("no-error")
            ctx.fail(dict(kind="construct", cls="JointRecurrencePlot", issue="unequal-lengths-accepted"),
                     "JointRecurrencePlot accepted series of different lengths",
                     dict(x=x.tolist(), y=y.tolist(), lag=lag))
        except Exception as ex:  # noqa
            impl.append(exc_name(ex))

    # sizes beyond the int8 range of the matrix entries (row sums > 127, products of int8
    # blocks, counts in the tens of thousands): implementation against the definition
    for c in range(2 if quick else 8):
        n = rng.choice([130, 140, 200] if not quick else [130, 140])
        metric = rng.choice(METRICS)
        x, y = gen_series(rng, n, 1, span=2), gen_series(rng, n, 1, span=2)
        eps = Fr(rng.choice([5, 6, 9]), 4)
        ctx.count("large-N (row sums beyond int8)")
        sx, sy = q_states(x, None), q_states(y, None)
        Rx = np.array(q_matrix(metric, sx, sx, eps))
        Ry = np.array(q_matrix(metric, sy, sy, eps))
        lag = rng.choice([0, 3, -5])
        ox, oy = (0, lag) if lag >= 0 else (-lag, 0)
        side = n - abs(lag)
        EJ = Rx[ox:ox + side, ox:ox + side] * Ry[oy:oy + side, oy:oy + side]
        replay = dict(cls="large", x=x.tolist(), y=y.tolist(), metric=metric, threshold=float(eps), lag=lag)
        try:
            o = RecurrencePlot(caller_array(rng, x), metric=metric, threshold=float(eps), silence_level=3)
            oj = JointRecurrencePlot(caller_array(rng, x), caller_array(rng, y), metric=(metric, metric),
                                     threshold=(float(eps), float(eps)), lag=lag, silence_level=3)
            oc = CrossRecurrencePlot(caller_array(rng, x), caller_array(rng, y[:3]), metric=metric,
                                     threshold=float(eps), silence_level=3)
            ok = (np.array_equal(np.asarray(o.recurrence_matrix()), Rx)
                  and abs(o.recurrence_rate() - Rx.sum() / n ** 2) < 1e-12
                  and np.array_equal(np.asarray(oj.recurrence_matrix()), EJ) and int(oj.N) == side
                  and abs(oj.recurrence_rate() - EJ.sum() / side ** 2) < 1e-12
                  and np.array_equal(np.asarray(oc.recurrence_matrix()),
                                     np.array(q_matrix(metric, sx, sy[:3], eps)))
                  and int(np.asarray(o.vertline_dist()) @ np.arange(1, n + 1)) == int(Rx.sum()))
            tw = o.twins(min_dist=0)
            for j in range(0, n, 17):
                expj = {k for k in range(n) if k != j and abs(j - k) > 0 and int(Rx[j].sum()) != 1
                        and np.array_equal(Rx[j], Rx[k])}
                ok = ok and set(int(v) for v in tw[j]) == expj
            ctx.case(("large", n, metric, x.tobytes().hex(), y.tobytes().hex(), lag), True)
            if not ok:
                ctx.fail(dict(kind="matrix", cls="large-N", metric=metric, issue="entries-or-rates"),
                         f"{n} state vectors: recurrence / joint / cross matrix, rates or twins differ "
                         "from the definition", replay)
        except Exception as ex:  # noqa
            ctx.fail(dict(kind="construct", cls="large-N", error=type(ex).__name__),
                     f"{n} state vectors: raised {type(ex).__name__}: {ex}", replay)

    # ------------------------------------------------------------------
    # 7. network strides at the model boundary (translated `A.flat[::self.N+1] = 0`)
    # ------------------------------------------------------------------
    for which in ("rn_init", "rn_threshold", "rn_threshold_std", "rn_rate", "rn_local",
                  "rn_adaptive", "jrn_init", "jrn_threshold", "jrn_threshold_std", "jrn_rate"):
        for s in range(0, 6):
            R = np.array([[rng.random() < 0.7 for _ in range(s)] for _ in range(s)],
                         dtype=np.int8).reshape(s, s)
            np.fill_diagonal(R, 1)
            reqs.append(f"stride {which} {s} {enc_bmat(R)}")
            A = R.copy()
            np.fill_diagonal(A, 0)
            impl.append(enc_bmat(A))      # specification: the diagonal and nothing else
            ctx.count("model:stride")

    # ------------------------------------------------------------------
    # correspondence
    # ------------------------------------------------------------------
    if have_driver:
        try:
            ctx.correspond("Lean Recurrence model == pyunicorn (kernels and objects)", reqs, impl)
        except common.BuildError as e:
            ctx.obligation("correspondence: driver runs", "correspondence", False, str(e))

    # ------------------------------------------------------------------
    # 8. implementation-only stream: generic floats with a decision margin,
    #    threshold_std, normalisation-free
    # ------------------------------------------------------------------
    nprng = np.random.RandomState(rng.randrange(2 ** 31))
    for c in range(60 * scale):
        n = rng.randrange(2, 14)
        d = rng.choice([1, 2, 3])
        metric = rng.choice(METRICS)
        ts = nprng.rand(n, d).astype(np.float32).astype(float)
        eps = float(nprng.rand()) * 1.2
        use_std = rng.random() < 0.4
        use_norm = rng.random() < 0.35
        ctx.count("float-stream" + (":threshold_std" if use_std else "") + (":normalize" if use_norm else ""))
        ts_in = ts
        if use_norm:
            # the statement on the normalised series, evaluated in float64
            t64 = ts.astype(np.float64)
            sd = t64.std(axis=0)
            if (sd < 1e-3).any():
                continue
            ts = (t64 - t64.mean(axis=0)) / sd
            eps = eps * 3
        if use_std:
            obj = RecurrencePlot(caller_array(rng, ts_in), metric=metric, threshold_std=eps,
                                 normalize=use_norm, silence_level=3)
            eff = eps * float(np.std(ts.astype(np.float64)))
        else:
            obj = RecurrencePlot(caller_array(rng, ts_in), metric=metric, threshold=eps,
                                 normalize=use_norm, silence_level=3)
            eff = eps
        R = np.asarray(obj.recurrence_matrix())
        st = q_states(ts, None)
        ctx.case(("float", ts.tobytes().hex(), eps, use_std, metric), nontrivial(R))
        bad = None
        for i in range(n):
            for j in range(n):
                dq = q_dist(metric, st[i], st[j])
                dv = math.sqrt(dq) if metric == "euclidean" else float(dq)
                if abs(dv - eff) < (1e-4 if use_norm else 1e-5) * max(1.0, eff):
                    continue      # inside the margin: no decision demanded
                if int(dv < eff) != int(R[i, j]):
                    bad = (i, j, dv)
        if bad:
            ctx.fail(dict(kind="matrix", cls="RecurrencePlot", spec="std" if use_std else "t",
                          metric=metric, issue="float-entries", normalize=use_norm),
                     f"R[{bad[0]},{bad[1]}] wrong for distance {bad[2]} and threshold {eff}",
                     dict(cls="RecurrencePlot", time_series=ts_in.tolist(), metric=metric,
                          normalize=use_norm,
                          threshold_std=eps if use_std else None, threshold=None if use_std else eps))

    # ------------------------------------------------------------------
    # 9. implementation-only: exact power-of-two rescaling (and shifting) of the data with
    #    the threshold rescaled accordingly must not change a single entry; rates, local
    #    rates, neighbourhood sizes and threshold_std are scale-free
    # ------------------------------------------------------------------
    for c in range(50 * scale):
        n = gen_len(rng, quick)
        metric = rng.choice(METRICS)
        emb = gen_emb(rng, 0.35)
        d = 1 if emb is not None else rng.choice([1, 2, 3])
        if emb is not None and n - (emb[0] - 1) * emb[1] < 1:
            continue
        ts = gen_series(rng, n, d, span=rng.choice([2, 6]))
        k2 = rng.choice([-20, -12, -5, -1, 1, 4, 11, 20])
        f2 = 2.0 ** k2
        kind = rng.choice("tsrla")
        spec = gen_spec(kind, max(n - ((emb[0] - 1) * emb[1] if emb else 0), 1))
        shift = rng.choice([0.0, 0.0, 8.0, -64.0, 1024.0]) if kind != "s" else 0.0
        which = rng.choice(["rp", "rp", "crp", "jrp", "isrn"]) if kind in "tr" else "rp"
        ctx.count(f"rescale:{which}:{kind}:2^{k2}" + (":shift" if shift else ""))

        def build(a, b, scale_):
            kw = dict(metric=metric, silence_level=3)
            if emb is not None:
                kw.update(dim=emb[0], tau=emb[1])
            arg = float(spec[1]) * (scale_ if kind == "t" else 1.0)
            if kind == "a":
                arg = int(spec[1])
            if which == "rp":
                kw[KW[kind]] = arg
                return np.asarray(RecurrencePlot(caller_array(rng, a), **kw).recurrence_matrix())
            if which == "crp":
                kw[KW[kind]] = arg
                return np.asarray(CrossRecurrencePlot(caller_array(rng, a), caller_array(rng, b),
                                                      **kw).recurrence_matrix())
            if which == "jrp":
                kw = dict(metric=(metric, metric), silence_level=3, lag=rng_lag)
                if emb is not None:
                    kw.update(dim=(emb[0], emb[0]), tau=(emb[1], emb[1]))
                kw[KW[kind]] = (arg, arg)
                return np.asarray(JointRecurrencePlot(caller_array(rng, a), caller_array(rng, b),
                                                      **kw).recurrence_matrix())
            if emb is not None:
                kw["tau"] = (emb[1], emb[1])
            kw[KW[kind]] = (arg, arg, arg)
            return np.asarray(InterSystemRecurrenceNetwork(caller_array(rng, a), caller_array(rng, b),
                                                           **kw).adjacency)
        y = gen_series(rng, n, d, span=6)
        n_st = n - ((emb[0] - 1) * emb[1] if emb else 0)
        rng_lag = rng.choice([0, 1, -1]) if n_st >= 3 else 0
        if which == "isrn" and n_st < 1:
            continue
        try:
            with np.errstate(all="ignore"):
                R1 = build(ts, y, 1.0)
                R2 = build((ts + shift) * f2, (y + shift) * f2, f2)
        except Exception as ex:  # noqa
            if not (which == "isrn" and n_st < 2) and not isinstance(ex, ZeroDivisionError):
                ctx.fail(dict(kind="rescale", cls=which, spec=kind, error=type(ex).__name__),
                         f"{which}: construction raised {type(ex).__name__}: {ex}",
                         dict(cls=which, series=ts.tolist(), y=y.tolist(), factor=f2, shift=shift))
            continue
        ctx.case(("rescale", which, kind, metric, emb, ts.tobytes().hex(), k2, shift, str(spec)),
                 nontrivial(R1))
        if R1.shape != R2.shape or not np.array_equal(R1, R2):
            ctx.fail(dict(kind="rescale", cls=which, spec=kind, metric=metric),
                     f"{which}({KW[kind]}): rescaling the data by 2^{k2} (shift {shift}) with the "
                     "threshold rescaled accordingly changes the recurrence matrix",
                     dict(cls=which, series=ts.tolist(), y=y.tolist(), factor=f2, shift=shift,
                          kwargs=dict(metric=metric, emb=emb, spec=[kind, float(spec[1])]),
                          R1=enc_bmat(R1), R2=enc_bmat(R2)))
