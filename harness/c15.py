"""C15 — Surrogates preserve exactly what each method promises.

proof  : lean/Pyunicorn/Properties/C15.lean (shuffle / rank remapping are row
         permutations for every permutation / every ranked array / every number
         of refinement steps; |z e^{i phi}| = |z| over every call history, in
         place or copying; twin lists = definition; twin walk invariants for
         every draw stream)
tie    : correspondence of lean/Pyunicorn/Model/Surrogates.lean with the real
         code on the same inputs, with the random choices *recorded or fed*:
         the module globals `random` / `np` of surrogates.py and `random` of the
         compiled numerics module are replaced by recording proxies (numpy's
         shuffle permutation, the phases, the arrays irfft returns, the
         random.random() stream).  Exact on rationals; the phase multiplication
         is compared in IEEE double with tolerance.  The in-place/copy mode of
         the phase multiplication is read off the source (ast) on every run.
search : oracle independent of the model on the *unpatched* code: row-wise
         multiset equality, amplitude spectra via numpy.fft.rfft, twin lists
         against the definition on a brute-force recurrence matrix, every
         transition of every twin surrogate located in the original series;
         all of it over histories of repeated / interleaved calls on one object.
"""
import ast
import contextlib
import io
import os
import random as pyrandom
from fractions import Fraction

import numpy as np

from . import common

TOL = 1e-9


# --------------------------------------------------------------------------
# encoding
# --------------------------------------------------------------------------

def enc_num(x):
    f = x if isinstance(x, Fraction) else Fraction(float(x))
    return str(f.numerator) if f.denominator == 1 else f"{f.numerator}/{f.denominator}"


def enc_vec(v):
    return ",".join(enc_num(x) for x in v) or "-"


def enc_ivec(v):
    return ",".join(str(int(x)) for x in v) or "-"


def enc_mat(m):
    m = list(m)
    return ";".join(enc_vec(r) for r in m) if m else "E"


def enc_imat(m):
    m = list(m)
    return ";".join(enc_ivec(r) for r in m) if m else "E"


def enc_mats(ms, f=enc_mat):
    ms = list(ms)
    return "|".join(f(m) for m in ms) if ms else "N"


def quiet():
    return contextlib.redirect_stdout(io.StringIO())


# --------------------------------------------------------------------------
# recording proxies
# --------------------------------------------------------------------------

class NpRandomProxy:
    """stands in for the module global `random` (= numpy.random) of surrogates.py"""

    def __init__(self, seed):
        self.rs = np.random.RandomState(seed)
        self.perms, self.phases, self.gauss = [], [], []

    def shuffle(self, row):
        p = self.rs.permutation(len(row))
        row[:] = row[p].copy()
        self.perms.append([int(i) for i in p])

    def uniform(self, low=0.0, high=1.0, size=None):
        ph = self.rs.uniform(low=low, high=high, size=size)
        self.phases.append(np.array(ph, copy=True))
        return ph

    def randn(self, *shape):
        g = self.rs.randn(*shape)
        self.gauss.append(g.copy())
        return g

    def __getattr__(self, k):
        return getattr(np.random, k)


class FftProxy:
    def __init__(self):
        self.rfft_out, self.irfft_in, self.irfft_out = [], [], []

    def rfft(self, a, *args, **kw):
        r = np.fft.rfft(a, *args, **kw)
        self.rfft_out.append(r.copy())
        return r

    def irfft(self, a, *args, **kw):
        self.irfft_in.append(np.array(a, copy=True))
        r = np.fft.irfft(a, *args, **kw)
        self.irfft_out.append(r.copy())
        return r

    def __getattr__(self, k):
        return getattr(np.fft, k)


class NpProxy:
    def __init__(self):
        self.fft = FftProxy()

    def __getattr__(self, k):
        return getattr(np, k)


class DrawProxy:
    """stands in for the module global `random` of the compiled numerics module:
    feeds a prepared stream of values of random.random()"""

    def __init__(self, draws):
        self.draws, self.used = list(draws), 0

    def random(self):
        if self.used >= len(self.draws):
            raise RuntimeError("draw stream exhausted")
        v = self.draws[self.used]
        self.used += 1
        return float(v)

    def seed(self, *a, **k):
        return None

    def __getattr__(self, k):
        return getattr(pyrandom, k)


@contextlib.contextmanager
def patched(mod, **names):
    old = {k: getattr(mod, k) for k in names}
    try:
        for k, v in names.items():
            setattr(mod, k, v)
        yield
    finally:
        for k, v in old.items():
            setattr(mod, k, v)


@contextlib.contextmanager
def guarded(ctx, method, replay):
    """an exception of the code under test on a valid input is a failing input"""
    try:
        yield
    except Exception as e:  # noqa
        ctx.fail({"kind": "raises", "method": method, "error": type(e).__name__},
                 f"{method} raised {type(e).__name__}: {e}", replay)


def phase_mode():
    """inplace | copy: how correlated_noise_surrogates applies the phases to the
    array returned by the cached original_data_fft()."""
    src = open(os.path.join(common.REPO, "src/pyunicorn/timeseries/surrogates.py")).read()
    tree = ast.parse(src)
    for node in ast.walk(tree):
        if isinstance(node, ast.FunctionDef) and node.name == "correlated_noise_surrogates":
            cached = set()
            for st in ast.walk(node):
                if isinstance(st, ast.Assign) and isinstance(st.value, ast.Call) and \
                        isinstance(st.value.func, ast.Attribute) and \
                        st.value.func.attr == "original_data_fft":
                    cached |= {t.id for t in st.targets if isinstance(t, ast.Name)}
            for st in ast.walk(node):
                if isinstance(st, ast.AugAssign) and isinstance(st.target, ast.Name) and \
                        st.target.id in cached and isinstance(st.op, ast.Mult):
                    return "inplace"
            return "copy"
    return "copy"


# --------------------------------------------------------------------------
# generators
# --------------------------------------------------------------------------

def gen_data(rng, nprng, quick, kinds=("int", "dyadic", "float", "periodic")):
    kind = rng.choice(kinds)
    N = rng.choice([1, 1, 2, 3, 4])
    n = rng.choice([1, 2, 3, 4, 5, 6, 7, 8, 9, 12, 15, 16, 21, 32] if quick else
                   [1, 2, 3, 4, 5, 6, 7, 8, 9, 12, 15, 16, 21, 32, 33, 48, 63, 64])
    if kind == "int":
        d = np.array([[rng.randrange(-3, 4) for _ in range(n)] for _ in range(N)], dtype=float)
    elif kind == "dyadic":
        d = np.array([[rng.randrange(-40, 41) / 8 for _ in range(n)] for _ in range(N)])
    elif kind == "periodic":
        per = rng.choice([2, 3, 4, 5])
        base = [[rng.randrange(0, 4) for _ in range(per)] for _ in range(N)]
        d = np.array([[base[i][t % per] + (rng.choice([0, 0, 0, 0.125]) if n > 6 else 0)
                       for t in range(n)] for i in range(N)], dtype=float)
    else:
        d = nprng.randn(N, n)
    return kind, d


def has_ties(a):
    a = np.asarray(a)
    return any(len(set(row.tolist())) < len(row) for row in a)


# --------------------------------------------------------------------------
# brute-force definitions for the oracle (independent of the Lean model)
# --------------------------------------------------------------------------

def brute_R(emb, thr32):
    """supremum-norm recurrence matrix of an embedded series, threshold as the
    kernel receives it (C float), diagonal one"""
    n = emb.shape[0]
    R = np.ones((n, n), dtype=bool)
    for j in range(n):
        for k in range(n):
            if j != k:
                R[j, k] = all(abs(emb[j, l] - emb[k, l]) <= thr32 for l in range(emb.shape[1]))
    return R


def twins_by_definition(R, md):
    n = R.shape[0]
    out = []
    for j in range(n):
        out.append([k for k in range(n)
                    if abs(j - k) > md and R[j].sum() != 1 and np.array_equal(R[j], R[k])])
    return out


def trajectory_ok(out_states, orig_states, twins, N):
    """is there an index path through the original states that produces the
    surrogate, every step being own successor / twin successor / a restart that
    is allowed only where such a successor does not exist?  Returns (ok, j)."""
    def cands(v):
        return [k for k in range(N) if np.array_equal(orig_states[k], v)]
    F = set(cands(out_states[0])) if len(out_states) else set()
    if len(out_states) and not F:
        return False, 0
    for j in range(1, len(out_states)):
        C = cands(out_states[j])
        if not C:
            return False, j
        G = set()
        for b in C:
            for a in F:
                succ = [a + 1] + [t + 1 for t in twins[a]]
                if b in succ or any(s >= N for s in succ):
                    G.add(b)
                    break
        if not G:
            return False, j
        F = G
    return True, -1


def amp(a):
    return np.abs(np.fft.rfft(a))


def inner_bins(n):
    """non-zero, non-Nyquist frequencies of a length-n real series"""
    return range(1, (n + 1) // 2)


# --------------------------------------------------------------------------

def run(ctx):
    import pyunicorn.timeseries.surrogates as SM
    from pyunicorn.timeseries import Surrogates, RecurrencePlot
    from pyunicorn.timeseries._ext import numerics as K
    rng = ctx.rng
    nprng = np.random.RandomState(rng.randrange(2 ** 31))
    quick = ctx.tier == "quick"
    ctx.rule = ("data sets (N 1-4 series, length 1-64, odd and even; integer with ties, dyadic, "
                "periodic, Gaussian) x generators (white noise, Fourier, AAFT, refined AAFT, twin "
                "surrogates of Surrogates and RecurrencePlot) x histories of 1-4 repeated / "
                "interleaved calls on one object; twins: dimension 1-3, delay 0-3, dyadic thresholds, "
                "min_dist 0-8; distinct = distinct (generator, data, parameters, random stream); "
                "non-trivial = length >= 4 and (for twins) at least one twin pair exists")
    ctx.trusted = common.DEFAULT_TRUSTED + [
        "numpy.fft.rfft/irfft (round trip at the non-zero, non-Nyquist bins) and numpy.random.shuffle "
        "(applies a permutation in place): assumed, exercised numerically by the oracle on the unpatched code",
        "IEEE double: the products random.random()*N of the fed 20-bit dyadic draws are exact",
    ]
    ctx.assumptions = [
        "Fourier clauses are partial: the theorem covers the spectrum handed to irfft; that "
        "rfft(irfft(Z)) = Z off DC/Nyquist is numpy's and only exercised numerically",
        "min_dist >= 0, dimension >= 1, delay >= 0 (negative values are outside the stated domain)",
    ]
    ctx.proofs()
    mode = phase_mode()
    ctx.count(f"phase-multiplication-mode:{mode}")

    reqs, impl = [], []          # exact correspondence
    freqs, fimpl = [], []        # float correspondence (phase multiplication)

    def sub_seed():
        return rng.randrange(2 ** 31)

    # ======================================================================
    # A/B/C: white noise, Fourier, AAFT, refined AAFT — patched correspondence
    # ======================================================================
    ncase = 400 if quick else 3000
    struct_bad = []
    for c in range(ncase):
        kind, data = gen_data(rng, nprng, quick)
        N, n = data.shape
        seed = sub_seed()
        ctx.count(f"data:{kind}")
        ctx.count("len:" + ("1" if n == 1 else "2" if n == 2 else "odd" if n % 2 else "even"))
        nontriv = n >= 4
        # ---- white noise ---------------------------------------------------
        rp_, np_ = NpRandomProxy(seed), NpProxy()
        s = Surrogates(data.copy(), silence_level=3)
        ncalls = rng.choice([1, 2, 3])
        rep = {"data": data.tolist(), "numpy_RandomState_seed": seed}
        with guarded(ctx, "white_noise_surrogates", rep), patched(SM, random=rp_, np=np_):
            for call in range(ncalls):
                rp_.perms = []
                out = s.white_noise_surrogates()
                reqs.append(f"white {enc_mat(data)} {enc_imat(rp_.perms)}")
                impl.append(enc_mat(out))
        ctx.case(("white", data.tobytes().hex(), seed, ncalls), nontriv,
                 {"generator": "white_noise", "data": data.tolist(), "calls": ncalls} if n <= 5 else None)
        ctx.count("gen:white_noise", ncalls)
        # ---- Fourier: spectra handed to irfft over a call history ------------
        rp_, np_ = NpRandomProxy(seed), NpProxy()
        s = Surrogates(data.copy(), silence_level=3)
        ncalls = rng.choice([1, 2, 3, 4])
        with guarded(ctx, "correlated_noise_surrogates", dict(rep, calls=ncalls)), \
                patched(SM, random=rp_, np=np_):
            for call in range(ncalls):
                s.correlated_noise_surrogates()
        if len(np_.fft.rfft_out) != 1 or len(np_.fft.irfft_in) != ncalls:
            struct_bad.append(f"correlated_noise_surrogates x{ncalls}: rfft calls="
                              f"{len(np_.fft.rfft_out)} irfft calls={len(np_.fft.irfft_in)}")
        else:
            cache = np_.fft.rfft_out[0]
            for i in range(N):
                ph = [rp_.phases[k][i] for k in range(ncalls)]
                freqs.append(f"fourier {mode} {enc_vec(cache[i].real)} {enc_vec(cache[i].imag)} "
                             f"{enc_mat(ph)}")
                fimpl.append([np_.fft.irfft_in[k][i] for k in range(ncalls)])
        ctx.case(("fourier", data.tobytes().hex(), seed, ncalls), nontriv)
        ctx.count("gen:correlated_noise", ncalls)
        # ---- AAFT / refined AAFT -------------------------------------------
        rp_, np_ = NpRandomProxy(seed), NpProxy()
        s = Surrogates(data.copy(), silence_level=3)
        nit = rng.choice([0, 1, 2, 3])
        with guarded(ctx, "AAFT_surrogates/refined_AAFT_surrogates", dict(rep, n_iterations=nit)), \
                patched(SM, random=rp_, np=np_):
            if rng.random() < 0.4:
                s.correlated_noise_surrogates()     # a history before the call
                np_.fft.irfft_out = []
            if rng.random() < 0.5:
                R = s.AAFT_surrogates()
                outs = np_.fft.irfft_out
                tie = any(has_ties(o) for o in outs)
                if not tie and len(outs) == 1:
                    reqs.append(f"aaft {enc_mat(data)} {enc_mat(outs[0])}")
                    impl.append(enc_mat(R))
                    ctx.count("gen:AAFT")
                elif len(outs) != 1:
                    struct_bad.append(f"AAFT_surrogates: {len(outs)} irfft calls")
                else:
                    ctx.count("skipped-for-correspondence:ranked-array-has-ties")
            else:
                R = s.refined_AAFT_surrogates(nit, output="true_amplitudes")
                outs = np_.fft.irfft_out
                if len(outs) != nit + 1:
                    struct_bad.append(f"refined_AAFT_surrogates: {len(outs)} irfft calls for "
                                      f"n_iterations={nit}")
                elif any(has_ties(o) or np.isnan(o).any() for o in outs):
                    ctx.count("skipped-for-correspondence:ranked-array-has-ties")
                else:
                    reqs.append(f"refined {enc_mat(data)} {enc_mat(outs[0])} {enc_mats(outs[1:])}")
                    impl.append(enc_mat(R))
                    ctx.count(f"gen:refined_AAFT:n_iterations={nit}")
        ctx.case(("aaft", data.tobytes().hex(), seed, nit), nontriv)

    # ======================================================================
    # D: twins of Surrogates — kernels and method, fed draw stream
    # ======================================================================
    ntw = 300 if quick else 3000
    tw_cases = []
    for c in range(ntw):
        kind, data = gen_data(rng, nprng, quick, kinds=("int", "dyadic", "periodic", "periodic"))
        N, n = data.shape
        hist = []
        for call in range(rng.choice([1, 1, 2, 3])):
            dim = rng.choice([1, 1, 2, 2, 3])
            delay = rng.choice([0, 1, 1, 2, 3])
            if (dim - 1) * delay > n:
                dim, delay = 1, 0
            thr = Fraction(rng.choice([0, 1, 1, 2, 4, 4, 8, 12, 16, 24]), 8)
            md = rng.choice([0, 0, 1, 1, 2, 3, 5, 7, 8])
            hist.append((dim, delay, thr, md))
        tw_cases.append((kind, data, hist))
    for kind, data, hist in tw_cases:
        N, n = data.shape
        s = Surrogates(data.copy(), silence_level=3)
        for (dim, delay, thr, md) in hist:
            nT = n - (dim - 1) * delay
            draws = [Fraction(rng.choice([0, 2 ** 20 - 1, rng.randrange(2 ** 20),
                                          rng.randrange(2 ** 20)]), 2 ** 20)
                     for _ in range(N * (2 * nT + 3) + 4)]
            dp = DrawProxy(draws)
            with patched(K, random=dp), quiet():
                try:
                    out = s.twin_surrogates(dim, delay, float(thr), md)
                    got = enc_mat(out)
                    tw = s.twins(float(thr), md)     # cached
                    emb = s.embedding
                except Exception as e:  # noqa
                    got, tw, emb = "raise:" + type(e).__name__, None, None
            reqs.append(f"twinsurr {dim} {delay} {enc_num(thr)} {md} {enc_vec(draws)} {enc_mat(data)}")
            impl.append(got)
            npairs = 0
            if tw is not None:
                for i in range(N):
                    reqs.append(f"twins_s {enc_num(thr)} {md} {enc_mat(emb[i])}")
                    impl.append(enc_imat(tw[i]))
                    npairs += sum(len(x) for x in tw[i])
                # the walk kernel at its own boundary, on the same tables
                dp2 = DrawProxy(draws)
                reqs.append(f"walk_s {nT} {enc_vec(draws)} {enc_mats(tw, enc_imat)}")
                try:
                    with patched(K, random=dp2):
                        o2 = K._twin_surrogates_s(N, nT, tw, np.ascontiguousarray(data))
                    impl.append(("walk", o2, data, dp2.used))
                except Exception as e:  # noqa
                    impl.append("raise:" + type(e).__name__)
            ctx.case(("twin_s", data.tobytes().hex(), dim, delay, str(thr), md, enc_vec(draws[:8])),
                     nT >= 4 and npairs > 0,
                     {"generator": "twin_surrogates", "data": data.tolist(), "dimension": dim,
                      "delay": delay, "threshold": float(thr), "min_dist": md} if n <= 6 else None)
            ctx.count("gen:twin_surrogates")
            ctx.count("twins:" + ("some" if npairs else "none"))
            ctx.count(f"twins:dim={dim}")
            ctx.count(f"twins:min_dist={'0' if md == 0 else '1-3' if md <= 3 else '>3'}")

    # ======================================================================
    # E: RecurrencePlot.twins / twin_surrogates
    # ======================================================================
    nrp = 200 if quick else 2000
    for c in range(nrp):
        n = rng.choice([2, 3, 5, 8, 9, 12, 16, 21] if quick else [2, 3, 5, 8, 9, 12, 16, 21, 32, 40])
        kind = rng.choice(["int", "periodic", "dyadic"])
        if kind == "periodic":
            per = rng.choice([2, 3, 4])
            base = [rng.randrange(0, 4) for _ in range(per)]
            ts = np.array([base[t % per] for t in range(n)], dtype=float)
        elif kind == "int":
            ts = np.array([rng.randrange(0, 3) for _ in range(n)], dtype=float)
        else:
            ts = np.array([rng.randrange(0, 17) / 8 for _ in range(n)])
        dim = rng.choice([1, 2, 2, 3])
        tau = rng.choice([1, 1, 2])
        if (dim - 1) * tau >= n:
            dim, tau = 1, 1
        thr = rng.choice([0.125, 0.5, 0.5, 1.0, 1.5])
        md = rng.choice([0, 1, 1, 2, 3, 7])
        ns = rng.choice([1, 2, 3])
        variant = rng.choice(["threshold", "threshold", "local_recurrence_rate"])
        with quiet():
            if variant == "threshold":
                rp = RecurrencePlot(ts, dim=dim, tau=tau, metric="supremum", threshold=thr,
                                    silence_level=3)
            else:
                rp = RecurrencePlot(ts, dim=dim, tau=tau, metric="supremum",
                                    local_recurrence_rate=rng.choice([0.2, 0.4, 0.6]),
                                    silence_level=3)
        ctx.count(f"rp:{variant}")
        ncalls = rng.choice([1, 2])
        for call in range(ncalls):
            R = np.array(rp.recurrence_matrix())
            NN = R.shape[0]
            draws = [Fraction(rng.choice([0, 2 ** 20 - 1, rng.randrange(2 ** 20),
                                          rng.randrange(2 ** 20)]), 2 ** 20)
                     for _ in range(ns * (2 * NN + 3) + 4)]
            dp = DrawProxy(draws)
            try:
                with patched(K, random=dp), quiet():
                    tw = rp.twins(md)
                    out = rp.twin_surrogates(ns, md)
                used = dp.used
                err = None
            except Exception as e:  # noqa
                tw, out, used, err = None, None, 0, e
            if err is not None:
                ctx.fail({"kind": "raises", "class": "RecurrencePlot", "method": "twin_surrogates",
                          "error": type(err).__name__},
                         f"RecurrencePlot.twins/twin_surrogates raised {type(err).__name__}: {err}",
                         {"time_series": ts.tolist(), "dim": dim, "tau": tau, "variant": variant,
                          "threshold": thr, "min_dist": md, "n_surrogates": ns})
                continue
            reqs.append(f"rp_twins {md} {enc_imat(R)}")
            impl.append(enc_imat(tw))
            reqs.append(f"walk_r {NN} {ns} {enc_vec(draws)} {enc_imat(tw[:NN])}")
            impl.append(("walk3", out, np.array(rp.embedding), used))
            npairs = sum(len(x) for x in tw)
            ctx.case(("twin_r", ts.tobytes().hex(), dim, tau, thr, md, ns, variant, enc_vec(draws[:8])),
                     NN >= 4 and npairs > 0)
            ctx.count("gen:RecurrencePlot.twin_surrogates")
            ctx.count("rp-twins:" + ("some" if npairs else "none"))

    ctx.obligation("call structure: one memoised rfft and one irfft per correlated_noise_surrogates "
                   "call, one irfft per AAFT call and per refinement step", "correspondence",
                   not struct_bad, "\n".join(struct_bad[:5]))
    # ---------------- run the model, compare -------------------------------
    # walk requests carry implementation *values*; the model answers indices
    model = common.driver("C15", reqs)
    bad = []
    for i, (rq, im, mo) in enumerate(zip(reqs, impl, model)):
        if isinstance(im, tuple):
            if mo.startswith("raise:") or "#" not in mo:
                bad.append((i, mo, "values"))
                continue
            body, cons = mo.split("#")
            idx = [] if body == "E" else [[int(x) for x in r.split(",")] if r != "-" else []
                                          for r in body.split(";")]
            if im[0] == "walk":
                _, o2, data, used = im
                exp = [[data[i2][k] for k in row] for i2, row in enumerate(idx)]
                ok = int(cons) == used and len(exp) == o2.shape[0] and \
                    all(len(exp[r]) == o2.shape[1] and
                        all(exp[r][j] == o2[r, j] for j in range(o2.shape[1]))
                        for r in range(o2.shape[0]))
            else:
                _, o3, emb, used = im
                ok = int(cons) == used and len(idx) == o3.shape[0] and \
                    all(len(idx[r]) == o3.shape[1] and
                        all(np.array_equal(emb[idx[r][j]], o3[r, j]) for j in range(o3.shape[1]))
                        for r in range(o3.shape[0]))
            if not ok:
                bad.append((i, mo, f"impl used {used} draws"))
        elif mo != im:
            bad.append((i, mo, im))
    ctx.obligation(f"correspondence: Lean Surrogates model == pyunicorn on recorded/fed random streams "
                   f"({len(reqs)} requests)", "correspondence", not bad,
                   "\n".join(f"{reqs[i][:400]} :: model={str(m)[:200]} impl={str(x)[:200]}"
                             for i, m, x in bad[:5]))
    ctx.extra["requests_compared"] = len(reqs) + len(freqs)

    # float correspondence of the phase multiplication
    fmodel = common.driver("C15", freqs)
    fbad = []
    for i, (mo, im) in enumerate(zip(fmodel, fimpl)):
        calls = mo.split(";") if mo else []
        if len(calls) != len(im):
            fbad.append((i, "call count"))
            continue
        for cstr, z in zip(calls, im):
            vals = cstr.split(",") if cstr else []
            if len(vals) != len(z):
                fbad.append((i, "length"))
                break
            scale = max(1.0, float(np.abs(z).max()) if len(z) else 1.0)
            for v, zz in zip(vals, z):
                re_, im_ = v.split("_")

                def dec(t):
                    m, e = t.split(":")
                    return float(Fraction(int(m)) * Fraction(2) ** int(e))
                if abs(dec(re_) - zz.real) > TOL * scale or abs(dec(im_) - zz.imag) > TOL * scale:
                    fbad.append((i, f"{v} vs {zz}"))
                    break
    ctx.obligation(f"correspondence: phase multiplication history (mode={mode}) == spectra handed to "
                   f"irfft ({len(freqs)} rows, tolerance {TOL})", "correspondence", not fbad,
                   "\n".join(f"{freqs[i][:300]} :: {w}" for i, w in fbad[:5]))

    # ======================================================================
    # oracle on the unpatched code
    # ======================================================================
    oracle(ctx, Surrogates, RecurrencePlot, rng, nprng, quick)


def check_perm(ctx, name, out, data, replay):
    out = np.asarray(out)
    if out.shape != data.shape or any(
            sorted(out[i].tolist()) != sorted(data[i].tolist()) for i in range(data.shape[0])):
        ctx.fail({"kind": "not-a-row-permutation", "method": name},
                 f"{name}: output is not a row-wise permutation of the data", replay)
        return False
    return True


def check_spectrum(ctx, name, out, data, replay, bins="inner"):
    out = np.asarray(out)
    n = data.shape[1]
    if out.shape != data.shape:
        ctx.fail({"kind": "shape", "method": name}, f"{name}: shape {out.shape}", replay)
        return False
    a0, a1 = amp(data), amp(out)
    idx = list(inner_bins(n)) if bins == "inner" else list(range(a0.shape[1]))
    for i in range(data.shape[0]):
        scale = max(1.0, float(a0[i].max()))
        for f in idx:
            if not abs(a0[i, f] - a1[i, f]) <= TOL * scale:
                nan = bool(np.isnan(a1[i, f]))
                ctx.fail({"kind": "amplitude-spectrum", "method": name, "nan": nan},
                         f"{name}: amplitude at frequency {f} of series {i} is {a1[i, f]}, "
                         f"original {a0[i, f]}", dict(replay, series=i, frequency=f))
                return False
    return True


def oracle(ctx, Surrogates, RecurrencePlot, rng, nprng, quick):
    nor = 500 if quick else 5000
    for c in range(nor):
        kind, data = gen_data(rng, nprng, quick)
        if c == 0:
            kind, data = "constant", np.full((2, 8), 1.5)
        if c == 1:
            kind, data = "single", np.array([[2.0]])
        N, n = data.shape
        seed = rng.randrange(2 ** 31)
        np.random.seed(seed)
        pyrandom.seed(seed)
        s = Surrogates(data.copy(), silence_level=3)
        pristine = data.copy()
        hist = []
        for call in range(rng.choice([1, 2, 3, 4])):
            g = rng.choice(["white", "fourier", "aaft", "refined", "refined_s", "twin", "normalize"])
            hist.append(g)
            if g == "normalize":
                # the documented mutator: from now on the guarantees refer to the normalised data
                with quiet():
                    s.normalize_original_data()
                pristine = s.original_data.copy()
                ctx.count("oracle:normalize")
                continue
            rep = {"data": pristine.tolist(), "numpy_and_random_seed": seed, "history": list(hist)}
            ctx.count(f"oracle:{g}")
            try:
                with quiet():
                    if g == "white":
                        check_perm(ctx, "white_noise_surrogates", s.white_noise_surrogates(),
                                   pristine, rep)
                    elif g == "fourier":
                        check_spectrum(ctx, "correlated_noise_surrogates",
                                       s.correlated_noise_surrogates(), pristine, rep)
                    elif g == "aaft":
                        check_perm(ctx, "AAFT_surrogates", s.AAFT_surrogates(), pristine, rep)
                    elif g == "refined":
                        nit = rng.choice([0, 1, 2, 5])
                        rep["n_iterations"] = nit
                        check_perm(ctx, "refined_AAFT_surrogates",
                                   s.refined_AAFT_surrogates(nit, output="true_amplitudes"),
                                   pristine, rep)
                    elif g == "refined_s":
                        nit = rng.choice([0, 1, 1, 2, 5])
                        rep["n_iterations"] = nit
                        rep["output"] = "both"
                        try:
                            R, sp = s.refined_AAFT_surrogates(nit, output="both")
                        except UnboundLocalError as e:
                            ctx.fail({"kind": "raises", "method": "refined_AAFT_surrogates",
                                      "n_iterations": nit, "error": "UnboundLocalError"},
                                     f"refined_AAFT_surrogates(n_iterations={nit}, output='both') "
                                     f"raised UnboundLocalError: {e}", rep)
                            continue
                        check_perm(ctx, "refined_AAFT_surrogates", R, pristine, rep)
                        degenerate = bool((amp(R)[:, 1:] == 0).any()) or n == 1
                        if check_spectrum(ctx, "refined_AAFT_surrogates:true_spectrum"
                                          + (":zero-coefficient" if degenerate else ""),
                                          sp, pristine, rep, bins="all"):
                            pass
                    else:
                        dim = rng.choice([1, 2, 3])
                        delay = rng.choice([0, 1, 2])
                        if (dim - 1) * delay > n:
                            dim, delay = 1, 0
                        thr = rng.choice([0.0, 0.125, 0.5, 1.0, 2.0, 0.3, 0.7])
                        md = rng.choice([0, 1, 2, 7])
                        rep.update(dimension=dim, delay=delay, threshold=thr, min_dist=md)
                        out = s.twin_surrogates(dim, delay, thr, md)
                        tw = s.twins(thr, md)
                        check_twin_surrogates(ctx, "Surrogates", out, tw, pristine, dim, delay,
                                              thr, md, rep)
            except Exception as e:  # noqa
                ctx.fail({"kind": "raises", "method": g, "error": type(e).__name__},
                         f"{g} raised {type(e).__name__}: {e}", rep)
            if not np.array_equal(s.original_data, pristine):
                ctx.fail({"kind": "original-data-changed", "method": g},
                         f"{g} changed original_data, later surrogates refer to different data", rep)
                break
        ctx.case(("oracle", data.tobytes().hex(), seed, tuple(hist)), n >= 4)

    # ---- RecurrencePlot twins on the unpatched code ---------------------------
    nrp = 200 if quick else 2000
    for c in range(nrp):
        n = rng.choice([2, 3, 5, 8, 13, 21, 30])
        kind = rng.choice(["periodic", "int", "float"])
        if kind == "periodic":
            per = rng.choice([2, 3, 4, 5])
            base = [rng.randrange(0, 4) for _ in range(per)]
            ts = np.array([base[t % per] for t in range(n)], dtype=float)
        elif kind == "int":
            ts = np.array([rng.randrange(0, 3) for _ in range(n)], dtype=float)
        else:
            ts = nprng.rand(n)
        dim = rng.choice([1, 2, 3])
        tau = rng.choice([1, 2])
        if (dim - 1) * tau >= n:
            dim, tau = 1, 1
        md = rng.choice([0, 1, 2, 7])
        ns = rng.choice([1, 2, 3])
        variant = rng.choice(["threshold", "recurrence_rate", "local_recurrence_rate"])
        kw = {"threshold": rng.choice([0.125, 0.5, 1.0])} if variant == "threshold" else \
            {variant: rng.choice([0.2, 0.4, 0.6])}
        seed = rng.randrange(2 ** 31)
        pyrandom.seed(seed)
        rep = {"time_series": ts.tolist(), "dim": dim, "tau": tau, "min_dist": md,
               "n_surrogates": ns, "metric": "supremum", **kw}
        ctx.count(f"oracle:rp:{variant}")
        try:
            with quiet():
                rp = RecurrencePlot(ts, dim=dim, tau=tau, metric="supremum", silence_level=3, **kw)
                for call in range(rng.choice([1, 2, 3])):
                    R = np.array(rp.recurrence_matrix()).astype(bool)
                    NN = R.shape[0]
                    tw = rp.twins(md)
                    exp = twins_by_definition(R, md)
                    sym = bool(np.array_equal(R, R.T))
                    if [sorted(x) for x in tw[:NN]] != exp or len(tw) < NN:
                        ctx.fail({"kind": "twins-differ-from-definition", "class": "RecurrencePlot",
                                  "symmetric_R": sym},
                                 "RecurrencePlot.twins differs from: separated by more than min_dist, "
                                 "identical rows of R, more than one neighbour",
                                 dict(rep, expected=exp, observed=tw))
                        break
                    out = rp.twin_surrogates(ns, md)
                    emb = np.array(rp.embedding)
                    for i in range(ns):
                        ok, j = trajectory_ok(out[i], emb, exp, NN)
                        if out.shape != (ns, NN, emb.shape[1]) or not ok:
                            ctx.fail({"kind": "twin-walk", "class": "RecurrencePlot"},
                                     f"twin surrogate {i}: step {j} is neither the successor of the "
                                     "previous state nor of one of its twins (nor an allowed restart)",
                                     dict(rep, surrogate=out[i].tolist(), python_random_seed=seed))
                            break
        except Exception as e:  # noqa
            ctx.fail({"kind": "raises", "class": "RecurrencePlot", "method": "twin_surrogates",
                      "error": type(e).__name__},
                     f"RecurrencePlot.twins/twin_surrogates raised {type(e).__name__}: {e}", rep)
        ctx.case(("oracle-rp", ts.tobytes().hex(), dim, tau, md, ns, str(kw), seed), n >= 5)


def check_twin_surrogates(ctx, cls, out, tw, data, dim, delay, thr, md, rep):
    N, n = data.shape
    nT = n - (dim - 1) * delay
    out = np.asarray(out)
    if out.shape != (N, nT):
        ctx.fail({"kind": "shape", "method": "twin_surrogates"}, f"shape {out.shape}", rep)
        return
    thr32 = float(np.float32(thr))
    for i in range(N):
        emb = np.array([[data[i, k + l * delay] for l in range(dim)] for k in range(nT)]) \
            .reshape(nT, dim)
        R = brute_R(emb, thr32)
        exp = twins_by_definition(R, md)
        if [sorted(x) for x in tw[i]] != exp:
            ctx.fail({"kind": "twins-differ-from-definition", "class": cls},
                     "Surrogates.twins differs from: separated by more than min_dist, identical "
                     "recurrence neighbourhoods, more than one neighbour",
                     dict(rep, series=i, expected=exp, observed=tw[i]))
            return
        ok, j = trajectory_ok(out[i].reshape(-1, 1), emb[:, :1], exp, nT)
        if not ok:
            ctx.fail({"kind": "twin-walk", "class": cls},
                     f"twin surrogate of series {i}: step {j} is neither the successor of the "
                     "previous state nor of one of its twins (nor an allowed restart)",
                     dict(rep, series=i, surrogate=out[i].tolist()))
            return
