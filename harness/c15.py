"""C15 — Surrogates preserve exactly what each method promises.

proof  : lean/Pyunicorn/Properties/C15.lean (shuffle / rank remapping are row
         permutations for every permutation / every ranked array / every number
         of refinement steps; Fourier and 'true spectrum' surrogates have the
         original amplitude spectrum — phase multiplication over every call
         history composed with the real DFT pair on ZMod n and its round trip;
         twin lists = definition; twin walk invariants for every draw stream;
         twin_surrogates as a whole; the loop-level model of the kernels —
         np.empty work arrays re-used across series, nR bookkeeping, running
         embedding index, index arithmetic regenerated from surrogates.py and
         numerics.pyx by translate/gen_arith.py — equals the abstract model;
         round 3: the neighbour counter in the machine integer the source declares
         (exact up to n_time = 2^bits, sharp), every store / decrement / scan
         subscript of _twins_s and _twins_r from the source, RecurrencePlot.
         twin_surrogates as a whole, a Surrogates object over every call history)
tie    : correspondence of lean/Pyunicorn/Model/Surrogates.lean with the real
         code on the same inputs, with the random choices *recorded or fed*:
         the module globals `random` / `np` of surrogates.py and `random` of the
         compiled numerics module are replaced by recording proxies (numpy's
         shuffle permutation, the phases, the arrays irfft returns, the
         random.random() stream).  Exact on rationals; the phase multiplication
         is compared in IEEE double with tolerance.  The in-place/copy mode of
         the phase multiplication is read off the source (ast) on every run, and so
         are the width of the neighbour counter and the re-embedding / cache-key
         policy of twin_surrogates / twins (obligations + model parameters).
search : oracle independent of the model on the *unpatched* code: row-wise
         multiset equality, amplitude spectra via numpy.fft.rfft, twin lists
         against the definition on a brute-force recurrence matrix, every
         transition of every twin surrogate located in the original series;
         all of it over histories of repeated / interleaved calls on one object.
"""
import ast
import contextlib
import io
import os
import random as pyrandom
from fractions import Fraction

import numpy as np

from . import common

TOL = 1e-9
HAVE_DRIVER = True


# --------------------------------------------------------------------------
# encoding
# --------------------------------------------------------------------------

def enc_num(x):
    if not isinstance(x, Fraction) and not np.isfinite(x):
        return "nan"        # uninitialised memory / overflow of the code under test: never a model value
    f = x if isinstance(x, Fraction) else Fraction(float(x))
    return str(f.numerator) if f.denominator == 1 else f"{f.numerator}/{f.denominator}"


def enc_vec(v):
    return ",".join(enc_num(x) for x in v) or "-"


def enc_ivec(v):
    return ",".join(str(int(x)) for x in v) or "-"


def enc_mat(m):
    m = list(m)
    return ";".join(enc_vec(r) for r in m) if m else "E"


def enc_imat(m):
    m = list(m)
    return ";".join(enc_ivec(r) for r in m) if m else "E"


def enc_mats(ms, f=enc_mat):
    ms = list(ms)
    return "|".join(f(m) for m in ms) if ms else "N"


def quiet():
    return contextlib.redirect_stdout(io.StringIO())


def float_tok(x):
    """an IEEE double exactly, in the form the driver's `showFloat` prints: mantissa:exponent"""
    import math
    x = float(x)
    if math.isnan(x) or math.isinf(x):
        return "nan"
    m, e = math.frexp(x)
    return f"{int(m * 2.0 ** 53)}:{e - 53}"


# --------------------------------------------------------------------------
# recording proxies
# --------------------------------------------------------------------------

class NpRandomProxy:
    """stands in for the module global `random` (= numpy.random) of surrogates.py"""

    def __init__(self, seed):
        self.rs = np.random.RandomState(seed)
        self.perms, self.phases, self.gauss = [], [], []

    def shuffle(self, row):
        # numpy's own in-place shuffle runs on the view it is handed; the permutation it
        # applied is recovered by replaying the same generator state on an index array
        # (the legacy Fisher-Yates loop draws the same swaps whatever the content)
        state = self.rs.get_state()
        self.rs.shuffle(row)
        twin = np.random.RandomState()
        twin.set_state(state)
        idx = np.arange(len(row))
        twin.shuffle(idx)
        self.perms.append([int(i) for i in idx])

    def uniform(self, low=0.0, high=1.0, size=None):
        ph = self.rs.uniform(low=low, high=high, size=size)
        self.phases.append(np.array(ph, copy=True))
        return ph

    def randn(self, *shape):
        g = self.rs.randn(*shape)
        self.gauss.append(g.copy())
        return g

    def __getattr__(self, k):
        return getattr(np.random, k)


class FftProxy:
    def __init__(self):
        self.rfft_in, self.rfft_out, self.irfft_in, self.irfft_out = [], [], [], []

    def rfft(self, a, *args, **kw):
        self.rfft_in.append(np.array(a, copy=True))
        r = np.fft.rfft(a, *args, **kw)
        self.rfft_out.append(r.copy())
        return r

    def irfft(self, a, *args, **kw):
        self.irfft_in.append(np.array(a, copy=True))
        r = np.fft.irfft(a, *args, **kw)
        self.irfft_out.append(r.copy())
        return r

    def __getattr__(self, k):
        return getattr(np.fft, k)


class NpProxy:
    def __init__(self):
        self.fft = FftProxy()

    def __getattr__(self, k):
        return getattr(np, k)


class DrawProxy:
    """stands in for the module global `random` of the compiled numerics module:
    feeds a prepared stream of values of random.random()"""

    def __init__(self, draws):
        self.draws, self.used = list(draws), 0

    def random(self):
        if self.used >= len(self.draws):
            raise RuntimeError("draw stream exhausted")
        v = self.draws[self.used]
        self.used += 1
        return float(v)

    def seed(self, *a, **k):
        return None

    def __getattr__(self, k):
        return getattr(pyrandom, k)


@contextlib.contextmanager
def patched(mod, **names):
    old = {k: getattr(mod, k) for k in names}
    try:
        for k, v in names.items():
            setattr(mod, k, v)
        yield
    finally:
        for k, v in old.items():
            setattr(mod, k, v)


@contextlib.contextmanager
def guarded(ctx, method, replay):
    """an exception of the code under test on a valid input is a failing input"""
    try:
        yield
    except Exception as e:  # noqa
        ctx.fail({"kind": "raises", "method": method, "error": type(e).__name__},
                 f"{method} raised {type(e).__name__}: {e}", replay)


def phase_mode():
    """inplace | copy: how correlated_noise_surrogates applies the phases to the
    array returned by the cached original_data_fft()."""
    src = open(os.path.join(common.REPO, "src/pyunicorn/timeseries/surrogates.py")).read()
    tree = ast.parse(src)
    for node in ast.walk(tree):
        if isinstance(node, ast.FunctionDef) and node.name == "correlated_noise_surrogates":
            cached = set()
            for st in ast.walk(node):
                if isinstance(st, ast.Assign) and isinstance(st.value, ast.Call) and \
                        isinstance(st.value.func, ast.Attribute) and \
                        st.value.func.attr == "original_data_fft":
                    cached |= {t.id for t in st.targets if isinstance(t, ast.Name)}
            for st in ast.walk(node):
                if isinstance(st, ast.AugAssign) and isinstance(st.target, ast.Name) and \
                        st.target.id in cached and isinstance(st.op, ast.Mult):
                    return "inplace"
            return "copy"
    return "copy"


_TYPE_BITS = {"INT8TYPE": 8, "INT16TYPE": 16, "INT32TYPE": 32, "INT64TYPE": 64}


def counter_bits():
    """width of the machine integer the neighbour counter `nR` of the twin search lives in, read off
    the source: dtype of `nR = np.empty(n_time, dtype=X)` in Surrogates.twins, X resolved in
    core/_ext/types.py; the buffer type `ndarray[X_t, ndim=1] nR` of `_twins_s` must be the same
    type.  Returns (bits | None, dtype name, what was found)."""
    import re
    src = open(os.path.join(common.REPO, "src/pyunicorn/timeseries/surrogates.py")).read()
    name = None
    for node in ast.walk(ast.parse(src)):
        if isinstance(node, ast.FunctionDef) and node.name == "twins":
            for st in ast.walk(node):
                if isinstance(st, ast.Assign) and len(st.targets) == 1 and \
                        isinstance(st.targets[0], ast.Name) and st.targets[0].id == "nR" and \
                        isinstance(st.value, ast.Call):
                    for kw in st.value.keywords:
                        if kw.arg == "dtype" and isinstance(kw.value, ast.Name):
                            name = kw.value.id
    types = open(os.path.join(common.REPO, "src/pyunicorn/core/_ext/types.py")).read()
    m = re.search(rf"^{name}\s*=\s*(\w+)\s*$", types, re.M) if name else None
    bits = _TYPE_BITS.get(m.group(1)) if m else None
    pyx = open(os.path.join(common.REPO, "src/pyunicorn/timeseries/_ext/numerics.pyx")).read()
    sig = re.search(r"def _twins_s\((.*?)\):", pyx, re.S)
    kt = re.search(r"ndarray\[(\w+)_t,\s*ndim=1\]\s*nR", sig.group(1)) if sig else None
    kname = kt.group(1) if kt else None
    cast = re.search(r"nR\[j\]\s*=\s*<(\w+)_t>\s*n_time", pyx)
    cname = cast.group(1) if cast else None
    found = f"Surrogates.twins: dtype={name}; _twins_s: buffer {kname}_t, cast <{cname}_t>"
    if name is None or kname != name or cname != name:
        return None, name, found
    return bits, name, found


def twin_policy():
    """what Surrogates.twin_surrogates does with the stored embedding, and whether the mutation
    counter of the embedding setter is part of the cache key of `twins` — the `Policy` of
    Model/SurrogatesObject.lean.  Returns (reembed, key_mut, what was found)."""
    src = open(os.path.join(common.REPO, "src/pyunicorn/timeseries/surrogates.py")).read()
    tree = ast.parse(src)
    cls = next(n for n in tree.body if isinstance(n, ast.ClassDef) and n.name == "Surrogates")
    reembed, key_mut, setter_bumps, found = "unknown", False, False, []
    for fn in cls.body:
        if not isinstance(fn, ast.FunctionDef):
            continue
        if fn.name == "twin_surrogates":
            def is_embed_assign(st):
                return isinstance(st, ast.Assign) and any(
                    isinstance(t, ast.Attribute) and t.attr == "embedding" for t in st.targets) and \
                    "embed_time_series_array(self.original_data, dimension, delay)" in ast.unparse(st.value)
            top = [st for st in fn.body if is_embed_assign(st)]
            nested = [st for st in ast.walk(fn) if is_embed_assign(st) and st not in top]
            calls_twins = [st for st in fn.body if "self.twins(threshold, min_dist)" in ast.unparse(st)]
            if top and calls_twins and fn.body.index(top[0]) < fn.body.index(calls_twins[0]):
                reembed = "always"
            elif nested:
                reembed = "ifStale"
            found.append(f"twin_surrogates: embedding assigned {'unconditionally' if top else 'conditionally' if nested else 'never'}")
        if fn.name == "twins":
            for d in fn.decorator_list:
                u = ast.unparse(d)
                if "Cached.method" in u and "_mut_embedding" in u:
                    key_mut = True
            found.append("twins: " + "; ".join(ast.unparse(d) for d in fn.decorator_list))
        if fn.name == "__cache_state__":
            if "self._mut_embedding" in ast.unparse(fn):
                key_mut = True
            found.append("__cache_state__: " + ast.unparse(fn.body[-1]))
        if fn.name == "embedding" and any("setter" in ast.unparse(d) for d in fn.decorator_list):
            setter_bumps = any(isinstance(st, ast.AugAssign) and "_mut_embedding" in ast.unparse(st.target)
                               and isinstance(st.op, ast.Add) for st in ast.walk(fn))
            found.append(f"embedding setter bumps _mut_embedding: {setter_bumps}")
    return reembed, (key_mut and setter_bumps), "; ".join(found)


# --------------------------------------------------------------------------
# generators
# --------------------------------------------------------------------------

def gen_data(rng, nprng, quick, kinds=("int", "dyadic", "float", "periodic"), variants=True):
    """base data (float64, C order) and, with `variants`, the form in which the caller hands it
    over: float32 / int64 copies, non-contiguous or Fortran-ordered views, exact power-of-two
    rescalings.  Returns (kind, array, tags)."""
    kind, d = gen_base(rng, nprng, quick, kinds)
    tags = []
    if not variants:
        return kind, d, tags
    r = rng.random()
    if r < 0.12:
        e = rng.choice([-300, -100, -30, 30, 100, 300])
        d = d * (2.0 ** e)
        tags.append(f"scaled:2^{e}")
    r = rng.random()
    if r < 0.10:
        with np.errstate(all="ignore"):
            d32 = d.astype(np.float32)
        if np.isfinite(d32).all():
            d = d32
            tags.append("float32")
    elif r < 0.16 and kind in ("int", "periodic") and not tags and np.all(d == np.round(d)):
        d = d.astype(np.int64)
        tags.append("int64")
    r = rng.random()
    if r < 0.08:
        big = np.zeros((d.shape[0], 2 * d.shape[1]), dtype=d.dtype)
        big[:, ::2] = d
        d = big[:, ::2]
        tags.append("strided-view")
    elif r < 0.16:
        d = np.asfortranarray(d)
        tags.append("fortran-order")
    return kind, d, tags


def tol_for(data):
    """relative tolerance of the spectrum comparisons: double precision, or single precision when
    the caller's array is float32 (numpy.fft then works in complex64)"""
    return 2e-5 if np.asarray(data).dtype == np.float32 else TOL


def gen_base(rng, nprng, quick, kinds):
    kind = rng.choice(kinds)
    N = rng.choice([1, 1, 2, 3, 4])
    n = rng.choice([1, 2, 3, 4, 5, 6, 7, 8, 9, 12, 15, 16, 21, 32] if quick else
                   [1, 2, 3, 4, 5, 6, 7, 8, 9, 12, 15, 16, 21, 32, 33, 48, 63, 64])
    if kind == "int":
        d = np.array([[rng.randrange(-3, 4) for _ in range(n)] for _ in range(N)], dtype=float)
    elif kind == "dyadic":
        d = np.array([[rng.randrange(-40, 41) / 8 for _ in range(n)] for _ in range(N)])
    elif kind == "periodic":
        per = rng.choice([2, 3, 4, 5])
        base = [[rng.randrange(0, 4) for _ in range(per)] for _ in range(N)]
        d = np.array([[base[i][t % per] + (rng.choice([0, 0, 0, 0.125]) if n > 6 else 0)
                       for t in range(n)] for i in range(N)], dtype=float)
    elif kind == "constant":
        d = np.array([[rng.choice([0.0, 1.5, -2.0])] * n for _ in range(N)])
    elif kind == "two-level":
        d = np.array([[rng.choice([0.0, 1.0]) for _ in range(n)] for _ in range(N)])
    else:
        d = nprng.randn(N, n)
    return kind, d


def clone(d):
    """a fresh array with the caller-side layout of `d` (C, Fortran or strided view)"""
    if d.flags.c_contiguous:
        return d.copy()
    if d.flags.f_contiguous:
        return np.asfortranarray(d.copy())
    big = np.zeros((d.shape[0], 2 * d.shape[1]), dtype=d.dtype)
    big[:, ::2] = d
    return big[:, ::2]


def close_rows(a, b, tol):
    a, b = np.asarray(a, dtype=float), np.asarray(b, dtype=float)
    if a.shape != b.shape:
        return False
    for x, y in zip(a, b):
        scale = float(np.abs(y).max()) if y.size else 0.0
        if not np.all(np.abs(x - y) <= tol * scale) and not np.array_equal(x, y, equal_nan=True):
            return False
    return True


def _norm_states(hist):
    """the value of `_normalized` at every Fourier call of a history"""
    st, out = False, []
    for h in hist:
        if h == "normalize":
            st = True
        else:
            out.append(st)
    return out


def gen_rp(rng, n, floats=None):
    """a RecurrencePlot configuration: scalar series with embedding or a multi-column series taken
    as is; every metric; every way of fixing the neighbourhoods.  Dyadic data and thresholds, so
    the recurrence matrix is decided exactly."""
    kind = rng.choice(["int", "periodic", "dyadic", "two-column"] + (["float"] if floats else []))
    if kind == "periodic":
        per = rng.choice([2, 3, 4])
        base = [rng.randrange(0, 4) for _ in range(per)]
        ts = np.array([base[t % per] for t in range(n)], dtype=float)
    elif kind == "int":
        ts = np.array([rng.randrange(0, 3) for _ in range(n)], dtype=float)
    elif kind == "two-column":
        ts = np.array([[rng.randrange(0, 3), rng.randrange(0, 2)] for _ in range(n)], dtype=float)
    elif kind == "float":
        ts = floats.rand(n)
    else:
        ts = np.array([rng.randrange(0, 17) / 8 for _ in range(n)])
    kw = {"metric": rng.choice(["supremum", "supremum", "manhattan", "euclidean"])}
    dim = tau = None
    if ts.ndim == 1:
        dim = rng.choice([1, 2, 2, 3])
        tau = rng.choice([1, 1, 2])
        if (dim - 1) * tau >= n:
            dim, tau = 1, 1
        if rng.random() < 0.85:
            kw.update(dim=dim, tau=tau)
    if rng.random() < 0.1:
        ts = ts.astype(np.float32)
    variant = rng.choice(["threshold", "threshold", "local_recurrence_rate", "recurrence_rate",
                          "adaptive_neighborhood_size", "threshold_std"])
    if variant == "threshold":
        kw["threshold"] = rng.choice([0.125, 0.5, 0.5, 1.0, 1.5, 4.0])
    elif variant == "threshold_std":
        kw["threshold_std"] = rng.choice([0.25, 0.5, 1.0])
    elif variant == "adaptive_neighborhood_size":
        kw["adaptive_neighborhood_size"] = rng.choice([0.2, 0.4, 0.6])
    else:
        kw[variant] = rng.choice([0.2, 0.4, 0.6])
    if rng.random() < 0.1 and np.all(np.asarray(ts, dtype=float).std(axis=0) > 0):
        kw["normalize"] = True
    return ts, kind, dim, tau, kw, variant


def rank_hypothesis(ctx, reqs, impl, arr, exact_ok):
    """hypothesis of the rank-remapping theorems.  Round 5f: the only thing taken from numpy is
    that each of the two `argsort` calls in `a.argsort(axis=1).argsort(axis=1)` returns AN argsort
    of its argument (`IsArgsort` / `IsArgsortNat`: a permutation of the index range along which the
    argument is non-decreasing, ties in any order) -- decided by the driver on numpy's own two index
    arrays for every row with ties.  That the second array is then a `RankOf` is the theorem
    `argsort_argsort_is_rank` (Properties/C15.lean); the round-4 evaluation of `RankOf` on numpy's
    rank array is kept as a redundant cross-check of that theorem's conclusion (same rows, same
    arrays, no new random stream)."""
    arr = np.asarray(arr)
    if not exact_ok or not np.isfinite(np.asarray(arr, dtype=float)).all() or not has_ties(arr):
        return
    first = arr.argsort(axis=1)                 # numpy's first argsort (tie order unspecified)
    rk = first.argsort(axis=1)                  # == arr.argsort(axis=1).argsort(axis=1)
    for i in range(arr.shape[0]):
        if len(set(arr[i].tolist())) < arr.shape[1]:
            reqs.append(f"isargsort {enc_vec(arr[i])} {enc_ivec(first[i])}")
            impl.append("1")
            reqs.append(f"isargsortnat {enc_ivec(first[i])} {enc_ivec(rk[i])}")
            impl.append("1")
            ctx.count("gen:numpy-argsorts-of-tied-row-are-IsArgsort")
            reqs.append(f"rankof {enc_vec(arr[i])} {enc_ivec(rk[i])}")     # theorem's conclusion
            impl.append("1")
            reqs.append(f"rankof_model {enc_vec(arr[i])}")      # the model's own stable ranks
            impl.append("1")
            ctx.count("gen:rank-array-of-tied-row-is-RankOf")


def has_ties(a):
    a = np.asarray(a)
    return any(len(set(row.tolist())) < len(row) for row in a)


# --------------------------------------------------------------------------
# brute-force definitions for the oracle (independent of the Lean model)
# --------------------------------------------------------------------------

def brute_R(emb, thr32):
    """supremum-norm recurrence matrix of an embedded series, threshold as the
    kernel receives it (C float), diagonal one"""
    n = emb.shape[0]
    R = np.ones((n, n), dtype=bool)
    for j in range(n):
        for k in range(n):
            if j != k:
                R[j, k] = all(abs(emb[j, l] - emb[k, l]) <= thr32 for l in range(emb.shape[1]))
    return R


def twins_by_definition(R, md):
    n = R.shape[0]
    out = []
    for j in range(n):
        out.append([k for k in range(n)
                    if abs(j - k) > md and R[j].sum() != 1 and np.array_equal(R[j], R[k])])
    return out


def trajectory_ok(out_states, orig_states, twins, N):
    """is there an index path through the original states that produces the
    surrogate, every step being own successor / twin successor / a restart that
    is allowed only where such a successor does not exist?  Returns (ok, j)."""
    def cands(v):
        return [k for k in range(N) if np.array_equal(orig_states[k], v)]
    F = set(cands(out_states[0])) if len(out_states) else set()
    if len(out_states) and not F:
        return False, 0
    for j in range(1, len(out_states)):
        C = cands(out_states[j])
        if not C:
            return False, j
        G = set()
        for b in C:
            for a in F:
                succ = [a + 1] + [t + 1 for t in twins[a]]
                if b in succ or any(s >= N for s in succ):
                    G.add(b)
                    break
        if not G:
            return False, j
        F = G
    return True, -1


def amp(a):
    return np.abs(np.fft.rfft(a))


def inner_bins(n):
    """non-zero, non-Nyquist frequencies of a length-n real series"""
    return range(1, (n + 1) // 2)


# --------------------------------------------------------------------------

def run(ctx):
    import pyunicorn.timeseries.surrogates as SM
    from pyunicorn.timeseries import Surrogates, RecurrencePlot
    from pyunicorn.timeseries._ext import numerics as K
    rng = ctx.rng
    nprng = np.random.RandomState(rng.randrange(2 ** 31))
    quick = ctx.tier == "quick"
    ctx.rule = ("data sets (N 1-4 series, length 1-64, odd and even; integer with ties, dyadic, "
                "periodic, constant, two-level, Gaussian; float64 / float32 / int64, C / Fortran / strided, "
                "rescaled by 2^+-30..300) x generators (white noise, Fourier, AAFT, refined AAFT, twin "
                "surrogates of Surrogates and RecurrencePlot) x histories of 1-4 repeated / "
                "interleaved calls on one object incl. normalize_original_data; twins: dimension 1-5, "
                "delay 0-6, dyadic thresholds up to 2^17, min_dist 0-40 / default / >= n, kernels on "
                "random work arrays; RecurrencePlot: all metrics and neighbourhood rules; distinct = distinct (generator, data, parameters, random stream); "
                "non-trivial = length >= 4 and (for twins) at least one twin pair exists")
    ctx.trusted = common.DEFAULT_TRUSTED + [
        "numpy.fft.rfft/irfft compute, up to rounding, the real DFT pair of Lemmas/SurrogatesDFT.lean "
        "(compared with the explicit sums on every run); numpy.random.shuffle applies a permutation in "
        "place (recorded and checked on every case); numpy argsort returns a sorting permutation",
        "IEEE double: the products random.random()*N of the fed 20-bit dyadic draws are exact",
    ]
    ctx.assumptions = [
        "Fourier / true-spectrum clauses are stated on the mathematical DFT pair (round trip proved); "
        "float rounding of numpy.fft and of the complex arithmetic is outside the theorems (relative "
        "tolerance 1e-9 in correspondence and oracle, 2e-5 for float32 caller arrays)",
        "min_dist >= 0, dimension >= 1, delay >= 0 (negative values are outside the stated domain)",
    ]
    global HAVE_DRIVER
    HAVE_DRIVER = True
    try:
        ctx.proofs()
    except common.BuildError as e:
        # the loop-level model no longer builds against the arithmetic regenerated from the
        # source (or a theorem about it broke the driver's imports): a broken tie, reported;
        # the failing input is the oracle's to find.  No model answers in this run.
        ctx.obligation("model and driver build against Generated/ArithC15.lean", "lean-build",
                       False, str(e)[-1500:])
        HAVE_DRIVER = False
    mode = phase_mode()
    ctx.count(f"phase-multiplication-mode:{mode}")
    bits, cname, cfound = counter_bits()
    ctx.count(f"neighbour-counter:{cname}:{bits}-bit")
    # `int n_time` of the kernels is a C int: the counter theorem must cover every value it can hold
    ctx.obligation("twins_counter_width_exact covers every n_time a C int holds: the neighbour counter "
                   f"nR of _twins_s has 2^bits >= 2^31 ({cfound}; bits={bits})", "translator",
                   bits is not None and bits >= 32,
                   "the counter wraps for n_time > 2^bits: a state with 2^bits+1 neighbours is taken for an "
                   "isolated one (twins_counter_wrap_loses_twins); the thorough tier runs n_time = 65537")
    cbits = bits or 16
    cdtype = {8: np.int8, 16: np.int16, 32: np.int32, 64: np.int64}[cbits]
    reembed, key_mut, pfound = twin_policy()
    ctx.count(f"twin_surrogates-embedding-policy:{reembed}:key_mut={int(key_mut)}")
    ctx.obligation("twin_surrogates_every_history / twins_cache_coherent are about the code's policy: "
                   "twin_surrogates re-embeds original_data unconditionally before twins(), the embedding "
                   f"setter bumps _mut_embedding and that counter is in the cache key of twins ({pfound})",
                   "translator", reembed == "always" and key_mut,
                   "see stale_embedding_witness; the history correspondence runs the model with the policy "
                   "read off the source, the oracle looks for the failing history")
    pol = f"{'always' if reembed == 'always' else 'ifStale'} {int(key_mut)}"

    reqs, impl = [], []          # exact correspondence
    freqs, fimpl = [], []        # float correspondence (phase multiplication)

    def sub_seed():
        return rng.randrange(2 ** 31)

    # ======================================================================
    # A/B/C: white noise, Fourier, AAFT, refined AAFT — patched correspondence
    # ======================================================================
    ncase = 800 if quick else 5000
    struct_bad, perm_bad = [], []
    sreqs, simpl = [], []        # float correspondence (refinement-loop spectrum)
    mreqs, mimpl = [], []        # float correspondence (generated body of correlated_noise_surrogates)
    for c in range(ncase):
        kind, data, tags = gen_data(rng, nprng, quick,
                                    kinds=("int", "dyadic", "float", "float", "periodic",
                                           "constant", "two-level"))
        N, n = data.shape
        seed = sub_seed()
        ctx.count(f"data:{kind}")
        for t in tags:
            ctx.count("caller-array:" + t.split(":")[0])
        ctx.count("len:" + ("1" if n == 1 else "2" if n == 2 else "odd" if n % 2 else "even"))
        nontriv = n >= 4
        exact_ok = "scaled:2^300" not in tags and "scaled:2^-300" not in tags or rng.random() < 0.3
        # ---- white noise ---------------------------------------------------
        rp_, np_ = NpRandomProxy(seed), NpProxy()
        s = Surrogates(clone(data), silence_level=3)
        ncalls = rng.choice([1, 2, 3])
        rep = {"data": data.tolist(), "dtype": str(data.dtype), "layout": tags,
               "numpy_RandomState_seed": seed}
        with guarded(ctx, "white_noise_surrogates", rep), patched(SM, random=rp_, np=np_):
            for call in range(ncalls):
                rp_.perms = []
                out = s.white_noise_surrogates()
                for i, pm in enumerate(rp_.perms):
                    if sorted(pm) != list(range(n)):
                        perm_bad.append(f"row {i}: {pm[:12]}")
                if exact_ok:
                    reqs.append(f"white {enc_mat(data)} {enc_imat(rp_.perms)}")
                    impl.append(enc_mat(out))
        ctx.case(("white", data.tobytes().hex(), seed, ncalls), nontriv,
                 {"generator": "white_noise", "data": data.tolist(), "calls": ncalls} if n <= 5 else None)
        ctx.count("gen:white_noise", ncalls)
        # ---- Fourier: spectra handed to irfft over a call history, the documented mutator
        #      normalize_original_data() possibly in between ------------------------------
        rp_, np_ = NpRandomProxy(seed), NpProxy()
        s = Surrogates(clone(data), silence_level=3)
        ncalls = rng.choice([1, 2, 3, 4])
        floaty = data.dtype.kind == "f"
        hist = []
        for call in range(ncalls):
            if floaty and rng.random() < 0.2:
                hist.append("normalize")
            hist.append("fourier")
        segs = []      # (cache index, [phase index ...]) per memoised FFT
        with guarded(ctx, "correlated_noise_surrogates", dict(rep, history=hist)), \
                patched(SM, random=rp_, np=np_), np.errstate(all="ignore"):
            for h in hist:
                if h == "normalize":
                    d0 = np.array(s.original_data, copy=True)
                    m0, s0 = s.original_data.mean(axis=1), s.original_data.std(axis=1)
                    with quiet():
                        s.normalize_original_data()
                    ctx.count("gen:normalize-in-history")
                    d1 = s.original_data
                    if d1.dtype == d0.dtype and d0.dtype in (np.float64, np.float32) and \
                            np.isfinite(d0).all() and np.isfinite(m0).all() and np.isfinite(s0).all() \
                            and (d0.dtype == np.float64 or float(np.abs(d0[d0 != 0]).min(initial=1.0)) > 2.0 ** -100):
                        w = "64" if d0.dtype == np.float64 else "32"
                        reqs.append(f"normalize{w} {enc_vec(m0)} {enc_vec(s0)} {enc_mat(d0)}")
                        impl.append(";".join(",".join(float_tok(v) for v in r) or "-" for r in d1))
                        ctx.count(f"gen:normalize-loop-float{w}-bit-exact")
                    continue
                before = len(np_.fft.rfft_out)
                s.correlated_noise_surrogates()
                if len(np_.fft.rfft_out) > before or not segs:
                    segs.append((len(np_.fft.rfft_out) - 1, []))
                segs[-1][1].append(len(np_.fft.irfft_in) - 1)
                # the memoised FFT must be the FFT of the data the object holds now
                # (up to the tolerance of the spectrum clause: normalising normalised data again
                # moves it by rounding errors only and is not a new normalisation state)
                if np_.fft.rfft_in and not close_rows(np_.fft.rfft_in[-1], s.original_data,
                                                      tol_for(data)):
                    ctx.fail({"kind": "stale-fft-cache", "method": "correlated_noise_surrogates"},
                             "correlated_noise_surrogates used a memoised FFT of data the object "
                             "no longer holds", dict(rep, history=hist))
        exp_rfft = len({x for x in _norm_states(hist)})
        if len(np_.fft.rfft_out) != exp_rfft or len(np_.fft.irfft_in) != ncalls or \
                sum(len(x[1]) for x in segs) != ncalls:
            struct_bad.append(f"correlated_noise_surrogates history {hist}: rfft calls="
                              f"{len(np_.fft.rfft_out)} (expected {exp_rfft}) irfft calls="
                              f"{len(np_.fft.irfft_in)}")
        else:
            for ci, calls in segs:
                cache = np_.fft.rfft_out[ci]
                if not np.isfinite(cache).all():
                    continue
                for i in range(N):
                    ph = [rp_.phases[k][i] for k in calls]
                    freqs.append(f"fourier {mode} {enc_vec(cache[i].real)} {enc_vec(cache[i].imag)} "
                                 f"{enc_mat(ph)}")
                    fimpl.append(([np_.fft.irfft_in[k][i] for k in calls], tol_for(cache.real)))
                    # the method body as regenerated from the source, executed statement by statement
                    mreqs.append(f"fmethod {enc_vec(cache[i].real)} {enc_vec(cache[i].imag)} {enc_mat(ph)}")
                    mimpl.append(([np_.fft.irfft_in[k][i] for k in calls], tol_for(cache.real)))
        ctx.case(("fourier", data.tobytes().hex(), seed, tuple(hist)), nontriv)
        ctx.count("gen:correlated_noise", ncalls)
        # ---- AAFT / refined AAFT -------------------------------------------
        rp_, np_ = NpRandomProxy(seed), NpProxy()
        s = Surrogates(clone(data), silence_level=3)
        nit = rng.choice([0, 1, 2, 3] if quick else [0, 1, 2, 3, 5, 8])
        with guarded(ctx, "AAFT_surrogates/refined_AAFT_surrogates", dict(rep, n_iterations=nit)), \
                patched(SM, random=rp_, np=np_), np.errstate(all="ignore"):
            pre = rng.random() < 0.4
            if pre:
                s.correlated_noise_surrogates()     # a history before the call
                np_.fft.irfft_out, np_.fft.rfft_in, np_.fft.rfft_out = [], [], []
                rp_.gauss = []
            if rng.random() < 0.5:
                R = s.AAFT_surrogates()
                outs = np_.fft.irfft_out
                tie = any(has_ties(o) for o in outs)
                if len(outs) != 1 or len(rp_.gauss) != 1 or len(np_.fft.rfft_in) != 1:
                    struct_bad.append(f"AAFT_surrogates: {len(outs)} irfft calls, "
                                      f"{len(np_.fft.rfft_in)} rfft calls")
                else:
                    rank_hypothesis(ctx, reqs, impl, outs[0], exact_ok)
                    rank_hypothesis(ctx, reqs, impl, np.asarray(data), exact_ok)
                    if not tie and exact_ok:
                        reqs.append(f"aaft {enc_mat(data)} {enc_mat(outs[0])}")
                        impl.append(enc_mat(R))
                        ctx.count("gen:AAFT")
                    elif exact_ok and np.isfinite(outs[0]).all():
                        # ties in the ranked array: numpy's order among them is unspecified, the
                        # multiset of (ranked value, output value) pairs of every row is not
                        reqs.append(f"aaft {enc_mat(data)} {enc_mat(outs[0])}")
                        impl.append(("canon", np.array(R, dtype=float), np.array(outs[0], dtype=float)))
                        ctx.count("gen:AAFT:ties-compared-up-to-tie-order")
                    else:
                        ctx.count("skipped-for-correspondence:ranked-array-has-ties")
                    # first stage: the Gaussian reference in the rank order of the data is what
                    # the inner Surrogates object transforms
                    if not has_ties(data) and not has_ties(rp_.gauss[0]) and exact_ok:
                        reqs.append(f"rescaled {enc_mat(data)} {enc_mat(rp_.gauss[0])}")
                        impl.append(enc_mat(np_.fft.rfft_in[-1]))
                        ctx.count("gen:AAFT-first-stage")
                    elif exact_ok and not has_ties(rp_.gauss[0]):
                        reqs.append(f"rescaled {enc_mat(data)} {enc_mat(rp_.gauss[0])}")
                        impl.append(("canon", np.array(np_.fft.rfft_in[-1], dtype=float),
                                     np.array(data, dtype=float)))
                        ctx.count("gen:AAFT-first-stage:ties-compared-up-to-tie-order")
            else:
                R, sp = s.refined_AAFT_surrogates(nit, output="both") if nit else \
                    (s.refined_AAFT_surrogates(nit, output="true_amplitudes"), None)
                outs = np_.fft.irfft_out
                rin, rout = np_.fft.rfft_in, np_.fft.rfft_out
                if len(outs) != nit + 1 or len(rout) != nit + 1 + (not pre):
                    struct_bad.append(f"refined_AAFT_surrogates: {len(outs)} irfft / {len(rout)} rfft "
                                      f"calls for n_iterations={nit}")
                else:
                    rank_hypothesis(ctx, reqs, impl, outs[-1], exact_ok)
                    if exact_ok and all(np.isfinite(o).all() for o in outs) and \
                            any(has_ties(o) for o in outs):
                        # the result depends on the tie order only through the last ranked array
                        reqs.append(f"refined {enc_mat(data)} {enc_mat(outs[0])} {enc_mats(outs[1:])}")
                        impl.append(("canon", np.array(R, dtype=float), np.array(outs[-1], dtype=float)))
                        ctx.count("gen:refined_AAFT:ties-compared-up-to-tie-order")
                    elif any(has_ties(o) or np.isnan(o).any() for o in outs) or not exact_ok:
                        ctx.count("skipped-for-correspondence:ranked-array-has-ties")
                    else:
                        reqs.append(f"refined {enc_mat(data)} {enc_mat(outs[0])} {enc_mats(outs[1:])}")
                        impl.append(enc_mat(R))
                        ctx.count(f"gen:refined_AAFT:n_iterations={nit}")
                    # the refinement loop's spectrum: amps * exp(1j*angle(rfft(R))) handed to irfft
                    cache = s.original_data_fft()
                    if nit and np.isfinite(cache).all() and data.dtype != np.float32:
                        for it in range(nit):
                            rf = rout[len(rout) - nit + it]
                            zin = np_.fft.irfft_in[len(np_.fft.irfft_in) - nit + it]
                            if not np.isfinite(rf).all():
                                continue
                            for i in range(N):
                                sreqs.append(f"specin {enc_vec(cache[i].real)} {enc_vec(cache[i].imag)} "
                                             f"{enc_vec(rf[i].real)} {enc_vec(rf[i].imag)}")
                                simpl.append(([zin[i]], TOL))
                        ctx.count("gen:refinement-spectrum", nit)
        ctx.case(("aaft", data.tobytes().hex(), seed, nit), nontriv)
    ctx.obligation("hypothesis of shuffle_perm: every shuffle numpy applied is a permutation of the "
                   "index range", "correspondence", not perm_bad, "\n".join(perm_bad[:5]))

    # ======================================================================
    # D: twins of Surrogates — kernels and method, fed draw stream
    # ======================================================================
    ntw = 600 if quick else 5000
    tw_cases = []
    for c in range(ntw):
        kind, data, tags = gen_data(rng, nprng, quick,
                                    kinds=("int", "dyadic", "periodic", "periodic", "two-level",
                                           "constant"))
        scale_e = 0
        for t in tags:
            if t.startswith("scaled:2^"):
                scale_e = int(t[len("scaled:2^"):])
        if abs(scale_e) > 100:      # thresholds reach the kernel as C float
            data = clone(np.asarray(data, dtype=np.float64)) \
                * 2.0 ** (-scale_e + (30 if scale_e > 0 else -30))
            scale_e = 30 if scale_e > 0 else -30
        N, n = data.shape
        hist = []
        for call in range(rng.choice([1, 1, 2, 3])):
            dim = rng.choice([1, 1, 2, 2, 3, 4, 5])
            delay = rng.choice([0, 1, 1, 2, 3, 6])
            if (dim - 1) * delay > n:
                if rng.random() < 0.15:
                    hist.append((dim, delay, Fraction(1, 2), 0))   # outside the domain: ValueError
                    continue
                dim, delay = 1, 0
            thr = Fraction(rng.choice([0, 1, 1, 2, 4, 4, 8, 12, 16, 24, 64, 2 ** 20]), 8) \
                * Fraction(2) ** scale_e
            md = rng.choice([0, 0, 1, 1, 2, 3, 5, 7, 8, None, n, n + 3, 40])
            hist.append((dim, delay, thr, md))
        tw_cases.append((kind, data, tags, hist))
    for kind, data, tags, hist in tw_cases:
        N, n = data.shape
        s = Surrogates(clone(data), silence_level=3)
        for t in tags:
            ctx.count("twins-caller-array:" + t.split(":")[0])
        for (dim, delay, thr, md) in hist:
            nT = n - (dim - 1) * delay
            md_eff = 7 if md is None else md
            draws = [Fraction(rng.choice([0, 2 ** 20 - 1, rng.randrange(2 ** 20),
                                          rng.randrange(2 ** 20)]), 2 ** 20)
                     for _ in range(N * (2 * max(nT, 0) + 3) + 4)]
            dp = DrawProxy(draws)
            with patched(K, random=dp), quiet():
                try:
                    out = s.twin_surrogates(dim, delay, float(thr)) if md is None else \
                        s.twin_surrogates(dim, delay, float(thr), md)
                    got = enc_mat(out)
                    tw = s.twins(float(thr)) if md is None else s.twins(float(thr), md)  # cached
                    emb = s.embedding
                except Exception as e:  # noqa
                    got, tw, emb = "raise:" + type(e).__name__, None, None
            gseed = rng.randrange(1000)
            reqs.append(f"twinsurr_kw {cbits} {dim} {delay} {enc_num(thr)} {md_eff} {gseed} "
                        f"{enc_vec(draws)} {enc_mat(data)}")
            impl.append("raise:IndexError" if got == "raise:ValueError" else got)
            # round 5: the whole method on the source's expressions throughout (walk kernel included)
            reqs.append(f"twinsurr_src {cbits} {dim} {delay} {enc_num(thr)} {md_eff} {gseed} "
                        f"{enc_vec(draws)} {enc_mat(data)}")
            impl.append("raise:IndexError" if got == "raise:ValueError" else got)
            ctx.count("gen:Surrogates.twin_surrogates-source-level")
            if rng.random() < 0.2:
                reqs.append(f"twinsurr_k {dim} {delay} {enc_num(thr)} {md_eff} {gseed} {enc_vec(draws)} "
                            f"{enc_mat(data)}")
                impl.append("raise:IndexError" if got == "raise:ValueError" else got)
            if rng.random() < 0.25:
                reqs.append(f"twinsurr {dim} {delay} {enc_num(thr)} {md_eff} {enc_vec(draws)} "
                            f"{enc_mat(data)}")
                impl.append("raise:IndexError" if got == "raise:ValueError" else got)
            # the embedding wrapper at its own boundary
            reqs.append(f"embed_k {dim} {delay} {enc_vec(data[0])}")
            try:
                with quiet():
                    e0 = Surrogates.embed_time_series_array(data, dim, delay)
                impl.append(enc_mat(e0[0]) if e0.shape[1] else "E")
            except Exception as e:  # noqa
                impl.append("raise:" + type(e).__name__)
            npairs = 0
            if tw is not None:
                for i in range(N):
                    reqs.append(f"twins_s {enc_num(thr)} {md_eff} {enc_mat(emb[i])}")
                    impl.append(enc_imat(tw[i]))
                    npairs += sum(len(x) for x in tw[i])
                # the twin kernel at its own boundary: work arrays of arbitrary content, all
                # series in one call; its lists and the work arrays it leaves behind
                R0 = np.array([[rng.randrange(2) for _ in range(nT)] for _ in range(nT)],
                              dtype=np.int8).reshape(nT, nT)
                lim = 2 ** (cbits - 1)
                nR0 = np.array([rng.choice([rng.randrange(-3, 40), -lim, lim - 1, 1, rng.randrange(-lim, lim)])
                                for _ in range(nT)], dtype=cdtype)
                reqs.append(f"twins_kw {cbits} {enc_num(thr)} {md_eff} {enc_mats(emb)} {enc_imat(R0)} "
                            f"{enc_ivec(nR0)}")
                try:
                    tk = []
                    Rw, nRw = R0.copy(), nR0.copy()
                    K._twins_s(N, nT, dim, float(thr), md_eff, np.ascontiguousarray(emb), Rw, nRw, tk)
                    impl.append(enc_mats(tk, enc_imat) + "#" + enc_imat(Rw) + "#" + enc_ivec(nRw))
                except Exception as e:  # noqa
                    impl.append("raise:" + type(e).__name__)
                ctx.count("gen:_twins_s-on-arbitrary-work-arrays")
                # the walk kernel at its own boundary, on the same tables
                dp2 = DrawProxy(draws)
                reqs.append(f"walk_s {nT} {enc_vec(draws)} {enc_mats(tw, enc_imat)}")
                try:
                    with patched(K, random=dp2):
                        o2 = K._twin_surrogates_s(N, nT, tw,
                                                  np.ascontiguousarray(data, dtype=np.float64))
                    impl.append(("walk", o2, data, dp2.used))
                except Exception as e:  # noqa
                    impl.append("raise:" + type(e).__name__)
                # round 5: the same call against the loop-level walk on the source's expressions
                reqs.append(f"walk_sk {nT} {enc_vec(draws)} {enc_mats(tw, enc_imat)}")
                impl.append(impl[-1])
                ctx.count("gen:_twin_surrogates_s-loop-level")
            else:
                ctx.count("twins:outside-domain-raises")
            ctx.case(("twin_s", data.tobytes().hex(), dim, delay, str(thr), md, enc_vec(draws[:8])),
                     nT >= 4 and npairs > 0,
                     {"generator": "twin_surrogates", "data": data.tolist(), "dimension": dim,
                      "delay": delay, "threshold": float(thr), "min_dist": md} if n <= 6 else None)
            ctx.count("gen:twin_surrogates")
            ctx.count("twins:" + ("some" if npairs else "none"))
            ctx.count(f"twins:dim={dim}")
            ctx.count("twins:min_dist=" + ("default" if md is None else "0" if md == 0 else
                                           "1-3" if md <= 3 else "4-8" if md <= 8 else ">8"))

    # ======================================================================
    # E: RecurrencePlot.twins / twin_surrogates
    # ======================================================================
    nrp = 400 if quick else 3000
    for c in range(nrp):
        n = rng.choice([2, 3, 5, 8, 9, 12, 16, 21] if quick else [2, 3, 5, 8, 9, 12, 16, 21, 32, 40])
        ts, kind, dim, tau, kw, variant = gen_rp(rng, n)
        md = rng.choice([0, 1, 1, 2, 3, 7, n + 2])
        ns = rng.choice([1, 2, 3, 5])
        form = rng.choice(["explicit", "explicit", "explicit", "defaults", "keyword"])
        try:
            with quiet():
                rp = RecurrencePlot(ts, silence_level=3, **kw)
        except Exception as e:  # noqa
            ctx.fail({"kind": "raises", "class": "RecurrencePlot", "method": "__init__",
                      "error": type(e).__name__},
                     f"RecurrencePlot(...) raised {type(e).__name__}: {e}",
                     {"time_series": ts.tolist(), **kw})
            continue
        ctx.count(f"rp:{variant}")
        ctx.count(f"rp:metric={kw['metric']}")
        ncalls = rng.choice([1, 2])
        for call in range(ncalls):
            R = np.array(rp.recurrence_matrix())
            NN = R.shape[0]
            ns_eff = ns if form == "explicit" else 1
            md_eff = 7 if form == "defaults" else md
            draws = [Fraction(rng.choice([0, 2 ** 20 - 1, rng.randrange(2 ** 20),
                                          rng.randrange(2 ** 20)]), 2 ** 20)
                     for _ in range(ns_eff * (2 * NN + 3) + 4)]
            dp = DrawProxy(draws)
            try:
                with patched(K, random=dp), quiet():
                    if form == "explicit":
                        tw, out = rp.twins(md), rp.twin_surrogates(ns, md)
                    elif form == "defaults":
                        tw, out = rp.twins(), rp.twin_surrogates()
                    else:
                        tw, out = rp.twins(min_dist=md), rp.twin_surrogates(min_dist=md)
                used = dp.used
                err = None
            except Exception as e:  # noqa
                tw, out, used, err = None, None, 0, e
            if err is not None:
                ctx.fail({"kind": "raises", "class": "RecurrencePlot", "method": "twin_surrogates",
                          "error": type(err).__name__},
                         f"RecurrencePlot.twins/twin_surrogates raised {type(err).__name__}: {err}",
                         {"time_series": ts.tolist(), **kw, "min_dist": md, "n_surrogates": ns})
                continue
            reqs.append(f"rp_twins_kw {md_eff} {enc_imat(R)}")
            impl.append(enc_imat(tw))
            if rng.random() < 0.3:
                reqs.append(f"rp_twins_k {md_eff} {enc_imat(R)}")
                impl.append(enc_imat(tw))
            ctx.count("rp-R:" + ("symmetric" if np.array_equal(R, R.T) else "asymmetric"))
            # the method as a whole: twin search, walks, read-out of the state vectors
            embv = np.array(rp.embedding, dtype=float)
            if np.isfinite(embv).all() and np.isfinite(np.asarray(out, dtype=float)).all():
                reqs.append(f"rp_twinsurr {md_eff} {ns_eff} {enc_vec(draws)} {enc_imat(R)} {enc_mat(embv)}")
                impl.append(enc_mats(np.asarray(out, dtype=float)))
                reqs.append(f"rp_twinsurr_src {md_eff} {ns_eff} {enc_vec(draws)} {enc_imat(R)} {enc_mat(embv)}")
                impl.append(enc_mats(np.asarray(out, dtype=float)))
                ctx.count("gen:RecurrencePlot.twin_surrogates-source-level")
                ctx.count("gen:RecurrencePlot.twin_surrogates-whole-method")
            if rng.random() < 0.3:
                reqs.append(f"rp_twins {md_eff} {enc_imat(R)}")
                impl.append(enc_imat(tw))
            reqs.append(f"walk_r {NN} {ns_eff} {enc_vec(draws)} {enc_imat(tw[:NN])}")
            impl.append(("walk3", out, np.array(rp.embedding), used))
            # round 5: the loop-level walk on the source's expressions (with the trailing extra list)
            reqs.append(f"walk_rk {NN} {ns_eff} {enc_vec(draws)} {enc_imat(tw)}")
            impl.append(("walk3", out, np.array(rp.embedding), used))
            ctx.count("gen:_twin_surrogates_r-loop-level")
            npairs = sum(len(x) for x in tw)
            ctx.case(("twin_r", ts.tobytes().hex(), str(kw), md, ns, enc_vec(draws[:8])),
                     NN >= 4 and npairs > 0)
            ctx.count("gen:RecurrencePlot.twin_surrogates")
            ctx.count("rp-twins:" + ("some" if npairs else "none"))
            ctx.count("rp-args:" + form)

    # ======================================================================
    # E2: the kernel _twins_r at its own boundary on arbitrary square matrices (asymmetric,
    #     all-zero rows, no diagonal) and arbitrary counter arrays
    # ======================================================================
    nk = 300 if quick else 2500
    for c in range(nk):
        n = rng.choice([0, 1, 2, 3, 4, 5, 6, 8, 11])
        style = rng.choice(["random", "random", "few-row-types", "symmetric", "column-twins"])
        if style == "few-row-types":
            rows = [[rng.randrange(2) for _ in range(n)] for _ in range(2)]
            Rk = np.array([rows[rng.randrange(2)] for _ in range(n)], dtype=np.int8).reshape(n, n)
        elif style == "column-twins":
            cols = [[rng.randrange(2) for _ in range(n)] for _ in range(2)]
            Rk = np.array([cols[rng.randrange(2)] for _ in range(n)], dtype=np.int8).reshape(n, n).T.copy()
        else:
            Rk = np.array([[rng.randrange(2) for _ in range(n)] for _ in range(n)],
                          dtype=np.int8).reshape(n, n)
            if style == "symmetric":
                Rk = np.maximum(Rk, Rk.T)
        nRk = Rk.sum(axis=1).astype(np.int32) if rng.random() < 0.6 else \
            np.array([rng.choice([0, 1, 2, 3, -1, 2 ** 31 - 1]) for _ in range(n)], dtype=np.int32)
        md = rng.choice([0, 0, 1, 2, n + 1])
        tk = []
        try:
            K._twins_r(md, n, Rk, nRk, tk)
            got = enc_imat(tk)
        except Exception as e:  # noqa
            got = "raise:" + type(e).__name__
        reqs.append(f"twins_rkw {md} {n} {enc_imat(Rk)} {enc_ivec(nRk)}")
        impl.append(got)
        ctx.case(("twins_r_kernel", Rk.tobytes().hex(), tuple(int(x) for x in nRk), md),
                 n >= 4 and any(tk), None)
        ctx.count(f"gen:_twins_r-kernel:{style}")
        ctx.count("rp-R:" + ("symmetric" if np.array_equal(Rk, Rk.T) else "asymmetric"))

    # ======================================================================
    # F: one Surrogates object over a history of normalize / embedding setter / twins /
    #    twin_surrogates calls — model `SObj.run` with the policy read off the source
    # ======================================================================
    nh = 250 if quick else 2000
    for c in range(nh):
        kind, data, tags = gen_data(rng, nprng, quick, kinds=("int", "dyadic", "periodic", "two-level",
                                                             "constant"), variants=False)
        N, n = data.shape
        s = Surrogates(clone(data), silence_level=3)
        ops, outs, names = [], [], []
        normalized = False
        last = None
        for step in range(rng.choice([2, 3, 4, 5, 6])):
            kindop = rng.choice(["t", "t", "t", "n", "w", "e"])
            if kindop == "t" and last is not None and rng.random() < 0.6:
                dim, delay, thr, md = last          # the same parameters again (same embedding shape)
                if rng.random() < 0.3:
                    thr = Fraction(rng.choice([1, 4, 8, 12]), 8)
            else:
                dim = rng.choice([1, 1, 2, 3])
                delay = rng.choice([0, 1, 2])
                if (dim - 1) * delay > n:
                    dim, delay = 1, 0
                thr = Fraction(rng.choice([0, 1, 2, 4, 4, 8, 12, 16, 64]), 8)
                md = rng.choice([0, 0, 1, 2, 7])
            cur = np.asarray(s.original_data, dtype=float)
            if normalized and kindop in ("t", "w", "e"):
                # after the float normalisation the differences are no longer exact in double:
                # keep the threshold away from every difference so that the kernel's rounded
                # comparison and the model's exact one decide alike
                diffs = np.abs(cur[:, :, None] - cur[:, None, :]).ravel()
                if diffs.size and np.min(np.abs(diffs - float(thr))) <= 1e-9 * max(1.0, float(thr)):
                    ctx.count("history:skipped-threshold-too-close-to-a-difference")
                    continue
            try:
                with quiet(), np.errstate(all="ignore"):
                    if kindop == "n":
                        s.normalize_original_data()
                        nd = np.asarray(s.original_data, dtype=float)
                        if not np.isfinite(nd).all():
                            break
                        normalized = True
                        ops.append(f"n@{enc_mat(nd)}")
                        outs.append("u")
                    elif kindop == "e":
                        e = Surrogates.embed_time_series_array(s.original_data, dim, delay)
                        if rng.random() < 0.3 and e.size:
                            e = e.copy()
                            e[rng.randrange(N), rng.randrange(e.shape[1]), rng.randrange(dim)] += 1.0
                        s.embedding = e
                        ops.append(f"e@{enc_mats(e)}" if e.shape[1] else None)
                        outs.append("u")
                    elif kindop == "w":
                        ops.append(f"w@{enc_num(thr)}@{md}")
                        try:
                            tw = s.twins(float(thr), md)
                            outs.append(enc_mats(tw, enc_imat))
                        except AttributeError:
                            outs.append("raise")
                    else:
                        nT = n - (dim - 1) * delay
                        draws = [Fraction(rng.choice([0, 2 ** 20 - 1, rng.randrange(2 ** 20),
                                                      rng.randrange(2 ** 20)]), 2 ** 20)
                                 for _ in range(N * (2 * max(nT, 0) + 3) + 4)]
                        ops.append(f"t@{dim}@{delay}@{enc_num(thr)}@{md}@{enc_vec(draws)}")
                        with patched(K, random=DrawProxy(draws)):
                            outs.append(enc_mat(s.twin_surrogates(dim, delay, float(thr), md)))
                        last = (dim, delay, thr, md)
            except Exception as e:  # noqa
                ctx.fail({"kind": "raises", "method": "history:" + kindop, "error": type(e).__name__},
                         f"history step {kindop} raised {type(e).__name__}: {e}",
                         {"data": data.tolist(), "history": names + [kindop]})
                ops = [None]
                break
            names.append(kindop)
        if not ops or any(o is None for o in ops):
            continue
        reqs.append(f"sobj {pol} {enc_mat(data)} {'~'.join(ops)}")
        impl.append("~".join(outs))
        ctx.case(("sobj", data.tobytes().hex(), tuple(ops)), n >= 4 and "t" in names and len(names) >= 3)
        ctx.count("gen:object-history")
        ctx.count("history:" + ("with" if "n" in names else "without") + "-normalize")
        ctx.count(f"history:len={len(names)}")

    # ======================================================================
    # G: the Fourier surrogates of the pure-Python coupling class (full FFT, explicit Hermitian
    #    mirror, phases multiplied into the memoised array) — model `cnsCalls`
    # ======================================================================
    creqs, cimpl = coupling_correspondence(ctx, rng, nprng, quick)
    n_exact = coupling_exact_correspondence(ctx, rng, nprng, quick)
    facts = common.driver("C15", ["cnsfacts"])[0] if HAVE_DRIVER else "1 true"
    ctx.obligation("the model of CouplingAnalysisPurePython.correlatedNoiseSurrogates mirrors along the "
                   f"frequency axis as the source does (Generated/StructC15.lean: axis, in-place = {facts})",
                   "translator", facts.split()[0] == "1",
                   "numpy.flipud reverses the node axis: the spectrum is no longer Hermitian")
    ctx.obligation("call structure: one memoised rfft and one irfft per correlated_noise_surrogates "
                   "call, one irfft per AAFT call and per refinement step", "correspondence",
                   not struct_bad, "\n".join(struct_bad[:5]))
    # ---------------- run the model, compare -------------------------------
    # walk requests carry implementation *values*; the model answers indices
    model = common.driver("C15", reqs) if HAVE_DRIVER else []
    bad = []
    for i, (rq, im, mo) in enumerate(zip(reqs, impl, model)):
        if isinstance(im, tuple) and im[0] == "canon":
            # equal up to the order among ties of the ranked array `key`: per row the sorted
            # lists of (key value, output value) pairs agree
            _, got_, key_ = im
            try:
                mrows = [] if mo == "E" else [[Fraction(x) for x in r.split(",")] if r != "-" else []
                                              for r in mo.split(";")]
                ok = len(mrows) == got_.shape[0] and all(
                    sorted(zip([Fraction(float(v)) for v in key_[r]], mrows[r])) ==
                    sorted(zip([Fraction(float(v)) for v in key_[r]],
                               [Fraction(float(v)) for v in got_[r]]))
                    for r in range(got_.shape[0]))
            except Exception:  # noqa
                ok = False
            if not ok:
                bad.append((i, mo, "equal up to tie order expected: " + enc_mat(got_)))
        elif isinstance(im, tuple):
            if mo.startswith("raise:") or "#" not in mo:
                bad.append((i, mo, "values"))
                continue
            body, cons = mo.split("#")
            idx = [] if body == "E" else [[int(x) for x in r.split(",")] if r != "-" else []
                                          for r in body.split(";")]
            if im[0] == "walk":
                _, o2, data, used = im
                exp = [[data[i2][k] for k in row] for i2, row in enumerate(idx)]
                ok = int(cons) == used and len(exp) == o2.shape[0] and \
                    all(len(exp[r]) == o2.shape[1] and
                        all(exp[r][j] == o2[r, j] for j in range(o2.shape[1]))
                        for r in range(o2.shape[0]))
            else:
                _, o3, emb, used = im
                ok = int(cons) == used and len(idx) == o3.shape[0] and \
                    all(len(idx[r]) == o3.shape[1] and
                        all(np.array_equal(emb[idx[r][j]], o3[r, j], equal_nan=True)
                            for j in range(o3.shape[1]))
                        for r in range(o3.shape[0]))
            if not ok:
                bad.append((i, mo, f"impl used {used} draws"))
        elif mo != im:
            bad.append((i, mo, im))
    ctx.obligation(f"correspondence: Lean Surrogates model == pyunicorn on recorded/fed random streams "
                   f"({len(reqs)} requests)", "correspondence", not bad,
                   "\n".join(f"{reqs[i][:400]} :: model={str(m)[:200]} impl={str(x)[:200]}"
                             for i, m, x in bad[:5]))
    # round 5f: the library hypothesis of the rank-remapping theorems is now only "each numpy argsort
    # returns AN argsort" (IsArgsort / IsArgsortNat, decided by the driver on numpy's own index
    # arrays); RankOf of the double argsort follows by the theorem argsort_argsort_is_rank
    arg_idx = {i for i, r in enumerate(reqs) if r.startswith(("isargsort ", "isargsortnat "))}
    arg_bad = [b for b in bad if b[0] in arg_idx]
    ctx.obligation("hypothesis of argsort_argsort_is_rank / remap_*_of_argsorts: numpy's first argsort "
                   "of every ranked row with ties is an IsArgsort of the row and its second argsort an "
                   "IsArgsortNat of the first (the rest -- the double argsort is a RankOf -- is a theorem)",
                   "correspondence", bool(arg_idx) and not arg_bad,
                   "\n".join(f"{reqs[i][:400]} :: model={m} impl={x}" for i, m, x in arg_bad[:5])
                   or "no row with ties was generated")
    ctx.extra["argsort_hypothesis_rows"] = len(arg_idx) // 2
    ctx.extra["requests_compared"] = len(reqs) + len(freqs)

    ctx.extra["requests_compared"] += len(sreqs)
    # float correspondence of the phase multiplication and of the refinement-loop spectrum
    fbad = float_compare(freqs, fimpl)
    ctx.obligation(f"correspondence: phase multiplication history (mode={mode}) == spectra handed to "
                   f"irfft ({len(freqs)} rows, relative tolerance {TOL})", "correspondence", not fbad,
                   "\n".join(f"{freqs[i][:300]} :: {w}" for i, w in fbad[:5]))
    ctx.extra["requests_compared"] += len(mreqs)
    mbad = float_compare(mreqs, mimpl)
    ctx.obligation(f"correspondence: the body of correlated_noise_surrogates as regenerated from the "
                   f"source (Generated/StructC15.lean), executed statement by statement == spectra "
                   f"handed to irfft ({len(mreqs)} rows, relative tolerance {TOL})", "correspondence",
                   not mbad, "\n".join(f"{mreqs[i][:300]} :: {w}" for i, w in mbad[:5]))
    ctx.extra["requests_compared"] += len(creqs) + n_exact
    cbad = float_compare(creqs, cimpl)
    ctx.obligation(f"correspondence: cnsCalls (full FFT, slices of the source, in-place history) == arrays "
                   f"CouplingAnalysisPurePython.correlatedNoiseSurrogates hands to ifft ({len(creqs)} rows, "
                   f"relative tolerance {TOL})", "correspondence", not cbad,
                   "\n".join(f"{creqs[i][:300]} :: {w}" for i, w in cbad[:5]))
    sbad = float_compare(sreqs, simpl)
    ctx.obligation(f"correspondence: |cached FFT| * exp(1j*angle(rfft(R))) of the model == spectra the "
                   f"refinement loop hands to irfft ({len(sreqs)} rows, relative tolerance {TOL})",
                   "correspondence", not sbad,
                   "\n".join(f"{sreqs[i][:300]} :: {w}" for i, w in sbad[:5]))

    dft_pair_check(ctx, rng, nprng, quick)
    # ======================================================================
    # oracle on the unpatched code
    # ======================================================================
    oracle(ctx, Surrogates, RecurrencePlot, rng, nprng, quick)
    coupling_oracle(ctx, rng, nprng, quick)


class CouplingNumpyProxy:
    """stands in for the module global `numpy` of funcnet/coupling_analysis_pure_python.py: records
    the full FFT, the phases and the arrays handed to / returned by ifft"""

    class _Fft:
        def __init__(self):
            self.fft_out, self.ifft_in, self.ifft_out = [], [], []

        def fft(self, a, *args, **kw):
            r = np.fft.fft(a, *args, **kw)
            self.fft_out.append(r.copy())
            return r

        def ifft(self, a, *args, **kw):
            self.ifft_in.append(np.array(a, copy=True))
            r = np.fft.ifft(a, *args, **kw)
            self.ifft_out.append(r.copy())
            return r

        def __getattr__(self, k):
            return getattr(np.fft, k)

    class _Random:
        def __init__(self, seed):
            self.rs, self.phases = np.random.RandomState(seed), []

        def uniform(self, low=0.0, high=1.0, size=None):
            ph = self.rs.uniform(low=low, high=high, size=size)
            self.phases.append(np.array(ph, copy=True))
            return ph

        def shuffle(self, x):
            return self.rs.shuffle(x)

        def __getattr__(self, k):
            return getattr(np.random, k)

    def __init__(self, seed):
        self.fft, self.random = self._Fft(), self._Random(seed)

    def __getattr__(self, k):
        return getattr(np, k)


def gen_coupling_data(rng, nprng, quick):
    """(time, nodes) array for the coupling class: odd and even lengths from 1, 1-4 nodes"""
    n = rng.choice([1, 2, 3, 4, 5, 6, 7, 8, 9, 12, 15, 16, 21, 32, 33])
    N = rng.choice([1, 2, 2, 3, 4])
    kind = rng.choice(["float", "float", "int", "constant-node", "scaled"])
    if kind == "int":
        d = np.array([[rng.randrange(-3, 4) for _ in range(N)] for _ in range(n)], dtype=float)
    else:
        d = nprng.randn(n, N)
        if kind == "constant-node":
            d[:, 0] = 1.5
        if kind == "scaled":
            d = d * 2.0 ** rng.choice([-300, -30, 30, 300])
    d = d.reshape(n, N)
    # round 5: the caller's array in both float widths, as integers, and in other memory layouts
    variant = rng.choice(["c-order", "c-order", "float32", "fortran", "strided", "int64", "float32-fortran"])
    if variant.startswith("float32") and (kind == "scaled" or not np.isfinite(d.astype(np.float32)).all()):
        variant = "fortran"
    if variant == "int64" and kind != "int":
        variant = "strided"
    if variant.startswith("float32"):
        d = d.astype(np.float32)
    if variant == "int64":
        d = d.astype(np.int64)
    if variant.endswith("fortran"):
        d = np.asfortranarray(d)
    if variant == "strided":
        big = nprng.randn(2 * n + 1, 3 * N + 2).astype(d.dtype)
        big[1::2, 2::3][:n, :N] = d
        d = big[1::2, 2::3][:n, :N]
    return kind + "/" + variant, d


def as_caller_array(d):
    """the array handed to the constructor: the strided view itself, otherwise a copy that keeps
    dtype and memory order"""
    return d if not d.flags.owndata else d.copy(order="K")


def coupling_correspondence(ctx, rng, nprng, quick):
    import pyunicorn.funcnet.coupling_analysis_pure_python as CM
    creqs, cimpl = [], []
    herm_bad, herm_cnt = [], [0]
    for c in range(150 if quick else 1200):
        kind, d = gen_coupling_data(rng, nprng, quick)
        n, N = d.shape
        seed = rng.randrange(2 ** 31)
        px = CouplingNumpyProxy(seed)
        rep = {"dataarray(time,nodes)": d.tolist(), "numpy_RandomState_seed": seed, "dtype": str(d.dtype),
               "caller_array": kind}
        ctx.count("coupling-caller:" + kind.split("/")[1])
        calls = [rng.choice(["direct", "direct", "cc", "mi"]) for _ in range(rng.choice([1, 2, 3]))]
        if n < 4:
            calls = ["direct"] * len(calls)      # the statistics of the wrappers need a few samples
        try:
            with quiet(), np.errstate(all="ignore"), patched(CM, numpy=px):
                ca = CM.CouplingAnalysisPurePython(as_caller_array(d), silence_level=3)
                for how in calls:
                    before = len(px.fft.ifft_in)
                    try:
                        if how == "direct":
                            ca.correlatedNoiseSurrogates(ca.dataarray.copy())
                        elif how == "cc":
                            ca.shuffled_surrogate_for_cc(fourier=True, tau_max=rng.choice([0, 1]))
                        else:
                            ca.shuffled_surrogate_for_mi(fourier=True, bins=rng.choice([2, 4]),
                                                         tau_max=rng.choice([0, 1]))
                    except Exception:  # noqa
                        if how == "direct" or len(px.fft.ifft_in) == before:
                            raise
                        # the surrogate was generated; the statistic computed from it is C10's
                        ctx.count("coupling:wrapper-statistic-raised-after-the-surrogate")
        except Exception as e:  # noqa
            ctx.fail({"kind": "raises", "class": "CouplingAnalysisPurePython",
                      "method": "correlatedNoiseSurrogates", "error": type(e).__name__},
                     f"Fourier surrogates of the coupling class ({calls}) raised {type(e).__name__}: {e}",
                     dict(rep, calls=calls))
            continue
        f = px.fft
        if len(f.fft_out) != 1 or len(f.ifft_in) != len(calls) or len(px.random.phases) != len(calls):
            ctx.fail({"kind": "call-structure", "class": "CouplingAnalysisPurePython"},
                     f"{len(f.fft_out)} fft / {len(f.ifft_in)} ifft / {len(px.random.phases)} uniform calls "
                     f"for {len(calls)} surrogate calls", dict(rep, calls=calls))
            continue
        cache = f.fft_out[0]
        if np.isfinite(cache).all():
            # round 5: the hypothesis `HermL` of coupling_fourier_surrogates_keep_amplitudes holds of
            # the array numpy.fft.fft returned, and its conclusion (Hermitian again, same moduli at
            # every bin) of every array handed to ifft — up to rounding, relative to the largest bin
            for W, what in [(cache, "memoised-fft")] + [(a, "ifft-input") for a in f.ifft_in]:
                sc = float(np.abs(cache).max()) or 1.0
                mir = np.conj(W[:, (-np.arange(n)) % n])
                if W.shape != cache.shape or not np.all(np.abs(W - mir) <= tol_for(d) * sc) or \
                        not np.all(np.abs(np.abs(W) - np.abs(cache)) <= tol_for(d) * sc):
                    herm_bad.append(f"{what} n={n} seed={seed}")
            herm_cnt[0] += 1 + len(f.ifft_in)
            for i in range(N):
                ph = [px.random.phases[k][i] for k in range(len(calls))]
                creqs.append(f"cns {enc_vec(cache[i].real)} {enc_vec(cache[i].imag)} {enc_mat(ph)}")
                cimpl.append(([f.ifft_in[k][i] for k in range(len(calls))], tol_for(d)))
        ctx.case(("coupling-fourier", d.tobytes().hex(), seed, tuple(calls)), n >= 4)
        ctx.count("gen:coupling-class-fourier", len(calls))
        for how in calls:
            ctx.count(f"coupling:{how}")
        ctx.count("coupling-len:" + ("1" if n == 1 else "2" if n == 2 else "odd" if n % 2 else "even"))
    ctx.obligation(f"the memoised numpy.fft.fft of the coupling class is Hermitian (hypothesis HermL of "
                   f"coupling_fourier_surrogates_keep_amplitudes) and so is every array handed to ifft, "
                   f"with the moduli of the memoised one at every bin ({herm_cnt[0]} arrays, relative "
                   f"tolerance {TOL})", "correspondence", not herm_bad, ", ".join(herm_bad[:8]))
    return creqs, cimpl


class ExactCouplingProxy:
    """round 5: stands in for the module global `numpy` of funcnet/coupling_analysis_pure_python.py
    so that the method's own statements run in *exact* arithmetic: `fft.fft` returns a given
    integer-valued complex array (arbitrary content, not necessarily Hermitian), `random.uniform`
    returns whole numbers q of quarter turns and `exp(1j*q)` the exact unit `i**q`."""

    def __init__(self, spec, seed):
        outer = self
        self.spec, self.rs = spec, np.random.RandomState(seed)
        self.sizes, self.phases, self.ifft_in = [], [], []

        class _Fft:
            def fft(self, a, *args, **kw):
                if np.asarray(a).shape != outer.spec.shape or kw.get("axis", -1) not in (1, -1):
                    raise AssertionError("fft called on another shape / axis")
                return outer.spec.copy()

            def ifft(self, a, *args, **kw):
                outer.ifft_in.append(np.array(a, copy=True))
                return np.fft.ifft(a, *args, **kw)

            def __getattr__(self, k):
                return getattr(np.fft, k)

        class _Random:
            def uniform(self, low=0.0, high=1.0, size=None):
                q = outer.rs.randint(0, 8, size=size).astype(float)
                outer.sizes.append(size)
                outer.phases.append(q.copy())
                return q

            def __getattr__(self, k):
                return getattr(np.random, k)
        self.fft, self.random = _Fft(), _Random()

    def exp(self, z):
        z = np.asarray(z)
        q = np.rint(z.imag).astype(int) % 4
        if np.any(z.real != 0) or np.any(z.imag != np.rint(z.imag)):
            raise AssertionError("exp called on something other than 1j * phases")
        return np.array([1, 1j, -1, -1j])[q]

    def __getattr__(self, k):
        return getattr(np, k)


def coupling_exact_correspondence(ctx, rng, nprng, quick):
    """round 5: `cnsCalls` on exact integers (`Trig Int`, quarter-turn phases) == the arrays the
    method's own slice statements produce, for **arbitrary** (also non-Hermitian) memoised arrays —
    the tie behind `coupling_step_on_blocks`, every length 1..41 in every run"""
    import pyunicorn.funcnet.coupling_analysis_pure_python as CM
    reqs, impl, lens = [], [], []
    lengths = list(range(1, 42)) + [rng.choice([48, 63, 64, 65, 100, 127, 128, 129])
                                     for _ in range(4 if quick else 40)]
    if not quick:
        lengths = lengths * 4
    for n in lengths:
        N = rng.choice([1, 2, 3])
        kind = rng.choice(["random", "random", "hermitian", "index", "zero-tail"])
        hi = rng.choice([3, 1000, 2 ** 20])
        spec = (nprng.randint(-hi, hi + 1, size=(N, n)) +
                1j * nprng.randint(-hi, hi + 1, size=(N, n))).astype(complex)
        if kind == "hermitian":
            for k in range(n):
                spec[:, (n - k) % n] = np.conj(spec[:, k]) if k != (n - k) % n else spec[:, k].real
        elif kind == "index":          # bin k holds k + i(1000 + k): the output shows who went where
            spec = np.tile(np.arange(n) + 1j * (1000 + np.arange(n)), (N, 1)).astype(complex)
        elif kind == "zero-tail":
            spec[:, n // 2 + 1:] = 0
        seed = rng.randrange(2 ** 31)
        px = ExactCouplingProxy(spec, seed)
        calls = rng.choice([1, 1, 2, 3, 4])
        rep = {"memoised_fft_re": spec.real.tolist(), "memoised_fft_im": spec.imag.tolist(),
               "quarter_turn_seed": seed, "calls": calls}
        try:
            with quiet(), np.errstate(all="ignore"), patched(CM, numpy=px):
                ca = CM.CouplingAnalysisPurePython(nprng.randn(max(n, 2), N), silence_level=3)
                for _ in range(calls):
                    ca.correlatedNoiseSurrogates(np.zeros((N, n)))
        except Exception as e:  # noqa
            ctx.fail({"kind": "raises", "class": "CouplingAnalysisPurePython",
                      "method": "correlatedNoiseSurrogates", "error": type(e).__name__},
                     f"correlatedNoiseSurrogates on a memoised integer array of length {n} raised "
                     f"{type(e).__name__}: {e}", rep)
            continue
        if len(px.ifft_in) != calls or len(px.phases) != calls:
            ctx.fail({"kind": "call-structure", "class": "CouplingAnalysisPurePython"},
                     f"{len(px.ifft_in)} ifft / {len(px.phases)} uniform calls for {calls} surrogate calls",
                     rep)
            continue
        lens.append((n, [tuple(sz) if sz is not None else None for sz in px.sizes], N))

        def iv(v):
            return ",".join(str(int(x)) for x in v) if len(v) else "-"
        for i in range(N):
            reqs.append(f"cns_exact {iv(spec[i].real)} {iv(spec[i].imag)} "
                        + ";".join(iv(px.phases[k][i]) for k in range(calls)))
            impl.append(";".join(",".join(f"{int(z.real)}_{int(z.imag)}" for z in px.ifft_in[k][i])
                                 for k in range(calls)))
        ctx.case(("coupling-exact", spec.tobytes().hex(), seed, calls), n >= 4)
        ctx.count("gen:coupling-class-exact-slices", calls)
        ctx.count(f"coupling-exact:{kind}")
        ctx.count("coupling-exact-len:" + ("1" if n == 1 else "2" if n == 2 else
                                            "odd" if n % 2 else "even"))
    model = common.driver("C15", reqs) if HAVE_DRIVER else impl
    bad = [(r, mo, im) for r, mo, im in zip(reqs, model, impl) if mo != im]
    ctx.obligation(f"correspondence (exact): cnsCalls over the integers with quarter-turn phases == the "
                   f"arrays the slice statements of correlatedNoiseSurrogates build from arbitrary "
                   f"memoised arrays ({len(reqs)} rows, every length 1-41, 1-4 calls)", "correspondence",
                   not bad, "\n".join(f"{r[:300]} :: model={mo[:200]} impl={im[:200]}"
                                      for r, mo, im in bad[:5]))
    # the hypothesis of coupling_fourier_surrogates_keep_amplitudes on the phase count: uniform is
    # asked for (nNodes, cnsLen ntime) with cnsLen the generated arithmetic
    ns = sorted({n for n, _, _ in lens})
    mlen = dict(zip(ns, common.driver("C15", [f"cnslen {n}" for n in ns]))) if HAVE_DRIVER else {}
    wrong = [(n, sz) for n, szs, N in lens for sz in szs
             if HAVE_DRIVER and sz != (N, int(mlen[n]))]
    ctx.obligation("numpy.random.uniform is asked for (nNodes, lenPhase) phases with lenPhase = cnsLen(ntime) "
                   "of Generated/ArithC15.lean (hypothesis of coupling_fourier_surrogates_keep_amplitudes)",
                   "correspondence", not wrong, str(wrong[:5]))
    return len(reqs)


def coupling_oracle(ctx, rng, nprng, quick):
    """unpatched code: every Fourier surrogate of the coupling class has the amplitude spectrum of
    the data at **every** bin (DC and Nyquist are not touched), is real, and repeated calls on one
    object (the memoised FFT is multiplied in place) do not degrade that"""
    from pyunicorn.funcnet.coupling_analysis_pure_python import CouplingAnalysisPurePython as CA
    for c in range(150 if quick else 1200):
        kind, d = gen_coupling_data(rng, nprng, quick)
        n, N = d.shape
        seed = rng.randrange(2 ** 31)
        np.random.seed(seed)
        rep = {"dataarray(time,nodes)": d.tolist(), "numpy_random_seed": seed, "dtype": str(d.dtype),
               "caller_array": kind}
        ctx.count("oracle:coupling-fourier")
        ctx.count("oracle:coupling-caller:" + kind.split("/")[1])
        try:
            with quiet(), np.errstate(all="ignore"):
                ca = CA(as_caller_array(d), silence_level=3)
                data = ca.dataarray.copy()
                for call in range(rng.choice([1, 2, 4])):
                    out = ca.correlatedNoiseSurrogates(ca.dataarray.copy())
                    if np.iscomplexobj(out):
                        ctx.fail({"kind": "complex-output", "class": "CouplingAnalysisPurePython"},
                                 "correlatedNoiseSurrogates returned a complex array", dict(rep, call=call))
                        break
                    if not check_spectrum(ctx, "CouplingAnalysisPurePython.correlatedNoiseSurrogates",
                                          out, data, dict(rep, call=call), bins="all"):
                        break
                    if not np.array_equal(ca.dataarray, data):
                        ctx.fail({"kind": "original-data-changed", "class": "CouplingAnalysisPurePython"},
                                 "correlatedNoiseSurrogates changed dataarray", dict(rep, call=call))
                        break
        except Exception as e:  # noqa
            ctx.fail({"kind": "raises", "class": "CouplingAnalysisPurePython",
                      "method": "correlatedNoiseSurrogates", "error": type(e).__name__},
                     f"correlatedNoiseSurrogates raised {type(e).__name__}: {e}", rep)
        ctx.case(("oracle-coupling", d.tobytes().hex(), seed), n >= 4)
    # the memoised FFT is keyed on nothing: a second array on the same object gets the surrogates
    # of the first (known finding, the public method's argument is expected to be `dataarray`)
    with quiet(), np.errstate(all="ignore"):
        a, b = nprng.randn(8, 2), nprng.randn(8, 2)
        ca = CA(a.copy(), silence_level=3)
        ca.correlatedNoiseSurrogates(ca.dataarray.copy())
        out = ca.correlatedNoiseSurrogates(b.T.copy())
    if not np.all(np.abs(amp(out) - amp(b.T)) <= TOL * amp(b.T).max()):
        ctx.fail({"kind": "stale-fft-cache", "class": "CouplingAnalysisPurePython",
                  "method": "correlatedNoiseSurrogates", "argument": "an array other than the one of the first call"},
                 "correlatedNoiseSurrogates(original) memoises the FFT of the first array it is given: "
                 "a different `original` on the same object gets surrogates of the first one",
                 {"first": a.T.tolist(), "second": b.T.tolist()})


def float_compare(requests, impl):
    """run `requests` through the driver (IEEE double model) and compare with the recorded
    complex rows: `impl[i] = ([row per call], relative tolerance)`; returns the mismatches"""
    model = common.driver("C15", requests) if HAVE_DRIVER else []
    bad = []

    def dec(t):
        if t == "nan":
            return float("nan")
        m, e = t.split(":")
        return float(Fraction(int(m)) * Fraction(2) ** int(e))
    for i, (mo, (rows, tol)) in enumerate(zip(model, impl)):
        calls = mo.split(";") if mo else []
        if len(calls) != len(rows):
            bad.append((i, "call count"))
            continue
        for cstr, z in zip(calls, rows):
            vals = cstr.split(",") if cstr else []
            if len(vals) != len(z):
                bad.append((i, "length"))
                break
            scale = float(np.abs(z).max()) if len(z) else 0.0
            for v, zz in zip(vals, z):
                re_, im_ = v.split("_")
                if not (abs(dec(re_) - zz.real) <= tol * scale and
                        abs(dec(im_) - zz.imag) <= tol * scale):
                    bad.append((i, f"{v} vs {zz}"))
                    break
    return bad


def dft_pair_check(ctx, rng, nprng, quick):
    """the trusted fact behind the spectrum theorems: numpy.fft.rfft / irfft(n=) are, up to
    rounding, the pair `DFT.rfft` / `DFT.irfft` of Lemmas/SurrogatesDFT.lean — the documented sum
    and the inverse DFT of the Hermitian extension that drops the imaginary parts of the DC and
    Nyquist bins.  Compared with the explicit O(n^2) sums."""
    bad, bad_full, cnt = [], [], 0
    for c in range(80 if quick else 600):
        n = rng.choice([1, 2, 3, 4, 5, 6, 7, 8, 9, 12, 15, 16, 21, 32, 33])
        x = nprng.randn(n) * 2.0 ** rng.choice([0, 0, -30, 30, 300])
        t = np.arange(n)
        m = n // 2 + 1
        F = np.array([np.sum(x * np.exp(-2j * np.pi * t * f / n)) for f in range(m)])
        G = np.fft.rfft(x)
        sc = float(np.abs(F).max())
        if G.shape != F.shape or not np.all(np.abs(F - G) <= TOL * sc):
            bad.append(f"rfft n={n}")
        Z = (nprng.randn(m) + 1j * nprng.randn(m)) * 2.0 ** rng.choice([0, -30, 30])
        W = np.zeros(n, dtype=complex)
        for k in range(n):
            if 2 * k < n:
                W[k] = Z[0].real if k == 0 else Z[k]
            elif 2 * k == n:
                W[k] = Z[k].real
            else:
                W[k] = np.conj(Z[n - k])
        y = np.array([np.sum(W * np.exp(2j * np.pi * t * tt / n)) / n for tt in range(n)])
        z = np.fft.irfft(Z, n=n)
        sc = float(np.abs(y).max())
        if z.shape != (n,) or not np.all(np.abs(y.real - z) <= TOL * sc) or \
                not np.all(np.abs(y.imag) <= TOL * sc):
            bad.append(f"irfft n={n}")
        # round 5: the full pair of the coupling class, `fullSpectrum` (numpy.fft.fft of a real
        # series) and `realIfft` (numpy.real(numpy.fft.ifft(W)) of an arbitrary full spectrum)
        FF = np.array([np.sum(x * np.exp(-2j * np.pi * t * f / n)) for f in range(n)])
        GG = np.fft.fft(x.reshape(1, n), axis=1)[0]
        sc = float(np.abs(FF).max())
        if GG.shape != FF.shape or not np.all(np.abs(FF - GG) <= TOL * sc):
            bad_full.append(f"fft n={n}")
        V = (nprng.randn(n) + 1j * nprng.randn(n)) * 2.0 ** rng.choice([0, -30, 30])
        yy = np.array([np.sum(V * np.exp(2j * np.pi * t * tt / n)) / n for tt in range(n)])
        zz = np.real(np.fft.ifft(V.reshape(1, n), axis=1))[0]
        sc = float(np.abs(yy).max())
        if zz.shape != (n,) or not np.all(np.abs(yy.real - zz) <= TOL * sc):
            bad_full.append(f"real(ifft) n={n}")
        cnt += 1
    ctx.obligation(f"numpy.fft.fft(axis=1) / real(numpy.fft.ifft(axis=1)) == fullSpectrum / realIfft of "
                   f"Lemmas/SurrogatesCoupling*.lean (explicit sums, {cnt} random arrays of length 1-33, "
                   f"relative tolerance {TOL})", "correspondence", not bad_full, ", ".join(bad_full[:8]))
    ctx.obligation(f"numpy.fft.rfft / irfft(n=) == the DFT pair of Lemmas/SurrogatesDFT.lean (explicit "
                   f"sums, {cnt} random arrays of length 1-33, relative tolerance {TOL})",
                   "correspondence", not bad, ", ".join(bad[:8]))
    ctx.count("dft-pair-arrays", cnt)


def check_perm(ctx, name, out, data, replay):
    out = np.asarray(out)
    if out.shape != data.shape or any(
            sorted(out[i].tolist()) != sorted(data[i].tolist()) for i in range(data.shape[0])):
        ctx.fail({"kind": "not-a-row-permutation", "method": name},
                 f"{name}: output is not a row-wise permutation of the data", replay)
        return False
    return True


def check_spectrum(ctx, name, out, data, replay, bins="inner"):
    out = np.asarray(out)
    n = data.shape[1]
    if out.shape != data.shape:
        ctx.fail({"kind": "shape", "method": name}, f"{name}: shape {out.shape}", replay)
        return False
    a0, a1 = amp(np.asarray(data, dtype=float)), amp(out)
    idx = list(inner_bins(n)) if bins == "inner" else list(range(a0.shape[1]))
    tol = tol_for(data)
    for i in range(data.shape[0]):
        scale = float(a0[i].max())      # relative to the largest amplitude of the series
        for f in idx:
            if not abs(a0[i, f] - a1[i, f]) <= tol * scale:
                nan = bool(np.isnan(a1[i, f]))
                ctx.fail({"kind": "amplitude-spectrum", "method": name, "nan": nan},
                         f"{name}: amplitude at frequency {f} of series {i} is {a1[i, f]}, "
                         f"original {a0[i, f]}", dict(replay, series=i, frequency=f))
                return False
    return True


def oracle(ctx, Surrogates, RecurrencePlot, rng, nprng, quick):
    nor = 1000 if quick else 8000
    for c in range(nor):
        kind, data, tags = gen_data(rng, nprng, quick,
                                    kinds=("int", "dyadic", "float", "float", "periodic",
                                           "constant", "two-level"))
        if c == 0:
            kind, data, tags = "constant", np.full((2, 8), 1.5), []
        if c == 1:
            kind, data, tags = "single", np.array([[2.0]]), []
        if c == 2:
            # the public test-data wrapper (6 series of length 200)
            with quiet():
                kind, data, tags = "SmallTestData", Surrogates.SmallTestData().original_data, []
        N, n = data.shape
        for t in tags:
            ctx.count("oracle-caller-array:" + t.split(":")[0])
        seed = rng.randrange(2 ** 31)
        np.random.seed(seed)
        pyrandom.seed(seed)
        s = Surrogates(clone(data), silence_level=3)
        pristine = np.array(data)
        hist = []
        for call in range(rng.choice([1, 2, 3, 4])):
            g = rng.choice(["white", "fourier", "aaft", "refined", "refined_s", "twin", "twin",
                            "normalize", "significance", "distribution"])
            if g in ("normalize", "significance", "distribution") and data.dtype.kind != "f":
                g = "white"          # in-place normalisation is defined for float arrays
            hist.append(g)
            if g == "distribution":
                # public wrapper that normalises implicitly (once) before it evaluates the statistic
                try:
                    with quiet(), np.errstate(all="ignore"):
                        s.original_distribution(Surrogates.test_pearson_correlation, n_bins=5)
                except Exception:  # noqa
                    ctx.count("oracle:distribution:statistic-raised")
                pristine = s.original_data.copy()
                ctx.count("oracle:original_distribution")
                continue
            if g == "significance":
                # public wrapper that normalises, then calls the generator `realizations` times on
                # this object: every surrogate it obtains must keep the guarantee w.r.t. the data
                # the object holds at that moment
                gname = rng.choice(["white", "fourier", "aaft", "refined", "twin"])
                got = []

                def sfun(obj, gname=gname, got=got):
                    if gname == "white":
                        o = obj.white_noise_surrogates()
                    elif gname == "fourier":
                        o = obj.correlated_noise_surrogates()
                    elif gname == "aaft":
                        o = obj.AAFT_surrogates()
                    elif gname == "refined":
                        o = obj.refined_AAFT_surrogates(2)
                    else:
                        o = obj.twin_surrogates(1, 0, 0.5, 1)
                    got.append((np.array(o, copy=True), np.array(obj.original_data, copy=True)))
                    return o
                rep = {"data": pristine.tolist(), "dtype": str(data.dtype), "layout": tags,
                       "numpy_and_random_seed": seed, "history": list(hist), "generator": gname}
                try:
                    with quiet(), np.errstate(all="ignore"):
                        s.test_threshold_significance(sfun, Surrogates.test_pearson_correlation,
                                                      realizations=rng.choice([1, 2, 3]), n_bins=5)
                except Exception as e:  # noqa
                    if not got:
                        ctx.fail({"kind": "raises", "method": "test_threshold_significance:" + gname,
                                  "error": type(e).__name__},
                                 f"test_threshold_significance({gname}) raised {type(e).__name__}: {e}", rep)
                    else:
                        ctx.count("oracle:significance:statistic-raised")
                pristine = s.original_data.copy()
                ctx.count(f"oracle:test_threshold_significance:{gname}", len(got))
                for o, cur in got:
                    if not np.isfinite(cur).all():
                        continue
                    if not np.array_equal(cur, pristine):
                        ctx.fail({"kind": "original-data-changed", "method": "test_threshold_significance"},
                                 "the data changed between the realisations", rep)
                        break
                    if gname in ("white", "aaft", "refined"):
                        ok = check_perm(ctx, f"test_threshold_significance:{gname}", o, cur, rep)
                    elif gname == "fourier":
                        ok = check_spectrum(ctx, "test_threshold_significance:correlated_noise_surrogates",
                                            o, cur, rep)
                    else:
                        check_twin_surrogates(ctx, "Surrogates", o, s.twins(0.5, 1), cur, 1, 0, 0.5, 1, rep)
                        ok = True
                    if not ok:
                        break
                continue
            if g == "normalize":
                # the documented mutator: from now on the guarantees refer to the normalised data
                with quiet(), np.errstate(all="ignore"):
                    s.normalize_original_data()
                pristine = s.original_data.copy()
                ctx.count("oracle:normalize")
                continue
            rep = {"data": pristine.tolist(), "dtype": str(data.dtype), "layout": tags,
                   "numpy_and_random_seed": seed, "history": list(hist)}
            ctx.count(f"oracle:{g}")
            try:
                with quiet(), np.errstate(all="ignore"):
                    if g == "white":
                        check_perm(ctx, "white_noise_surrogates", s.white_noise_surrogates(),
                                   pristine, rep)
                    elif g == "fourier":
                        check_spectrum(ctx, "correlated_noise_surrogates",
                                       s.correlated_noise_surrogates(), pristine, rep)
                    elif g == "aaft":
                        check_perm(ctx, "AAFT_surrogates", s.AAFT_surrogates(), pristine, rep)
                    elif g == "refined":
                        nit = rng.choice([0, 1, 2, 5])
                        rep["n_iterations"] = nit
                        check_perm(ctx, "refined_AAFT_surrogates",
                                   s.refined_AAFT_surrogates(nit, output="true_amplitudes"),
                                   pristine, rep)
                    elif g == "refined_s":
                        nit = rng.choice([0, 1, 1, 2, 5])
                        rep["n_iterations"] = nit
                        rep["output"] = "both"
                        form = rng.choice(["both", "both", "true_spectrum", "anything-else"])
                        rep["output"] = form
                        try:
                            if form == "true_spectrum":
                                sp = s.refined_AAFT_surrogates(nit, output=form)
                                R = None
                            else:
                                R, sp = s.refined_AAFT_surrogates(nit, output=form)
                        except UnboundLocalError as e:
                            ctx.fail({"kind": "raises", "method": "refined_AAFT_surrogates",
                                      "n_iterations": nit, "error": "UnboundLocalError"},
                                     f"refined_AAFT_surrogates(n_iterations={nit}, output='both') "
                                     f"raised UnboundLocalError: {e}", rep)
                            continue
                        if R is not None:
                            check_perm(ctx, "refined_AAFT_surrogates", R, pristine, rep)
                        degenerate = n == 1 or (R is not None and bool((amp(R)[:, 1:] == 0).any()))
                        if check_spectrum(ctx, "refined_AAFT_surrogates:true_spectrum"
                                          + (":zero-coefficient" if degenerate else ""),
                                          sp, pristine, rep, bins="all"):
                            pass
                    else:
                        dim = rng.choice([1, 2, 3, 4])
                        delay = rng.choice([0, 1, 2, 4])
                        if (dim - 1) * delay > n:
                            dim, delay = 1, 0
                        thr = rng.choice([0.0, 0.125, 0.5, 1.0, 2.0, 0.3, 0.7, 1e6])
                        md = rng.choice([0, 1, 2, 7, None, n + 3])
                        md_eff = 7 if md is None else md
                        kwa = {} if md is None else {"min_dist": md}
                        rep.update(dimension=dim, delay=delay, threshold=thr, min_dist=md)
                        path = rng.choice(["method", "method", "wrappers", "scaled"])
                        ctx.count(f"oracle:twin:{path}")
                        if path == "wrappers":
                            # the public pieces one by one: static embedding, the embedding setter,
                            # twins(), the static recurrence plot; then a second embedding on the
                            # same object, which twins() must follow
                            for (d2, l2) in [(dim, delay), (1, 0)]:
                                emb = Surrogates.embed_time_series_array(s.original_data, d2, l2)
                                s.embedding = emb
                                tw = s.twins(thr, **kwa)
                                rep.update(dimension=d2, delay=l2, path="embedding setter + twins()")
                                check_twins(ctx, "Surrogates", tw, pristine, d2, l2, thr, md_eff, rep)
                                nT = n - (d2 - 1) * l2
                                for i in range(N):
                                    Rm = Surrogates.recurrence_plot(emb[i], thr)
                                    Rb = brute_R(np.asarray(emb[i], dtype=float).reshape(nT, d2),
                                                 float(np.float32(thr)))
                                    if not np.array_equal(np.asarray(Rm).astype(bool), Rb):
                                        ctx.fail({"kind": "recurrence-plot", "class": "Surrogates"},
                                                 "Surrogates.recurrence_plot differs from the supremum-"
                                                 "norm definition", dict(rep, series=i))
                                        break
                        else:
                            out = s.twin_surrogates(dim, delay, thr, **kwa)
                            tw = s.twins(thr, **kwa)
                            check_twin_surrogates(ctx, "Surrogates", out, tw, pristine, dim, delay,
                                                  thr, md_eff, rep)
                            if path == "scaled" and data.dtype == np.float64:
                                # exact power-of-two rescaling of data and threshold: same twins,
                                # and with the same random stream the rescaled surrogate
                                e = rng.choice([-100, -30, 30, 100])
                                big = float(np.abs(pristine).max()) if pristine.size else 0.0
                                if big < 2.0 ** 20 and (big == 0 or
                                                        float(np.abs(pristine[pristine != 0]).min())
                                                        > 2.0 ** -20) and thr < 1e5:
                                    s2 = Surrogates(pristine * 2.0 ** e, silence_level=3)
                                    pyrandom.seed(seed + 1)
                                    o1 = s.twin_surrogates(dim, delay, thr, **kwa)
                                    pyrandom.seed(seed + 1)
                                    o2 = s2.twin_surrogates(dim, delay, thr * 2.0 ** e, **kwa)
                                    t2 = s2.twins(thr * 2.0 ** e, **kwa)
                                    if t2 != tw or not np.array_equal(o1 * 2.0 ** e, o2):
                                        ctx.fail({"kind": "twins-not-scale-invariant", "class": "Surrogates"},
                                                 f"rescaling data and threshold by 2^{e} changes the twins "
                                                 "or the surrogate drawn with the same random stream",
                                                 dict(rep, exponent=e))
            except Exception as e:  # noqa
                ctx.fail({"kind": "raises", "method": g, "error": type(e).__name__},
                         f"{g} raised {type(e).__name__}: {e}", rep)
            if not np.array_equal(s.original_data, pristine):
                ctx.fail({"kind": "original-data-changed", "method": g},
                         f"{g} changed original_data, later surrogates refer to different data", rep)
                break
        ctx.case(("oracle", data.tobytes().hex(), seed, tuple(hist)), n >= 4)

    # ---- twin surrogates after the data or the embedding changed on the object -----------
    # (the embedding must follow original_data; memoised twins must follow the embedding)
    nst = 150 if quick else 1200
    for c in range(nst):
        kind, data, tags = gen_data(rng, nprng, quick, kinds=("int", "dyadic", "periodic", "two-level",
                                                             "float"), variants=False)
        N, n = data.shape
        dim = rng.choice([1, 1, 2, 3])
        delay = rng.choice([0, 1, 2])
        if (dim - 1) * delay > n:
            dim, delay = 1, 0
        thr = rng.choice([0.125, 0.5, 1.0, 0.3, 0.7])
        md = rng.choice([0, 1, 2, 7])
        seed = rng.randrange(2 ** 31)
        pyrandom.seed(seed)
        s = Surrogates(clone(data), silence_level=3)
        script = rng.choice([["twin", "normalize", "twin"], ["twin", "twins", "normalize", "twin"],
                             ["setter", "twins", "normalize", "twin"],
                             ["twin", "normalize", "twins", "twin", "normalize", "twin"],
                             ["twin", "setter-other", "twins", "twin"]])
        rep = {"data": data.tolist(), "dimension": dim, "delay": delay, "threshold": thr,
               "min_dist": md, "python_random_seed": seed, "history": script}
        ctx.count("oracle:twin-after-state-change")
        try:
            with quiet(), np.errstate(all="ignore"):
                for k_, op in enumerate(script):
                    if op == "normalize":
                        s.normalize_original_data()
                    elif op == "setter":
                        s.embedding = Surrogates.embed_time_series_array(s.original_data, dim, delay)
                    elif op == "setter-other":
                        s.embedding = Surrogates.embed_time_series_array(s.original_data[:, ::-1].copy(),
                                                                         dim, delay)
                    elif op == "twins":
                        tw = s.twins(thr, md)
                        eb = np.asarray(s.embedding, dtype=float)
                        for i in range(N):
                            Rb = brute_R(eb[i].reshape(eb.shape[1], eb.shape[2]), float(np.float32(thr)))
                            if [sorted(x) for x in tw[i]] != twins_by_definition(Rb, md):
                                ctx.fail({"kind": "twins-differ-from-definition", "class": "Surrogates",
                                          "after": "history"},
                                         "Surrogates.twins() is not the twin table of the embedding the "
                                         "object holds now", dict(rep, step=k_, series=i))
                                break
                    else:
                        cur = np.array(s.original_data, dtype=float)
                        if not np.isfinite(cur).all():
                            break
                        out = s.twin_surrogates(dim, delay, thr, md)
                        check_twin_surrogates(ctx, "Surrogates", out, s.twins(thr, md), cur, dim, delay,
                                              thr, md, dict(rep, step=k_))
        except Exception as e:  # noqa
            ctx.fail({"kind": "raises", "method": "twin-history", "error": type(e).__name__},
                     f"history {script} raised {type(e).__name__}: {e}", rep)
        ctx.case(("oracle-twin-history", data.tobytes().hex(), dim, delay, thr, md, tuple(script), seed),
                 n >= 4)

    # ---- a series longer than the int16 range of the pinned neighbour counter (thorough tier;
    #      R alone takes n_time^2 bytes = 4.3 GB, so only when memory allows) ---------------------
    if not quick:
        try:
            avail = int(next(l for l in open("/proc/meminfo") if l.startswith("MemAvailable")).split()[1])
        except Exception:  # noqa
            avail = 0
        if avail >= 16 * 1024 * 1024:
            nL = 2 ** 16 + 1
            sL = Surrogates(np.zeros((1, nL)), silence_level=3)
            with quiet():
                sL.embedding = Surrogates.embed_time_series_array(sL.original_data, 1, 0)
                twL = sL.twins(0.5, nL - 3)
            got = [twL[0][0], twL[0][1], twL[0][nL - 2], twL[0][nL - 1]]
            exp = [[nL - 2, nL - 1], [nL - 1], [0], [0, 1]]
            ctx.count("oracle:long-series-65537")
            if [sorted(x) for x in got] != exp:
                ctx.fail({"kind": "twins-differ-from-definition", "class": "Surrogates", "n_time": nL},
                         "a constant series of 65537 samples: every state has 65537 neighbours, all "
                         "separated pairs are twins, but twins() lists " + str(got),
                         {"data": "np.zeros((1, 65537))", "dimension": 1, "delay": 0, "threshold": 0.5,
                          "min_dist": nL - 3})
            del sL, twL
        else:
            ctx.count("oracle:long-series-skipped-low-memory")

    # ---- RecurrencePlot twins on the unpatched code ---------------------------
    nrp = 400 if quick else 3000
    for c in range(nrp):
        n = rng.choice([2, 3, 5, 8, 13, 21, 30])
        ts, kind, dim, tau, kw, variant = gen_rp(rng, n, floats=nprng)
        md = rng.choice([0, 1, 2, 7, n + 1])
        ns = rng.choice([1, 2, 3])
        seed = rng.randrange(2 ** 31)
        pyrandom.seed(seed)
        rep = {"time_series": ts.tolist(), "dtype": str(ts.dtype), "min_dist": md,
               "n_surrogates": ns, **kw}
        ctx.count(f"oracle:rp:{variant}")
        ctx.count(f"oracle:rp:metric={kw['metric']}")
        try:
            with quiet(), np.errstate(all="ignore"):
                rp = RecurrencePlot(ts, silence_level=3, **kw)
                for call in range(rng.choice([1, 2, 3])):
                    R = np.array(rp.recurrence_matrix()).astype(bool)
                    NN = R.shape[0]
                    tw = rp.twins(md)
                    exp = twins_by_definition(R, md)
                    sym = bool(np.array_equal(R, R.T))
                    if [sorted(x) for x in tw[:NN]] != exp or len(tw) < NN:
                        ctx.fail({"kind": "twins-differ-from-definition", "class": "RecurrencePlot",
                                  "symmetric_R": sym},
                                 "RecurrencePlot.twins differs from: separated by more than min_dist, "
                                 "identical rows of R, more than one neighbour",
                                 dict(rep, expected=exp, observed=tw))
                        break
                    out = rp.twin_surrogates(ns, md)
                    emb = np.array(rp.embedding)
                    for i in range(ns):
                        ok, j = trajectory_ok(out[i], emb, exp, NN)
                        if out.shape != (ns, NN, emb.shape[1]) or not ok:
                            ctx.fail({"kind": "twin-walk", "class": "RecurrencePlot"},
                                     f"twin surrogate {i}: step {j} is neither the successor of the "
                                     "previous state nor of one of its twins (nor an allowed restart)",
                                     dict(rep, surrogate=out[i].tolist(), python_random_seed=seed))
                            break
        except Exception as e:  # noqa
            ctx.fail({"kind": "raises", "class": "RecurrencePlot", "method": "twin_surrogates",
                      "error": type(e).__name__},
                     f"RecurrencePlot.twins/twin_surrogates raised {type(e).__name__}: {e}", rep)
        ctx.case(("oracle-rp", ts.tobytes().hex(), md, ns, str(kw), seed), n >= 5)


def check_twins(ctx, cls, tw, data, dim, delay, thr, md, rep):
    """twins() against the definition on a brute-force recurrence matrix; returns the expected
    lists per series, or None after reporting"""
    data = np.asarray(data, dtype=float)
    N, n = data.shape
    nT = n - (dim - 1) * delay
    thr32 = float(np.float32(thr))
    exps = []
    if len(tw) != N:
        ctx.fail({"kind": "shape", "method": "twins"}, f"{len(tw)} twin tables for {N} series", rep)
        return None
    for i in range(N):
        emb = np.array([[data[i, k + l * delay] for l in range(dim)] for k in range(nT)]) \
            .reshape(nT, dim)
        R = brute_R(emb, thr32)
        exp = twins_by_definition(R, md)
        if [sorted(x) for x in tw[i]] != exp:
            ctx.fail({"kind": "twins-differ-from-definition", "class": cls},
                     "Surrogates.twins differs from: separated by more than min_dist, identical "
                     "recurrence neighbourhoods, more than one neighbour",
                     dict(rep, series=i, expected=exp, observed=tw[i]))
            return None
        exps.append((emb, exp))
    return exps


def check_twin_surrogates(ctx, cls, out, tw, data, dim, delay, thr, md, rep):
    data = np.asarray(data, dtype=float)
    N, n = data.shape
    nT = n - (dim - 1) * delay
    out = np.asarray(out)
    if out.shape != (N, nT):
        ctx.fail({"kind": "shape", "method": "twin_surrogates"}, f"shape {out.shape}", rep)
        return
    exps = check_twins(ctx, cls, tw, data, dim, delay, thr, md, rep)
    if exps is None:
        return
    for i, (emb, exp) in enumerate(exps):
        ok, j = trajectory_ok(out[i].reshape(-1, 1), emb[:, :1], exp, nT)
        if not ok:
            ctx.fail({"kind": "twin-walk", "class": cls},
                     f"twin surrogate of series {i}: step {j} is neither the successor of the "
                     "previous state nor of one of its twins (nor an allowed restart)",
                     dict(rep, series=i, surrogate=out[i].tolist()))
            return
