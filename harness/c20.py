"""C20 — compiled kernels never touch memory outside their arrays.

proof  : lean/Pyunicorn/Properties/C20.lean — `<kernel>_in_bounds` for the six
         raw-pointer C routines for all sizes, `…Call_rejects_or_safe` for the
         public wrappers, index bounds of the `while` kernels.
tie    : (T1) the *real* load/store trace of the current C sources (compiled
         with clang -fsanitize-coverage=trace-loads,trace-stores, called on
         padded buffers in a child process) must equal the model trace;
         (T2) the verdict safe|raise|oob of every public call must equal the one
         observed on an ASan/UBSan build of the working tree;
         (T3) `_set_adaptive_neighborhood_size` outcome (IndexError / matrix)
         against the executable model.
search : the sanitizers themselves — any ASan/UBSan report or crash on a call
         the API accepted, and any recorded access outside its array, is a
         failing input; a Python exception is a pass.
"""
import fcntl
import hashlib
import json
import os
import subprocess
import tempfile
from concurrent.futures import ThreadPoolExecutor
from fractions import Fraction

import numpy as np

from . import common

AUX = os.path.join(os.path.dirname(os.path.abspath(__file__)), "c20_aux")
ASAN_RT = "/usr/lib/llvm-14/lib/clang/14.0.6/lib/linux/libclang_rt.asan-x86_64.so"
C_FILES = {pkg: os.path.join(common.REPO, "src", "pyunicorn", pkg, "_ext", "src_numerics.c")
           for pkg in ("climate", "timeseries", "core")}
SAN_PAT = ("ERROR: AddressSanitizer", "runtime error:", "ERROR: UndefinedBehaviorSanitizer",
           "AddressSanitizer:DEADLYSIGNAL", "Segmentation fault", "Fatal Python error")


# ---------------------------------------------------------------------------
# builds
# ---------------------------------------------------------------------------

def build_trace_libs():
    """instrumented shared objects of the three repo C files (current working
    tree), cached by content hash under .build/trace-<hash>/"""
    h = hashlib.sha256()
    for p in sorted(C_FILES.values()) + [os.path.join(AUX, "rt.c")]:
        h.update(open(p, "rb").read())
    os.makedirs(common.BUILD_ROOT, exist_ok=True)
    lock = open(os.path.join(common.BUILD_ROOT, ".lock_trace"), "w")
    fcntl.flock(lock, fcntl.LOCK_EX)
    try:
        d = os.path.join(common.BUILD_ROOT, "trace-" + h.hexdigest()[:16])
        libs = {pkg: os.path.join(d, f"libtrace_{pkg}.so") for pkg in C_FILES}
        if all(os.path.exists(p) for p in libs.values()):
            return libs
        os.makedirs(d, exist_ok=True)

        def cc(args):
            r = subprocess.run(["clang"] + args, cwd=d, stdout=subprocess.PIPE,
                               stderr=subprocess.STDOUT, text=True)
            if r.returncode != 0:
                raise common.BuildError("trace build failed: " + r.stdout[-2000:])
        cc(["-O0", "-fPIC", "-c", os.path.join(AUX, "rt.c"), "-o", "rt.o"])
        for pkg, src in C_FILES.items():
            cc(["-O0", "-std=c99", "-D_GNU_SOURCE", "-fPIC", "-w",
                "-fsanitize-coverage=edge,trace-pc-guard,trace-loads,trace-stores",
                "-c", src, "-o", pkg + ".o"])
            cc(["-shared", pkg + ".o", "rt.o", "-o", libs[pkg], "-lm"])
        for other in os.listdir(common.BUILD_ROOT):
            if other.startswith("trace-") and os.path.join(common.BUILD_ROOT, other) != d:
                subprocess.run(["rm", "-rf", os.path.join(common.BUILD_ROOT, other)])
        return libs
    finally:
        fcntl.flock(lock, fcntl.LOCK_UN)
        lock.close()


# ---------------------------------------------------------------------------
# children
# ---------------------------------------------------------------------------

def run_trace_child(libs, reqs):
    """-> {id: dict | {'crash': rc}}"""
    res = {}
    todo = list(reqs)
    while todo:
        data = "".join(json.dumps(r) + "\n" for r in todo)
        p = subprocess.run([common.PY, os.path.join(AUX, "trace_child.py")] +
                           [f"{k}={v}" for k, v in libs.items()],
                           input=data, stdout=subprocess.PIPE, stderr=subprocess.PIPE,
                           text=True, timeout=1800)
        begun = None
        for line in p.stdout.split("\n"):
            if line.startswith("BEGIN "):
                begun = line.split()[1]
            elif line.startswith("END "):
                _, rid, js = line.split(" ", 2)
                res[rid] = json.loads(js)
                begun = None
        done = set(res)
        if begun is not None:
            res[begun] = {"crash": p.returncode, "stderr": p.stderr[-600:]}
            done.add(begun)
        elif p.returncode != 0 and not any(r["id"] not in done for r in todo):
            pass
        elif p.returncode != 0:
            raise common.BuildError("trace child failed outside a call: " + p.stderr[-1500:])
        todo = [r for r in todo if r["id"] not in done]
    return res


KTABLE = os.path.join(common.LEAN, "Pyunicorn", "Generated", "StructC20.json")
DTYPE_OF = {"ADJ_t": "int8", "MASK_t": "int8", "LAG_t": "int8", "DEGREE_t": "int16", "NODE_t": "int32",
            "FIELD_t": "float32", "WEIGHT_t": "float32", "DFIELD_t": "float64", "DWEIGHT_t": "float64"}


def run_api_child(asan_src, reqs, extra_path=None, kcalls=None):
    """-> {id: {'outcome': 'ok'|'ok:<v>'|'raise:X'|'crash', 'reports': [...]}}; kernel calls
    observed by the probe (kernel, shapes/ints, outcome) are appended to `kcalls`"""
    res = {}
    todo = list(reqs)
    env = dict(os.environ)
    env.update(LD_PRELOAD=ASAN_RT,
               ASAN_OPTIONS="detect_leaks=0:abort_on_error=0:halt_on_error=1:"
                            "allocator_may_return_null=1",
               UBSAN_OPTIONS="print_stacktrace=0:halt_on_error=0",
               PYTHONPATH=asan_src, OMP_NUM_THREADS="1", OPENBLAS_NUM_THREADS="1")
    if kcalls is not None and os.path.exists(KTABLE):
        env["C20_KERNEL_TABLE"] = KTABLE
    env.pop(common.GUARD, None)
    while todo:
        with tempfile.NamedTemporaryFile("w", suffix=".jsonl", prefix="C20-", delete=False) as fh:
            for r in todo:
                fh.write(json.dumps(r) + "\n")
            path = fh.name
        try:
            # (the climate classes store / look up matrices in the working directory)
            with tempfile.TemporaryDirectory(prefix="C20-cwd-") as cwd:
                p = subprocess.run([common.PY, os.path.join(AUX, "api_child.py"), path] +
                                   ([extra_path] if extra_path else []),
                                   stdout=subprocess.PIPE, stderr=subprocess.PIPE, text=True,
                                   env=env, timeout=3000, errors="replace", cwd=cwd)
        finally:
            os.unlink(path)
        cur, ready = None, False
        for line in p.stderr.split("\n"):
            if line.startswith("@@READY"):
                ready = True
            elif line.startswith("@@BEGIN "):
                cur = line.split()[1]
                res[cur] = {"outcome": "crash", "reports": []}
            elif line.startswith("@@KCALL "):
                if kcalls is not None:
                    kcalls.append(tuple(json.loads(line[8:])))
            elif line.startswith("@@END "):
                parts = line.split(" ", 2)
                res[parts[1]]["outcome"] = parts[2].strip()
                cur = None
            elif cur is not None and line.startswith("Timeout (") and not res[cur]["reports"]:
                res[cur]["outcome"] = "timeout"
            elif cur is not None and res[cur]["outcome"] == "timeout":
                pass            # the watchdog's traceback dump
            elif cur is not None and any(s in line for s in SAN_PAT):
                res[cur]["reports"].append(line.strip()[:300])
            elif cur is not None and res[cur]["reports"] and \
                    ("#0 " in line or "#1 " in line or line.startswith("READ of") or
                     line.startswith("WRITE of")):
                res[cur]["reports"].append(line.strip()[:300])
        if not ready:
            raise common.BuildError("API child did not start: " + p.stderr[-2000:])
        if cur is not None:
            res[cur]["rc"] = p.returncode
            if res[cur]["outcome"] == "timeout":
                res[cur]["traceback"] = p.stderr[-1500:]
        elif p.returncode != 0:
            raise common.BuildError(f"API child rc={p.returncode} outside a call: "
                                    + p.stderr[-1500:])
        todo = [r for r in todo if r["id"] not in res]
    return res


def observed_verdict(r):
    if r["outcome"] == "timeout" and not r["reports"]:
        return "timeout"
    if r["reports"] or r["outcome"] == "crash":
        return "oob"
    if r["outcome"].startswith("raise:"):
        return "raise"
    return "safe"


# ---------------------------------------------------------------------------
# encoding
# ---------------------------------------------------------------------------

def A(x, dtype=None, **kw):
    x = np.asarray(x)
    d = {"dtype": str(dtype or x.dtype), "shape": list(x.shape),
         "data": [v for v in x.ravel().tolist()]}
    d.update(kw)
    return d


def enc_rat(v):
    v = float(v)
    if v != v:
        return "nan"
    f = Fraction(v)
    return str(f.numerator) if f.denominator == 1 else f"{f.numerator}/{f.denominator}"


def enc_x(v):
    v = float(v)
    if v == float("inf"):
        return "inf"
    if v == float("-inf"):
        return "-inf"
    return enc_rat(v)


def SX(x, dt="float64", **kw):
    """array request with values sent as strings (json cannot carry inf / nan)"""
    x = np.asarray(x)
    d = {"dtype": dt, "shape": list(x.shape), "data": [repr(float(v)) for v in x.ravel()], "via": "U32"}
    d.update(kw)
    return d


def tmi_range_source():
    """the three assignments `range_min = …`, `range_max = …`, `scaling = …` of
    `_test_mutual_information` as they stand in the current timeseries/_ext/numerics.pyx, compiled
    as Python expressions (they are Python-level NumPy expressions inside the `cdef` block), or None
    when they cannot be read"""
    import re
    try:
        text = open(os.path.join(common.REPO, "src", "pyunicorn", "timeseries", "_ext",
                                 "numerics.pyx")).read()
        m = re.search(r"^def _test_mutual_information\((.*?)\):\n(.*?)(?=^def |^cdef |\Z)", text,
                      re.S | re.M)
        body = re.sub(r"#[^\n]*", "", m.group(2))
        out = {}
        for name in ("range_min", "range_max", "scaling"):
            mm = re.search(rf"DFIELD_t {name} = ((?:[^\n]*\\\n)*[^\n]*)", body)
            out[name] = compile(mm.group(1).replace("\\\n", " ").strip(), f"<{name}>", "eval")
        return out
    except Exception:  # noqa
        return None


def tmi_range_eval(code, d1, d2):
    """what those expressions give for two float64 arrays: range_min, range_max as C doubles
    (`DFIELD_t`), the division with Cython's ZeroDivisionError (cdivision is off)"""
    with np.errstate(all="ignore"):
        env = {"np": np, "original_data": np.ascontiguousarray(d1, dtype=np.float64),
               "surrogates": np.ascontiguousarray(d2, dtype=np.float64)}
        rmin = float(eval(code["range_min"], dict(env)))
        rmax = float(eval(code["range_max"], dict(env)))
        try:
            sc = float(eval(code["scaling"], {"range_min": rmin, "range_max": rmax, "np": np}))
        except ZeroDivisionError:
            sc = None
    return rmin, rmax, sc


def mi_worker_source():
    """the statements of `MutualInfoClimateNetwork._cython_calculate_mutual_information` up to (not
    including) the kernel call, and `Data.normalize_time_series_array`, read out of the current
    source and compiled one by one; None when they cannot be read (round 5c)"""
    import ast
    try:
        base = os.path.join(common.REPO, "src", "pyunicorn")

        def meth(rel, cls, name):
            tree = ast.parse(open(os.path.join(base, rel)).read())
            for n in tree.body:
                if isinstance(n, ast.ClassDef) and n.name == cls:
                    for f in n.body:
                        if isinstance(f, ast.FunctionDef) and f.name == name:
                            return f
            raise KeyError(name)
        g = meth("core/data.py", "Data", "normalize_time_series_array")
        g.decorator_list = []
        gm = ast.Module(body=[g], type_ignores=[])
        ast.fix_missing_locations(gm)
        f = meth("climate/mutual_info.py", "MutualInfoClimateNetwork",
                 "_cython_calculate_mutual_information")
        stmts = []
        for st in f.body:
            if isinstance(st, ast.Expr) and isinstance(st.value, ast.Constant):
                continue
            if isinstance(st, ast.Assign) and any(isinstance(x, ast.Name) and x.id == "mi"
                                                  for x in st.targets):
                break
            m = ast.Module(body=[st], type_ignores=[])
            ast.fix_missing_locations(m)
            tgt = [x.id for x in getattr(st, "targets", []) if isinstance(x, ast.Name)]
            stmts.append((tgt, compile(m, "<worker>", "exec")))
        return compile(gm, "<normalize>", "exec"), stmts
    except Exception:  # noqa
        return None


def mi_worker_eval(code, an):
    """run those statements with NumPy on `an`: the array that reaches `to_cy`, range_min, range_max,
    scaling (None: ZeroDivisionError at the assignment of `scaling`)"""
    import types
    genv = {"np": np}
    exec(code[0], genv)
    data = types.SimpleNamespace(normalize_time_series_array=genv["normalize_time_series_array"])
    env = {"np": np, "self": types.SimpleNamespace(silence_level=3, data=data), "anomaly": an,
           "n_bins": 32, "print": lambda *a, **k: None}
    with np.errstate(all="ignore"):
        for tgt, st in code[1]:
            try:
                exec(st, env)
            except ZeroDivisionError:
                if tgt != ["scaling"]:
                    raise
                env["scaling"] = None
    return env["anomaly"], env["range_min"], env["range_max"], env["scaling"]


def enc_xdata(M):
    M = np.asarray(M)
    if M.size == 0:
        return "-"
    return ";".join(",".join(enc_x(v) for v in row) for row in M)


def enc_data(M):
    M = np.asarray(M)
    if M.size == 0:
        return "-"
    return ";".join(",".join(enc_rat(v) for v in row) for row in M)


def enc_imat(M):
    M = np.asarray(M)
    if M.shape[0] == 0:
        return "-"
    return ";".join(",".join(str(int(v)) for v in row) or "-" for row in M)


def shape_grid(rng, quick):
    dims = [0, 1, 2, 3, 5]
    g = [(a, b) for a in dims for b in dims]
    for _ in range(3 if quick else 12):
        a, b = rng.randrange(1, 8), rng.randrange(1, 8)
        if a != b:
            g.append((a, b))
    if not quick:       # more nodes than samples and the reverse, beyond the small grid
        g += [(rng.randrange(8, 13), rng.randrange(1, 4)), (rng.randrange(1, 4), rng.randrange(8, 13)),
              (rng.randrange(8, 13), rng.randrange(8, 13))]
    return g


def dyadic(nprng, shape, lo=0.0, rng_pow=0, nan_p=0.0, hit_ends=True):
    """multiples of 2^rng_pow/8 in [lo, lo + 2^rng_pow]; both ends attained when
    the array has >= 2 entries (so that max - min is a power of two)"""
    n = int(np.prod(shape))
    v = nprng.randint(0, 9, size=n).astype(float)
    if hit_ends and n >= 2:
        idx = nprng.permutation(n)
        v[idx[0]], v[idx[1]] = 0.0, 8.0
    v = lo + v / 8.0 * (2.0 ** rng_pow)
    if nan_p:
        mask = nprng.rand(n) < nan_p
        v[mask] = np.nan
    return v.reshape(shape)


# ---------------------------------------------------------------------------

def run(ctx):
    rng = ctx.rng
    nprng = np.random.RandomState(rng.randrange(2 ** 31))
    quick = ctx.tier == "quick"
    ctx.rule = ("T1: every raw-pointer C routine x shape grid {0,1,2,3,5}^2 + random dims <= 7 (<= 12 "
                "thorough; N != T included), n_bins 1..4 (..16 thorough), dyadic data incl. NaN / range "
                "ends under exact power-of-two rescalings 2^-40..2^60 with offsets, every node index: real "
                "load/store trace vs model trace; T2: public entry points x same grid x mismatching shapes "
                "/ n_bins in {-2^40,-1,0,1,2,3,5,32,64,2^31,2^40} / node indices outside [0,N) / float32, "
                "float64, Fortran-order and strided inputs / rescaled, constant, NaN, near-one data / "
                "ResNetwork histories (adjacency reassigned with a larger, smaller, equal number of nodes, "
                "with or without update_resistances) / non-default n_bins of the climate routine, on the "
                "ASan+UBSan build: verdict vs model; T3: adaptive-neighbourhood kernel on valid, permuted, "
                "repeated, prefilled, degenerate and corrupted tables, n_time smaller / larger than the "
                "matrix, with the model's well-formedness test against an independent evaluation; T1 also with "
                "+-inf / NaN data, scaling in {0, 2^-k, inf}, range_min in {finite, -inf}; T4: the typed-buffer "
                "kernels without data-dependent subscripts x buffer extents exactly as needed / larger / one short "
                "on one axis / random x integer parameters 0..4: IndexError | normal return vs the prediction from "
                "the generated site lists; every kernel call made under the public API is recorded with its "
                "shapes and tested against the contract the in-bounds theorems assume; T2 also (round 5): "
                "Surrogates.test_mutual_information (directly and through an instance) on IEEE data - +-inf / "
                "NaN in either or both arrays, whole rows / arrays infinite, constant finite part - in both "
                "float widths and layouts: verdict vs the wrapper model over IEEE values whose shape test, size "
                "sources, range terms and scaling expression are the generated tables; the source's own "
                "range_min / range_max / scaling expressions evaluated by NumPy vs the model's NaN-propagating "
                "folds, exactly; every `call tmi` / `call pearson` request is answered by the hard-coded and by "
                "the generated-table model, which must agree; oracle "
                "stream: other dtypes, random / +-inf / NaN / overflowing / subnormal-range float data in "
                "both widths, n_bins up to 4096, RecurrencePlot / VisibilityGraph entry points, histories on "
                "one Surrogates / RecurrencePlot object with library-held arrays.  distinct = distinct "
                "canonical request; non-trivial = at least one array access is performed or the call is "
                "rejected for a size reason")
    ctx.trusted = common.DEFAULT_TRUSTED + [
        "clang 14 sanitizer-coverage load/store callbacks and ASan/UBSan report every access / "
        "undefined operation of the compiled C code on the inputs run (T1 at -O0, T2 at -O1)",
        "Cython's generated bounds checks for typed buffers (boundscheck=True, wraparound=False) "
        "and NumPy's allocation sizes",
    ]
    ctx.assumptions = [
        "element counts of every array < 2^31 (under this hypothesis the *_sites_fit theorems prove "
        "that no int index expression of the translated C text overflows; the pointer walks with "
        "running offsets are computed in unbounded integers in the model)",
        "floating-point rounding is monotone, idempotent, fixes 0 and returns a nearest binary64 value "
        "(hypotheses of symbolRnd_in_range_b64; no bit-level IEEE model)",
        "the data-dependent subscripts of the typed-buffer kernels (indices read from arrays, random draws, "
        "while counters; census in extra.typed_buffer_census) are protected by Cython's bounds check",
        "the contracts of the typed-buffer kernels (translate/c20_contracts.json) describe what the Python "
        "callers pass: validated on the calls observed in this run, not derived from the callers' source",
        "alloca(4*8*tmax) in _spearman_corr does not exhaust the stack (not modelled)",
    ]
    ctx.proofs()

    libs = build_trace_libs()
    asan_src = common.ensure_build(asan=True)
    grid = shape_grid(rng, quick)

    # ======================= T1: kernel traces =============================
    treqs, lreqs, tmeta = [], [], []

    def add_trace(fn, lean, args, arrays, canon, nontrivial, sample=None):
        rid = f"t{len(treqs)}"
        treqs.append({"id": rid, "fn": fn, "args": args, "arrays": arrays})
        lreqs.append(lean)
        tmeta.append((fn, canon))
        ctx.case(("trace", fn) + tuple(canon), nontrivial, sample)
        ctx.count(f"trace:{fn}")

    for (m, T) in grid:
        mask = (nprng.rand(m, T) < 0.7).astype(np.int8)
        if rng.random() < 0.3:
            mask[:] = 1
        ranks = (nprng.rand(m, T).argsort(axis=1).argsort(axis=1) + 1.0) if T else \
            np.zeros((m, T))
        add_trace("spearman", f"trace spearman {m} {T}", [m, T],
                  [A(mask, "int8"), A(ranks, "float32"), A(np.zeros((m, m)), "float32")],
                  (m, T, mask.tobytes().hex()), m > 0,
                  {"routine": "_spearman_corr", "m": m, "tmax": T})
        o, s = dyadic(nprng, (m, T)), dyadic(nprng, (m, T))
        add_trace("pearson", f"trace pearson {m} {T} {m} {T}", [T, m, 1.0 / T if T else 0.0],
                  [A(o, "float64"), A(s, "float64"), A(np.zeros((m, m)), "float32")],
                  (m, T), m > 1 and T > 0)
        for nb in rng.sample([1, 2, 3, 4], 2) + ([] if quick else rng.sample([5, 7, 8, 16], 2)):
            # extreme-but-exact rescalings: range 2^pw, offset a small multiple of it
            # (all values are multiples of 2^(pw-3) below 2^24 units: exact in float32)
            pw = rng.choice([-1, 0, 1, 3, -10, 20, -40, 60])
            lo = rng.choice([0.0, -1.0, 0.5, -4.0, 3.0]) * 2.0 ** (pw if abs(pw) > 3 else 0)
            nanp = rng.choice([0.0, 0.0, 0.2])
            ctx.count(f"trace-range:2^{pw}")
            d = dyadic(nprng, (m, T), lo, pw, nanp)
            sc, rm = 2.0 ** (-pw), lo
            add_trace("mi", f"trace mi {m} {T} {nb} {enc_rat(sc)} {enc_rat(rm)} {enc_data(d)}",
                      [T, m, nb, sc, rm],
                      [A(d, "float32"), A(np.zeros((m, T)), "int64"), A(np.zeros((m, nb)), "int64"),
                       A(np.zeros((nb, nb)), "int64"), A(np.zeros((m, m)), "float32")],
                      (m, T, nb, d.tobytes().hex()), m * T > 0,
                      {"routine": "_mutual_information", "N": m, "n_samples": T, "n_bins": nb}
                      if m * T <= 6 else None)
            d1 = dyadic(nprng, (m, T), lo, pw, nanp)
            d2 = dyadic(nprng, (m, T), lo, pw, nanp)
            add_trace("tmi", f"trace tmi {m} {T} {nb} {enc_rat(sc)} {enc_rat(rm)} "
                             f"{enc_data(d1)} {enc_data(d2)}",
                      [m, T, nb, sc, rm],
                      [A(d1, "float64"), A(d2, "float64"), A(np.zeros((m, T)), "int32"),
                       A(np.zeros((m, T)), "int32"), A(np.zeros((m, nb)), "int32"),
                       A(np.zeros((m, nb)), "int32"), A(np.zeros((nb, nb)), "int32"),
                       A(np.zeros((m, m)), "float32")],
                      (m, T, nb, d1.tobytes().hex(), d2.tobytes().hex()), m * T > 0)
    # data, scaling and range_min with infinities (what min / max / 1/(max-min) of such data give:
    # range_min = -inf or the least finite value, scaling = 0, a power of two, or +inf)
    for (m, T) in [g for g in grid if g[0] * g[1] > 0][:(10 if quick else 40)]:
        for fn in ("mi", "tmi"):
            nb = rng.choice([1, 2, 3, 4, 8])
            pw = rng.choice([0, 1, -3, 10])
            rm = rng.choice([0.0, -1.0, float("-inf")])
            sc = rng.choice([0.0, 2.0 ** (-pw), float("inf")])
            lo = 0.0 if rm == float("-inf") else rm

            def xd():
                d = dyadic(nprng, (m, T), lo, pw, rng.choice([0.0, 0.2]))
                for _k in range(rng.randrange(1, 3)):
                    d.flat[rng.randrange(d.size)] = float("inf") if (rm != float("-inf")
                                                                     or rng.random() < 0.5) else rm
                return d
            ctx.count(f"trace-inf:{fn}:scaling={enc_x(sc) if sc in (0.0, float('inf')) else 'finite'}"
                      f":range_min={'-inf' if rm == float('-inf') else 'finite'}")
            if fn == "mi":
                d = xd()
                add_trace("mi", f"tracex mi {m} {T} {nb} {enc_x(sc)} {enc_x(rm)} {enc_xdata(d)}",
                          [T, m, nb, sc, rm],
                          [A(d, "float32"), A(np.zeros((m, T)), "int64"), A(np.zeros((m, nb)), "int64"),
                           A(np.zeros((nb, nb)), "int64"), A(np.zeros((m, m)), "float32")],
                          ("inf", m, T, nb, sc, rm, d.tobytes().hex()), True,
                          {"routine": "_mutual_information", "data": "with +-inf", "scaling": enc_x(sc),
                           "range_min": enc_x(rm)})
            else:
                d1, d2 = xd(), xd()
                add_trace("tmi", f"tracex tmi {m} {T} {nb} {enc_x(sc)} {enc_x(rm)} "
                                 f"{enc_xdata(d1)} {enc_xdata(d2)}",
                          [m, T, nb, sc, rm],
                          [A(d1, "float64"), A(d2, "float64"), A(np.zeros((m, T)), "int32"),
                           A(np.zeros((m, T)), "int32"), A(np.zeros((m, nb)), "int32"),
                           A(np.zeros((m, nb)), "int32"), A(np.zeros((nb, nb)), "int32"),
                           A(np.zeros((m, m)), "float32")],
                          ("inf", m, T, nb, sc, rm, d1.tobytes().hex(), d2.tobytes().hex()), True)
    for N in [0, 1, 2, 3, 4, 5] + ([] if quick else [6, 7, 9]):
        adm, R = nprng.rand(N, N), nprng.rand(N, N)
        for i in range(N):
            add_trace("vcfb", f"trace vcfb {N} {i}", [N, 1.0, 1.0, i],
                      [A(adm, "float32"), A(R, "float32")], (N, i), N > 2)
        add_trace("ecfb", f"trace ecfb {N}", [N, 1.0, 1.0],
                  [A(adm, "float32"), A(R, "float32"), A(np.zeros((N, N)), "float32")],
                  (N,), N > 1)

    tres = run_trace_child(libs, treqs)
    impl = []
    for q, (fn, canon) in zip(treqs, tmeta):
        r = tres[q["id"]]
        if "crash" in r:
            impl.append("crash")
            ctx.fail({"kind": "kernel-trace", "routine": fn, "class": "crash"},
                     f"C routine behind {fn} crashed (rc={r['crash']}) on wrapper-sized arrays",
                     {"request": q, "stderr": r.get("stderr")})
            continue
        # oracle (independent of the model): every recorded access inside its array
        bad = []
        for tok in ([] if r["acc"] == "-" else r["acc"].split(",")):
            a, off, w, k = tok.split(":")
            if int(off) < 0 or int(off) + int(w) > r["sizes"][int(a)]:
                bad.append(tok)
        verdict = "oob" if bad else "safe"
        impl.append(verdict + "|" + r["acc"])
        if r["dropped"]:
            raise common.BuildError("trace buffer overflow")
        if bad:
            ctx.fail({"kind": "kernel-trace", "routine": fn, "class": "access-outside-array"},
                     f"{fn}: compiled C routine accesses {bad[:4]} outside arrays of byte sizes "
                     f"{r['sizes']} (sizes as allocated by the wrapper)",
                     {"routine": fn, "args": q["args"],
                      "array_shapes": [a["shape"] for a in q["arrays"]],
                      "array_dtypes": [a["dtype"] for a in q["arrays"]],
                      "outside": bad[:20], "trace_request": q,
                      "how": "./check C20 --replay <this file> (harness/c20_aux/trace_child.py)"})
    ctx.correspond("real load/store trace of the compiled C routines == Lean access trace",
                   lreqs, impl)
    ctx.extra["traces_compared"] = len(lreqs)

    # ======================= T2/T3: public API under ASan ======================
    areqs, amodel, ameta = [], [], []

    def add_api(fn, lean, arrays, args, sig_class, canon, nontrivial=True, sample=None, **kw):
        rid = f"a{len(areqs)}"
        q = {"id": rid, "fn": fn, "arrays": arrays, "args": args}
        q.update(kw)
        areqs.append(q)
        amodel.append(lean)
        ameta.append((fn, sig_class))
        ctx.case(("api", fn, sig_class) + tuple(canon), nontrivial, sample)
        ctx.count(f"api:{fn}:{sig_class}")

    def variant(x, dtype):
        """float32/float64, C/F order, strided views — all accepted by to_cy"""
        v = rng.choice(["c", "c", "F", "stride2"])
        kw = {}
        if v == "F":
            kw["order"] = "F"
        elif v == "stride2":
            kw["stride2"] = True
        return A(x, dtype, **kw)

    fdt = lambda: rng.choice(["float64", "float64", "float32"])  # noqa

    mism = [((3, 5), (2, 3)), ((2, 3), (3, 5)), ((3, 5), (5, 3)), ((3, 5), (3, 4)),
            ((3, 5), (2, 5)), ((1, 1), (0, 0)), ((2, 2), (1, 4)), ((5, 2), (2, 5)),
            # same number of series, the second array LONGER in time (by a little and by far more
            # than an allocator's slack), more series, and the first array the longer one
            ((3, 5), (3, 9)), ((2, 4), (2, 64)), ((4, 6), (4, 200)), ((3, 5), (4, 5)),
            ((3, 9), (3, 5)), ((2, 64), (2, 4))]
    for (m, T) in grid:
        mask = nprng.rand(m, T) < 0.7
        an = dyadic(nprng, (m, T), -1.0, 1, hit_ends=False)
        add_api("spearman", f"call spearman {m} {T} {m} {T}",
                [variant(mask, "bool"), variant(an, fdt())], [], "same-shape", (m, T), m > 0,
                {"entry": "RainfallClimateNetwork.spearman_corr", "mask": [m, T], "anomaly": [m, T]})
        o, s = dyadic(nprng, (m, T)), dyadic(nprng, (m, T))
        add_api("pearson", f"call pearson {m} {T} {m} {T}",
                [variant(o, fdt()), variant(s, fdt())], [], "same-shape", (m, T), m > 1)
        nbs = rng.sample([1, 2, 3, 32, 5, 64], 2) + \
            ([rng.choice([0, -1, -2 ** 40])] if rng.random() < 0.5 else []) + \
            ([rng.choice([2 ** 31, 2 ** 40])] if rng.random() < 0.25 else [])
        for nb in nbs:
            kind = rng.choice(["dyadic", "dyadic", "nan", "const", "scaled", "near-one"])
            if kind == "const":
                d1 = np.full((m, T), 0.5)
                d2 = np.full((m, T), 0.5)
            elif kind == "scaled":      # extreme power-of-two range and offset
                pw = rng.choice([-60, -20, 10, 40, 200])
                lo = rng.choice([0.0, -1.0, 5.0]) * 2.0 ** pw
                d1 = dyadic(nprng, (m, T), lo, pw)
                d2 = dyadic(nprng, (m, T), lo, pw)
            elif kind == "near-one":    # rescaled values just below 1: the largest bin
                d1 = dyadic(nprng, (m, T))
                d2 = dyadic(nprng, (m, T))
                if d1.size:
                    d1.flat[rng.randrange(d1.size)] = np.nextafter(1.0, 0.0)
                    d2.flat[rng.randrange(d2.size)] = 1.0 - 2.0 ** -30
            else:
                d1 = dyadic(nprng, (m, T), nan_p=0.3 if kind == "nan" else 0.0)
                d2 = dyadic(nprng, (m, T))
            cls = ("n_bins<1" if nb < 1 else "n_bins>=2^31" if nb >= 2 ** 31 else "same-shape") \
                + ":" + kind
            add_api("tmi", f"call tmi {m} {T} {m} {T} {nb} {enc_data(d1)} {enc_data(d2)}",
                    [variant(d1, fdt()), variant(d2, fdt())], [nb], cls, (m, T, nb, kind),
                    True, {"entry": "Surrogates.test_mutual_information", "shape": [m, T],
                           "n_bins": nb, "data": kind} if m * T <= 4 else None)
        # climate mutual information: anomaly is (time, nodes)
        an = nprng.randint(-8, 9, size=(T, m)) / 4.0 * 2.0 ** rng.choice([0, 0, -30, 30])
        if rng.random() < 0.2 and an.size:
            an[:, rng.randrange(m)] = an[0, 0]          # a constant series (normalises to 0)
        lean = mi_model_request(an)
        add_api("mi", lean, [variant(an, fdt())], [], "grid", (m, T, an.tobytes().hex()),
                m * T > 0)
        if rng.random() < 0.5:
            nb = rng.choice([1, 2, 5, 64])
            add_api("mi", mi_model_request(an, nb), [variant(an, fdt())], [nb],
                    "non-default-n_bins", (m, T, nb, an.tobytes().hex()), m * T > 0)
    for (s1, s2) in mism:
        add_api("spearman", f"call spearman {s1[0]} {s1[1]} {s2[0]} {s2[1]}",
                [A(nprng.rand(*s1) < 0.7, "bool"), A(nprng.rand(*s2), "float64")], [],
                "mask-shape-differs", (s1, s2))
        add_api("pearson", f"call pearson {s1[0]} {s1[1]} {s2[0]} {s2[1]}",
                [A(dyadic(nprng, s1), "float64"), A(dyadic(nprng, s2), "float64")], [],
                "surrogates-shape-differs", (s1, s2))
        d1, d2 = dyadic(nprng, s1), dyadic(nprng, s2)
        add_api("tmi", f"call tmi {s1[0]} {s1[1]} {s2[0]} {s2[1]} 4 {enc_data(d1)} {enc_data(d2)}",
                [A(d1, "float64"), A(d2, "float64")], [4], "surrogates-shape-differs", (s1, s2))
    # `Surrogates.test_mutual_information` on IEEE data (round 5): +-inf / NaN in either or both
    # arrays, whole rows / whole arrays infinite, a constant finite part, both float widths and
    # layouts, directly and through an instance; verdict against `tmiCallX` (range terms from the
    # generated tables), and the range itself — the source's own three expressions evaluated by
    # NumPy — against the model's NaN-propagating folds (`range tmix`), exactly
    rsrc = tmi_range_source()
    rlean, rimpl = [], []
    xkinds = ["inf-orig", "ninf-orig", "inf-surr", "ninf-surr", "both-signs", "all-inf", "all-ninf",
              "inf+nan", "row-inf", "const+inf", "const+ninf", "finite", "nan-only", "opposite-arrays", "const"]
    xshapes = [(1, 1), (1, 2), (2, 1), (2, 3), (3, 2), (1, 5), (5, 1), (3, 5)]
    for c in range(30 if quick else 180):
        kind = xkinds[c % len(xkinds)]
        m, T = xshapes[(c // len(xkinds)) % len(xshapes)] if c < 8 * len(xkinds) else \
            (rng.randrange(1, 7), rng.randrange(1, 8))
        pw = rng.choice([0, 0, 1, -3, 10, -30])
        lo = rng.choice([0.0, -1.0, 2.0]) * 2.0 ** pw
        d1, d2 = dyadic(nprng, (m, T), lo, pw), dyadic(nprng, (m, T), lo, pw)
        P, M_ = float("inf"), float("-inf")
        pick = lambda d: (rng.randrange(m), rng.randrange(T))  # noqa
        if kind == "inf-orig":
            d1[pick(d1)] = P
        elif kind == "ninf-orig":
            d1[pick(d1)] = M_
        elif kind == "inf-surr":
            d2[pick(d2)] = P
        elif kind == "ninf-surr":
            d2[pick(d2)] = M_
        elif kind == "both-signs":
            d1[pick(d1)] = rng.choice([P, M_])
            d2[pick(d2)] = rng.choice([P, M_])
            if rng.random() < 0.5 and m * T > 1:
                d1[pick(d1)] = rng.choice([P, M_])
        elif kind == "all-inf":
            d1[:] = P
            d2[:] = P if rng.random() < 0.5 else d2
        elif kind == "all-ninf":
            d1[:] = M_ if rng.random() < 0.5 else d1
            d2[:] = M_
        elif kind == "inf+nan":
            d1[pick(d1)] = rng.choice([P, M_])
            (d2 if rng.random() < 0.5 else d1)[pick(d1)] = np.nan
        elif kind == "row-inf":
            d2[rng.randrange(m), :] = rng.choice([P, M_])
        elif kind == "const+inf":
            d1[:] = lo
            d2[:] = lo
            d2[pick(d2)] = P
        elif kind == "const+ninf":
            d1[:] = lo
            d2[:] = lo
            d1[pick(d1)] = M_
        elif kind == "nan-only":
            d2[pick(d2)] = np.nan
        elif kind == "const":               # range 0: ZeroDivisionError
            d1[:] = lo
            d2[:] = lo
        elif kind == "opposite-arrays":     # one array entirely +inf, the other entirely -inf
            d1[:] = P
            d2[:] = M_
        nb = rng.choice([1, 2, 3, 4, 32, 64]) if c % 9 else rng.choice([0, -1, 2 ** 31])
        s2 = (m, T) if c % 11 else rng.choice([(m, T + 1), (m + 1, T), (T, m + 2)])
        if s2 != (m, T):
            d2 = np.resize(d2, s2)
        cls = ("n_bins<1" if nb < 1 else "n_bins>=2^31" if nb >= 2 ** 31 else
               "same-shape" if s2 == (m, T) else "surrogates-shape-differs") + ":ieee:" + kind
        lean = f"call tmix {m} {T} {s2[0]} {s2[1]} {nb} {enc_xdata(d1)} {enc_xdata(d2)}"
        lay = lambda: rng.choice([{}, {}, {"order": "F"}, {"stride2": True}])  # noqa
        arrs = [SX(d1, fdt(), **lay()), SX(d2, fdt(), **lay())]
        canon = (m, T, s2, nb, kind, d1.tobytes().hex(), d2.tobytes().hex())
        sample = {"entry": "Surrogates.test_mutual_information", "shape": [m, T], "n_bins": nb,
                  "data": "IEEE: " + kind} if c < 14 else None
        if c % 3 == 2:
            own = (rng.randrange(1, 5), rng.randrange(2, 7))
            add_api("surr_obj", lean, arrs, [own[0], own[1], "tmi", nb], cls, (own,) + canon, True, sample)
        else:
            add_api("tmi", lean, arrs, [nb], cls, canon, True, sample)
        if s2 == (m, T):
            if rsrc is None:
                rlean.append(f"range tmix {enc_xdata(d1)} {enc_xdata(d2)}")
                rimpl.append("source-unreadable")
                continue
            try:
                rmin, rmax, sc = tmi_range_eval(rsrc, d1, d2)
            except Exception as e:  # noqa
                rlean.append(f"range tmix {enc_xdata(d1)} {enc_xdata(d2)}")
                rimpl.append("source-raises:" + type(e).__name__)
                continue
            exact = True
            if sc is not None and np.isfinite(sc) and np.isfinite(rmax - rmin) and rmax != rmin:
                exact = Fraction(sc) == 1 / (Fraction(rmax) - Fraction(rmin))
            if not exact:
                ctx.count("range-tie:skipped-inexact-reciprocal")
                continue
            rlean.append(f"range tmix {enc_xdata(d1)} {enc_xdata(d2)}")
            rimpl.append(f"{enc_x(rmin)} {enc_x(rmax)} " + ("zerodiv" if sc is None else enc_x(sc)))
            ctx.case(("range", d1.tobytes().hex(), d2.tobytes().hex()), True,
                     {"range of": "_test_mutual_information", "data": kind, "range_min": enc_x(rmin),
                      "range_max": enc_x(rmax), "scaling": "zerodiv" if sc is None else enc_x(sc)}
                     if len(rlean) <= 6 else None)
            ctx.count("range-tie:min=" + ("nan" if rmin != rmin else "-inf" if rmin == M_ else
                                          "inf" if rmin == P else "finite") +
                      ":scaling=" + ("zerodiv" if sc is None else "nan" if sc != sc else
                                     "0" if sc == 0 else "finite"))
    # round 5c: the climate worker on IEEE data — the caller's (time, nodes) anomaly with +-inf / NaN
    # / constant / tiny / huge columns goes to `call mix` (normalisation, transposition, range and
    # kernel inside the Lean model, all statements generated) and, under ASan, to
    # `calculate_similarity_measure` / `_cython_calculate_mutual_information`; the normalised array,
    # range and scaling — the source's own statements run by NumPy — against `range mix`, exactly
    msrc = mi_worker_source()
    mlean, mimpl = [], []
    mkinds = ["two-valued", "inf-col", "ninf-col", "both-inf-col", "nan-col", "all-inf", "all-nan",
              "const-col", "general", "tiny", "huge", "inf+nan", "all-const", "inf-all-cols", "two-valued"]
    mshapes = [(2, 2), (4, 3), (1, 3), (2, 1), (3, 2), (8, 2), (4, 1), (5, 3), (0, 2), (2, 0), (2, 5)]
    F32BIG = str(int(Fraction(float(np.finfo(np.float32).max))))
    for c in range(30 if quick else 150):
        kind = mkinds[c % len(mkinds)]
        T, m = mshapes[(c // 3) % len(mshapes)] if c < 3 * len(mshapes) else \
            (rng.choice([1, 2, 2, 3, 4, 4, 6, 8]), rng.randrange(1, 6))
        dt = fdt()
        P, M_ = float("inf"), float("-inf")
        pw = rng.choice([0, 0, 1, -3, 10])
        if kind == "tiny":          # squares underflow to 0: x / 0 = +-inf reaches the kernel
            pw = -600 if dt == "float64" else -100
        elif kind == "huge":        # squares overflow: x / inf = 0 everywhere, ZeroDivisionError
            pw = 600 if dt == "float64" else 100
        an = np.zeros((T, m))
        for j in range(m):
            cj = rng.choice([0.0, 1.0, -3.0, 5.0]) * 2.0 ** pw
            aj = rng.choice([1.0, 2.0, 3.0, 0.5]) * 2.0 ** pw
            if kind == "general":
                an[:, j] = nprng.randint(-8, 9, size=T) / 4.0
            elif T % 2 == 0:
                sg = [1.0] * (T // 2) + [-1.0] * (T // 2)
                rng.shuffle(sg)
                an[:, j] = cj + aj * np.array(sg)
            else:
                an[:, j] = cj + aj * nprng.randint(-1, 2, size=T)
        sqmode = "zero" if kind == "tiny" else "inf" if kind == "huge" else "exact"
        if an.size:
            pick = lambda: (rng.randrange(T), rng.randrange(m))  # noqa
            if kind == "inf-col":
                an[pick()] = P
            elif kind == "ninf-col":
                an[pick()] = M_
            elif kind == "both-inf-col":
                j = rng.randrange(m)
                an[T - 1, j] = P
                an[0, j] = M_          # (one sample: -inf only)
            elif kind == "nan-col":
                an[pick()] = np.nan
            elif kind == "all-inf":
                an[:] = rng.choice([P, M_])
            elif kind == "all-nan":
                an[:] = np.nan
            elif kind == "const-col":
                an[:, rng.randrange(m)] = 0.75
            elif kind == "inf+nan":
                an[pick()] = rng.choice([P, M_])
                an[pick()] = np.nan
            elif kind == "all-const":
                an[:] = 2.5
            elif kind == "inf-all-cols":
                for j in range(m):
                    an[rng.randrange(T), j] = rng.choice([P, M_])
        nb = None if c % 4 else rng.choice([1, 2, 5, 64, -1, 2 ** 31])
        cls = ("default-n_bins" if nb is None else "n_bins<0" if nb < 0 else
               "n_bins>=2^31" if nb >= 2 ** 31 else "non-default-n_bins") + ":ieee:" + kind
        lean = f"call mix {T} {m} {32 if nb is None else nb} {F32BIG} {sqmode} {enc_xdata(an)}"
        lay = rng.choice([{}, {}, {"order": "F"}, {"stride2": True}])
        add_api("mi", lean, [SX(an, dt, **lay)], [] if nb is None else [nb], cls,
                (T, m, nb, kind, dt, an.tobytes().hex()), an.size > 0,
                {"entry": "MutualInfoClimateNetwork.calculate_similarity_measure" if nb is None else
                 "MutualInfoClimateNetwork._cython_calculate_mutual_information", "anomaly": [T, m],
                 "data": "IEEE: " + kind, "dtype": dt} if c < 15 else None)
        if an.size == 0:
            continue
        rq = f"range mix {T} {m} {sqmode} {enc_xdata(an)}"
        if msrc is None:
            mlean.append(rq)
            mimpl.append("source-unreadable")
            continue
        try:
            d_, rmin, rmax, sc = mi_worker_eval(msrc, np.array(an, dtype=dt))
        except Exception as e:  # noqa
            mlean.append(rq)
            mimpl.append("source-raises:" + type(e).__name__)
            continue
        vals = set(float(v) for v in np.asarray(d_, dtype=float).ravel())
        if not vals <= {0.0, 1.0, -1.0, P, M_}:
            ctx.count("mi-range-tie:skipped-irrational-sqrt")
            continue
        if sc is not None and np.isfinite(sc) and sc != 0 and \
                Fraction(float(sc)) != 1 / (Fraction(float(rmax)) - Fraction(float(rmin))):
            ctx.count("mi-range-tie:skipped-inexact-reciprocal")
            continue
        mlean.append(rq)
        mimpl.append(f"exact {enc_xdata(d_)} {enc_x(rmin)} {enc_x(rmax)} " +
                     ("zerodiv" if sc is None else enc_x(sc)))
        ctx.case(("mi-range", dt, an.tobytes().hex()), True,
                 {"range of": "_cython_calculate_mutual_information", "data": kind, "dtype": dt,
                  "normalised": enc_xdata(d_), "range_min": enc_x(rmin), "range_max": enc_x(rmax),
                  "scaling": "zerodiv" if sc is None else enc_x(sc)} if len(mlean) <= 6 else None)
        ctx.count("mi-range-tie:" + kind + ":scaling=" + ("zerodiv" if sc is None else
                                                           "0" if sc == 0 else "finite"))
    # caller arrays whose shape DIFFERS from the object's own, on real objects: every public method
    # that forwards a caller-supplied array to a raw-pointer routine (the sizes handed to the C
    # routine must be those of the array, not of the object)
    for c in range(36 if quick else 160):
        objN = rng.choice([2, 3, 4, 6, 7])
        rel = ["fewer", "fewer", "more", "equal"][c % 4]
        k = {"fewer": rng.randrange(1, objN), "more": objN + rng.randrange(1, 4), "equal": objN}[rel]
        T = rng.choice([1, 2, 3, 5, 8, 10])            # (the object's own data have 8 samples)
        an = nprng.randint(-8, 9, size=(T, k)) / 4.0 * 2.0 ** rng.choice([0, 0, -30, 30])
        how = ["csm", "mi", "worker", "mi-dump", "csm", "mi"][(c // 4) % 6]
        nb = rng.choice([1, 2, 5, 32, 64]) if how == "worker" else 32
        cls = f"anomaly-has-{rel}-columns-than-object-nodes:{how}"
        add_api("mi_obj", mi_model_request(an, nb, objN), [variant(an, fdt())], [objN, how, nb], cls,
                (objN, T, k, how, nb, an.tobytes().hex()), True,
                {"entry": "MutualInfoClimateNetwork(<%d nodes>).%s(anomaly %dx%d)" % (
                    objN, {"csm": "calculate_similarity_measure", "mi": "mutual_information",
                           "mi-dump": "mutual_information", "worker":
                           "_cython_calculate_mutual_information"}[how], T, k)} if c < 8 else None)
        if c % 3 == 0:
            m, T2 = k, rng.choice([1, 2, 3, 5, 8])
            ms = rng.choice([(m, T2), (m, T2), (objN, T2), (m, 8), (T2, m)])
            mask = nprng.rand(*ms) < 0.7
            an2 = dyadic(nprng, (m, T2), -1.0, 1, hit_ends=False)
            add_api("spearman_obj", f"call spearman {ms[0]} {ms[1]} {m} {T2}",
                    [variant(mask, "bool"), variant(an2, fdt())], [objN],
                    f"anomaly-has-{rel}-rows-than-object-nodes:" + ("same-shape" if ms == (m, T2) else "mask-shape-differs"),
                    (objN, ms, m, T2))
        if c % 4 == 1:
            s1 = (rng.randrange(1, 5), rng.randrange(1, 6))
            s2 = s1 if rng.random() < 0.6 else (rng.randrange(1, 5), rng.randrange(1, 6))
            own = (rng.randrange(1, 5), rng.randrange(2, 7))
            d1, d2 = dyadic(nprng, s1), dyadic(nprng, s2)
            if rng.random() < 0.5:
                add_api("surr_obj", f"call pearson {s1[0]} {s1[1]} {s2[0]} {s2[1]}",
                        [variant(d1, fdt()), variant(d2, fdt())], [own[0], own[1], "pearson", 0],
                        "instance-data-differ:pearson", (own, s1, s2))
            else:
                nb = rng.choice([1, 2, 3, 32])
                add_api("surr_obj", f"call tmi {s1[0]} {s1[1]} {s2[0]} {s2[1]} {nb} {enc_data(d1)} "
                                    f"{enc_data(d2)}",
                        [variant(d1, fdt()), variant(d2, fdt())], [own[0], own[1], "tmi", nb],
                        "instance-data-differ:tmi", (own, s1, s2, nb, d1.tobytes().hex(),
                                                     d2.tobytes().hex()))
    # (N <= 1 is rejected by the ResNetwork / GeoGrid constructors: oracle stream only)
    for N in [2, 3, 5] + ([] if quick else [4, 7]):
        Rm = np.triu(nprng.randint(1, 5, size=(N, N)).astype(float), 1)
        Rm = Rm + Rm.T
        for i in list(range(N)) + [-1, N, N + 3, -N - 1]:
            cls = "node-index-in-range" if 0 <= i < N else "node-index-out-of-range"
            add_api("vcfb", f"call vcfb {N} {i} {N}", [A(Rm, "float64")], [i], cls, (N, i), N > 1,
                    {"entry": "ResNetwork.vertex_current_flow_betweenness", "N": N, "i": i})
        add_api("ecfb", f"call ecfb {N} {N}", [A(Rm, "float64")], [], "grid", (N,), N > 1)
    # histories on one ResNetwork: `net.adjacency = ...` with another number of nodes leaves
    # the held admittance / R matrices at their old size
    def sym(n, dens=0.7, w=False):
        M = np.triu((nprng.rand(n, n) < dens).astype(float), 1)
        M[0, 1:] = 1.0                                   # keep it connected
        if w:
            M *= nprng.randint(1, 5, size=(n, n))
        return M + M.T
    plan = [(3, 6, False, "v"), (3, 6, False, "e"), (5, 2, False, "v"), (5, 2, False, "e"),
            (4, 4, False, "v"), (2, 5, True, "e"), (2, 5, True, "v")]
    for h in range(12 if quick else 48):
        N0, N1 = rng.choice([2, 3, 4, 5, 7]), rng.choice([2, 3, 4, 6, 9, 12])
        refresh = rng.random() < 0.3
        mode = rng.choice(["v", "v", "e"])
        if h < len(plan):
            N0, N1, refresh, mode = plan[h]
        arrs = [A(sym(N0, w=True), "float64"), A(sym(N1), "int64")]
        if refresh:
            arrs.append(A(sym(N1, 1.0, w=True), "float64"))
        held = N1 if refresh else N0
        i = rng.randrange(N1)
        if N1 > N0 and rng.random() < 0.7:
            # a node that exists only after the enlargement: row i of the held (old-size)
            # matrices does not exist
            i = rng.randrange(N0, N1)
        cls = "history:adjacency-" + ("same-N" if N0 == N1 else "larger" if N1 > N0 else "smaller") \
            + (":refreshed" if refresh else "")
        add_api("cfb_hist", f"call vcfb {N1} {i} {held}" if mode == "v" else f"call ecfb {N1} {held}",
                arrs, [mode, i], cls, (N0, N1, refresh, mode, i), True,
                {"entry": "ResNetwork: adjacency setter, then current-flow betweenness",
                 "N_before": N0, "N_after": N1, "refreshed": refresh}, refresh=refresh,
                warm=[rng.randrange(N0)])

    # T3: adaptive neighbourhood kernel, exact outcome
    kreqs, kmodel, kvalid = [], [], []
    for c in range(120 if quick else 1200):
        n = rng.choice([0, 1, 2, 3, 3, 4, 4, 5, 6, 8])
        a = rng.randrange(0, n + 4)
        dist = nprng.rand(n, n)
        dist = dist + dist.T
        np.fill_diagonal(dist, 0.0)
        sn = dist.argsort(axis=1).astype(np.int32) if n else np.zeros((0, 0), dtype=np.int32)
        order = np.arange(n, dtype=np.int32)
        rec = np.zeros((n, n), dtype=np.int8)
        kind = rng.choice(["valid", "valid", "valid", "perm-order", "prefilled", "corrupt-sn",
                           "corrupt-order", "n_time-too-large", "n_time-smaller", "repeat-order",
                           "disconnected"])
        nt = n
        if kind == "perm-order":
            order = nprng.permutation(n).astype(np.int32)
        elif kind == "prefilled":
            rec = (nprng.rand(n, n) < 0.5).astype(np.int8)
        elif kind == "corrupt-sn" and n:
            sn[rng.randrange(n), rng.randrange(n)] = rng.choice([-1, n, n + 2])
        elif kind == "corrupt-order" and n:
            order[rng.randrange(n)] = rng.choice([-1, n, n + 5])
        elif kind == "n_time-too-large":
            nt = n + 1
        elif kind == "n_time-smaller" and n:
            nt = rng.randrange(0, n)
        elif kind == "repeat-order" and n:
            order = nprng.randint(0, n, size=n).astype(np.int32)
        elif kind == "disconnected" and n > 1:      # ties / identical states: degenerate sort
            dist = np.zeros((n, n)) if rng.random() < 0.5 else \
                np.kron(np.eye(2), np.ones(((n + 1) // 2, (n + 1) // 2)))[:n, :n]
            sn = dist.argsort(axis=1).astype(np.int32)
            rec = (nprng.rand(n, n) < 0.3).astype(np.int8)
        valid = (sn.shape[0] >= n and (n == 0 or (sn.shape[1] >= nt and
                 bool(((sn[:n, :nt] >= 0) & (sn[:n, :nt] < n)).all()))) and len(order) >= nt
                 and bool(((order[:nt] >= 0) & (order[:nt] < n)).all()))
        kvalid.append(valid)
        rid = f"k{c}"
        kreqs.append({"id": rid, "fn": "adaptive_kernel", "args": [nt, a],
                      "arrays": [A(sn, "int32"), A(order, "int32"), A(rec, "int8")]})
        kmodel.append(f"adaptive {nt} {a} {enc_imat(sn)} "
                      f"{','.join(map(str, order.tolist())) or '-'} {enc_imat(rec)}")
        ctx.case(("adaptive", nt, a, sn.tobytes().hex(), order.tobytes().hex(),
                  rec.tobytes().hex()), n > 1 and a > 0,
                 {"kernel": "_set_adaptive_neighborhood_size", "n_time": nt, "size": a,
                  "kind": kind} if n <= 3 else None)
        ctx.count(f"adaptive:{kind}")

    # oracle stream (no model): other dtypes, random floats, RQA / visibility entry points
    oreqs = oracle_stream(ctx, rng, nprng, quick)

    # T4: typed-buffer kernels at their own boundary (shapes at, above and below what the loops need)
    preqs, pmodel = pyx_kernel_requests(ctx, rng, quick)

    # T5: the nine wrappers of `_line_dist` at their own boundary (exact outcome)
    lreqs5, lmodel5 = line_dist_requests(ctx, rng, nprng, quick)

    # T6: `_nsi_betweenness` at its own boundary, and the public method with captured arguments
    nreqs, nmodel, nvalid, npub = nsi_requests(ctx, rng, nprng, quick)

    allreqs = areqs + kreqs + oreqs + preqs + lreqs5 + nreqs + npub
    nchunk = 4
    chunks = [allreqs[i::nchunk] for i in range(nchunk)]
    kcalls = []
    with ThreadPoolExecutor(nchunk) as ex:
        parts = list(ex.map(lambda ch: run_api_child(asan_src, ch, kcalls=kcalls) if ch else {},
                            chunks))
    ares = {}
    for p in parts:
        ares.update(p)

    # the sanitizer oracle over everything that was run
    for q in allreqs:
        r = ares[q["id"]]
        if r["reports"] or r["outcome"] == "crash":
            fn = q["fn"]
            cls = "-"
            if q["id"].startswith("a"):
                cls = ameta[int(q["id"][1:])][1]
            elif q["id"][0] in "oplnq":
                cls = q.get("cls", "-")
                if q["id"].startswith("p"):
                    cls = q["key"] + ":" + cls
            kind = "crash" if not r["reports"] else \
                ("ubsan" if all("runtime error" in x or x.startswith("#") for x in r["reports"])
                 else "asan")
            ctx.fail({"kind": "api", "fn": fn, "class": cls, "report": kind},
                     f"{fn} [{cls}]: sanitizer report / crash on a call the public API accepted: "
                     f"{(r['reports'] or ['crash rc=' + str(r.get('rc'))])[0][:160]}",
                     {"request": shrink_req(q), "outcome": r["outcome"], "reports": r["reports"][:6],
                      "how": "LD_PRELOAD=<libclang_rt.asan> PYTHONPATH=<asan build> "
                             "python harness/c20_aux/api_child.py <request.jsonl>"})
    ctx.extra["api_calls_under_asan"] = len(allreqs)
    for q in oreqs:
        ctx.count("oracle-outcome:" + ares[q["id"]]["outcome"].split(":")[0])
        if ares[q["id"]]["outcome"] == "timeout":
            ctx.count(f"oracle-timeout:{q['fn']}:{q.get('cls', '-')}")

    impl = [observed_verdict(ares[q["id"]]) for q in areqs]
    ctx.correspond("verdict (safe|raise|oob) of public calls on the ASan build == Lean wrapper model",
                   amodel, impl)
    for q, v in zip(areqs, impl):
        ctx.count(f"api-verdict:{v}")
    ctx.correspond("range_min / range_max / scaling of _test_mutual_information: the source's own "
                   "expressions evaluated by NumPy on IEEE data == NaN-propagating folds of the Lean "
                   "wrapper model (generated range terms)", rlean, rimpl)
    ctx.extra["range_ties"] = len(rlean)
    ctx.correspond("normalised array / range_min / range_max / scaling of "
                   "_cython_calculate_mutual_information: the source's own statements (with "
                   "Data.normalize_time_series_array) run by NumPy on IEEE data == the Lean worker "
                   "model miRangeX (generated statements)", mlean, mimpl)
    ctx.extra["mi_range_ties"] = len(mlean)
    kimpl = []
    for q, valid in zip(kreqs, kvalid):
        r = ares[q["id"]]
        o = r["outcome"]
        kimpl.append(("valid|" if valid else "any|") +
                     ("oob" if r["reports"] or o == "crash" else
                      (o[3:] if o.startswith("ok:") else o)))
        ctx.count("adaptive-tables:" + ("well-formed" if valid else "other"))

    ctx.correspond("_set_adaptive_neighborhood_size outcome == Lean while-kernel model",
                   kmodel, kimpl)

    # T4: the outcome predicted from the generated site lists (Lean driver) against the compiled kernel
    pred = common.driver("C20", pmodel) if pmodel else []
    pimpl = []
    for q, m in zip(preqs, pred):
        r = ares[q["id"]]
        o = r["outcome"]
        if r["reports"] or o == "crash":
            pimpl.append("oob")
        elif m == "raise":
            pimpl.append("raise" if o.startswith("raise:") else "ok")
        elif m == "ok":         # (ZeroDivisionError etc. are not index matters)
            pimpl.append("raise" if o == "raise:IndexError" else "ok")
        else:
            pimpl.append(m)
        ctx.count(f"kernel-boundary:{m}:{o.split(':')[-1] if o.startswith('raise') else 'returned'}")
    ctx.correspond("typed-buffer kernels: IndexError / normal return == prediction from the generated "
                   "site lists", pmodel, pimpl)

    limpl = []
    for q in lreqs5:
        r = ares[q["id"]]
        o = r["outcome"]
        limpl.append("oob" if r["reports"] or o == "crash" else
                     "raise" if o == "raise:IndexError" else (o[3:] if o.startswith("ok:") else o))
        ctx.count("line-dist-outcome:" + ("IndexError" if o == "raise:IndexError" else
                                          "histogram" if o.startswith("ok:") else o))
    ctx.correspond("_line_dist wrappers: IndexError / histogram == Lean subscript model (generated loop "
                   "skeleton and index functions)", lmodel5, limpl)

    # T6
    nimpl = []
    for q, ok in zip(nreqs, nvalid):
        r = ares[q["id"]]
        o = r["outcome"]
        nimpl.append(("valid|" if ok else "any|") +
                     ("oob" if r["reports"] or o == "crash" else
                      "raise" if o == "raise:IndexError" else o))
        ctx.count("nsi-kernel-outcome:" + ("IndexError" if o == "raise:IndexError" else o))
    ctx.correspond("_nsi_betweenness at its own boundary: contract (independent evaluation) and "
                   "IndexError | returns == Lean index model of the breadth-first sweep", nmodel, nimpl)
    cmodel, cimpl = [], []
    for q in npub:
        r = ares[q["id"]]
        o = r["outcome"]
        ctx.count("nsi-public-outcome:" + o.split(":")[0] +
                  (":" + o.split(":")[1] if o.startswith("raise:") else ""))
        if o.startswith("ok:") and o != "ok:-":
            for call in o[3:].split(";"):
                N_, k_, nbr_, wl_, sl_, t_ = call.split("|")
                cmodel.append(f"nsiidx {N_} {k_} {nbr_} {wl_} {sl_} {t_}")
                cimpl.append("valid|ok")
    ctx.correspond("what Network.nsi_betweenness hands to the kernel (captured, contents included) "
                   "satisfies the contract of nsiBetwIdx_ok, and the model runs through", cmodel, cimpl)
    # round 5e: the construction of those arguments, read off the source of the two methods by
    # c20_py.nsi_betw_terms and executed by the driver on the adjacency the Network was built from,
    # must reproduce every captured call exactly (and the adjacency is one the theorem
    # nsi_betweenness_public_call_safe speaks of: square, 0/1, symmetric)
    gmodel, gimpl = [], []
    for q in npub:
        o = ares[q["id"]]["outcome"]
        if not (o.startswith("ok:") and o != "ok:-"):
            continue
        M = q["adj5e"]
        sym = all(M[i][j] == M[j][i] and M[i][j] in (0, 1)
                  for i in range(len(M)) for j in range(len(M)))
        tgs = [q["args"][2], q["args"][4]]
        for call, tg in zip(o[3:].split(";"), tgs):
            gmodel.append("nsicsr " + ";".join(",".join(str(int(x)) for x in row) for row in M) + " " +
                          ("none" if tg is None else (",".join(str(int(x)) for x in tg) or "-")))
            gimpl.append(call + ("|adj-ok" if sym else "|adj-any") + "|valid")
            ctx.count("nsi-public-construction:" + ("default-targets" if tg is None else "targets-given"))
    ctx.correspond("CSR arguments constructed from the adjacency by the statements read off "
                   "Network.nsi_betweenness / _nsi_betweenness (generated) == the captured arguments, "
                   "exactly", gmodel, gimpl)
    ctx.extra["nsi_constructions_tied"] = len(gmodel)
    ctx.extra["nsi_kernel_calls_captured"] = len(cmodel)

    # kernel calls observed under the public API: do they satisfy the contracts the theorems assume?
    table = json.load(open(KTABLE)) if os.path.exists(KTABLE) else {}
    uncovered = []
    for (key, recs, out) in sorted(set(kcalls)):
        rec = json.loads(recs)
        rels = table.get(key, {}).get("contract", [])
        ok = True
        for rel in rels:
            try:
                ok &= bool(eval(rel, {"__builtins__": {}}, dict(rec)))
            except NameError:
                pass
        ctx.case(("kcall", key, recs), True)
        ctx.count(f"kernel-call:{key}:{'contract-holds' if ok else 'outside-contract'}:{out}")
        if not ok and out == "ok":
            uncovered.append(f"{key} {recs}")
    ctx.extra["kernel_calls_observed"] = len(set(kcalls))
    ctx.extra["kernel_calls_outside_contract_returning"] = uncovered[:20]
    ctx.extra["typed_buffer_census"] = {k: [v["n_closed"], v["n_checked"], v["n_pyobj"]]
                                        for k, v in table.items() if v["n_closed"] + v["n_checked"]}
    for v in kimpl:
        ctx.count("adaptive-outcome:" + ("raise" if "raise" in v else "matrix"))


KERNEL_FIX = {      # scalar choices that keep non-index errors (allocation, division) out of the way
    "core:_mpi_newman_betweenness": lambda a: a.update(end_i=a["start_i"] + a["end_i"]),
    "core:_mpi_nsi_newman_betweenness": lambda a: a.update(end_i=a["start_i"] + a["end_i"]),
}


def pyx_kernel_requests(ctx, rng, quick):
    """kernels all of whose subscripts are closed-form and that have no `while` loop"""
    if not os.path.exists(KTABLE):
        return [], []
    table = json.load(open(KTABLE))
    reqs, model = [], []
    pure = [k for k, v in sorted(table.items())
            if v["keyword"] == "def" and v["n_closed"] and not v["n_checked"] and not v["n_pyobj"]
            and not v["has_while"] and all(p[1] in ("buf", "int", "float") for p in v["params"])]
    ctx.extra["kernel_boundary_kernels"] = pure
    for key in pure:
        info = table[key]
        for _ in range(6 if quick else 40):
            sc = {p[0]: rng.choice([0, 1, 2, 3, 4]) for p in info["params"] if p[1] == "int"}
            if key in KERNEL_FIX:
                KERNEL_FIX[key](sc)
            mode = rng.choice(["fit", "fit", "big", "random", "one-short"])
            kv = dict(sc)
            kargs = []
            short = rng.randrange(0, 8)
            nax = 0
            for (pn, kind, ty, nd) in info["params"]:
                if kind == "int":
                    kargs.append(sc[pn])
                elif kind == "float":
                    kargs.append(rng.choice([0.0, 0.5, 1.0]))
                else:
                    shape = []
                    for ax in range(nd):
                        if mode == "random":
                            d = rng.randrange(0, 7)
                        else:
                            d = needed_extent(info, f"{pn}_{ax}", sc) if mode != "big" else 9
                            if mode == "one-short" and nax == short % max(1, sum(
                                    p[3] for p in info["params"] if p[1] == "buf")):
                                d = max(0, d - 1)
                        nax += 1
                        shape.append(d)
                        kv[f"{pn}_{ax}"] = d
                    kargs.append({"dtype": DTYPE_OF[ty], "shape": shape})
            rid = f"p{len(reqs)}"
            reqs.append({"id": rid, "fn": "pyx_kernel", "key": key, "kargs": kargs,
                         "seed": rng.randrange(10 ** 6), "cls": mode, "timeout": 60})
            model.append(f"psites {key} 10 " + ",".join(f"{k}={v}" for k, v in sorted(kv.items())))
            ctx.case(("pyx_kernel", key, json.dumps(kv, sort_keys=True)), True,
                     {"kernel": key, "mode": mode, "values": kv} if len(reqs) % 17 == 0 else None)
            ctx.count(f"kernel-boundary-shapes:{mode}")
    return reqs, model


LD_WRAPPERS = ["_vertline_dist", "_diagline_dist", "_white_vertline_dist", "_vertline_dist_sequential",
               "_diagline_dist_sequential", "_vertline_dist_missingvalues", "_diagline_dist_missingvalues",
               "_vertline_dist_sequential_missingvalues", "_diagline_dist_sequential_missingvalues"]


def nsi_csr(Aadj):
    """(k, flat_neighbors) as `Network._nsi_betweenness` builds them: out-degrees and the column
    indices of the non-zero entries, row by row"""
    Aadj = np.asarray(Aadj)
    return Aadj.sum(axis=1).astype(int).tolist(), np.nonzero(Aadj)[1].astype(int).tolist()


def nsi_contract(N, k, nbr, wlen, slen, targets):
    """independent evaluation of the contract of `nsiBetwIdx_ok` (Lean: `csrOK`)"""
    if len(k) < N or wlen < N or slen < N or any(t >= N for t in targets):
        return False
    off = [0] * N
    for i in range(1, N):
        off[i] = off[i - 1] + k[i - 1]
    if any(off[i] + k[i] > len(nbr) for i in range(N)) or any(x >= N for x in nbr):
        return False
    indeg = [0] * N
    for i in range(N):
        for t in range(k[i]):
            indeg[nbr[off[i] + t]] += 1
    return all(indeg[l] <= k[l] for l in range(N))


def nsi_requests(ctx, rng, nprng, quick):
    """T6: `_nsi_betweenness` at its own boundary — valid CSR adjacencies (connected, disconnected,
    with self-loops, empty, complete) and corrupted ones (directed, neighbour entries >= N, degrees
    overstating / understating a row, arrays one short, targets >= N)"""
    reqs, model, valid = [], [], []
    kinds = ["valid", "valid", "valid", "disconnected", "selfloops", "complete", "empty-graph",
             "directed", "nbr-too-large", "k-overstated", "k-understated", "k-short", "nbr-short",
             "target-too-large", "w-short", "src-short", "empty-targets", "repeated-targets", "hub"]
    for c in range(57 if quick else 570):
        kind = kinds[c % len(kinds)]
        N = rng.choice([1, 2, 3, 3, 4, 4, 5, 6, 8, 9])
        dens = rng.choice([0.2, 0.4, 0.7])
        M = np.triu((nprng.rand(N, N) < dens).astype(int), 1)
        M = M + M.T
        if kind == "disconnected" and N > 1:
            h = N // 2
            M[:h, h:] = 0
            M[h:, :h] = 0
        elif kind == "selfloops":
            M[np.diag_indices(N)] = (nprng.rand(N) < 0.5).astype(int)
        elif kind == "complete":
            M = 1 - np.eye(N, dtype=int)
        elif kind == "empty-graph":
            M[:] = 0
        elif kind == "hub":
            M[:] = 0
            M[0, 1:] = 1
            M[1:, 0] = 1
        elif kind == "directed":
            M = (nprng.rand(N, N) < dens).astype(int)
            np.fill_diagonal(M, 0)
        k, nbr = nsi_csr(M)
        wlen = slen = N
        targets = sorted(rng.sample(range(N), rng.randrange(1, N + 1)))
        if kind == "nbr-too-large" and nbr:
            nbr[rng.randrange(len(nbr))] = rng.choice([N, N + 3])
        elif kind == "k-overstated":
            k[rng.randrange(N)] += rng.choice([1, 2])
        elif kind == "k-understated":
            i = rng.randrange(N)
            k[i] = max(0, k[i] - 1)
        elif kind == "k-short":
            k = k[:N - rng.choice([1, 1, 2])] if N > 1 else []
        elif kind == "nbr-short" and nbr:
            nbr = nbr[:-1]
        elif kind == "target-too-large":
            targets = targets + [rng.choice([N, N + 2])]
        elif kind == "w-short":
            wlen = N - 1
        elif kind == "src-short":
            slen = N - 1
        elif kind == "empty-targets":
            targets = []
        elif kind == "repeated-targets":
            targets = targets + targets[:1] + targets
        ok = nsi_contract(N, k, nbr, wlen, slen, targets)
        valid.append(ok)
        enc = lambda l: ",".join(map(str, l)) or "-"  # noqa
        reqs.append({"id": f"n{c}", "fn": "nsi_kernel", "args": [N], "cls": kind,
                     "arrays": [A(np.ones(wlen), "float64"), A(np.array(k, dtype=int), "int16"),
                                A(np.array(nbr, dtype=int), "int32"), A(np.ones(slen), "int8"),
                                A(np.array(targets, dtype=int), "int32")]})
        model.append(f"nsiidx {N} {enc(k)} {enc(nbr)} {wlen} {slen} {enc(targets)}")
        ctx.case(("nsi", N, tuple(k), tuple(nbr), wlen, slen, tuple(targets)), N > 1,
                 {"kernel": "_nsi_betweenness", "N": N, "k": k, "flat_neighbors": nbr,
                  "targets": targets, "kind": kind} if c < 12 else None)
        ctx.count(f"nsi-kernel:{kind}:{'contract-holds' if ok else 'outside-contract'}")
    # the public method on real networks: what it hands to the kernel is captured and tested
    preqs = []
    for c in range(12 if quick else 80):
        N = rng.choice([2, 3, 4, 5, 7, 9])
        directed = c % 6 == 5
        M = (nprng.rand(N, N) < rng.choice([0.3, 0.6])).astype(int)
        if not directed:
            M = np.triu(M, 1)
            M = M + M.T
        if c % 4 == 1:
            M[np.diag_indices(N)] = (nprng.rand(N) < 0.5).astype(int)
        arrs = [A(M, "int64")]
        if c % 3 == 0:
            arrs.append(A(nprng.randint(1, 5, size=N).astype(float), "float64"))
        sub = lambda: sorted(rng.sample(range(N), rng.randrange(1, N + 1)))  # noqa
        args = [int(directed), sub() if c % 2 else None, sub() if c % 3 == 1 else None,
                int(c % 5 != 0), sub() if c % 4 == 2 else None]
        preqs.append({"id": f"q{c}", "fn": "nsi_public", "args": args, "arrays": arrs,
                      "cls": "directed" if directed else "undirected", "timeout": 60,
                      "adj5e": M.tolist()})
        ctx.case(("nsi-public", N, M.tobytes().hex(), str(args)), True,
                 {"entry": "Network.nsi_betweenness", "N": N, "directed": directed} if c < 4 else None)
        ctx.count("nsi-public:" + ("directed" if directed else "undirected"))
    return reqs, model, valid, preqs


def line_dist_requests(ctx, rng, nprng, quick):
    """buffers exactly as `recurrence_plot.py` passes them, larger, one short on one axis, and
    `n_time` beyond the buffers; contents: 0/1 (and 2) recurrence matrices with long lines, integer
    embeddings with a half-integer threshold (exact distances), missing-value masks"""
    reqs, model = [], []
    for c in range(90 if quick else 700):
        name = LD_WRAPPERS[c % 9] if c < 45 else rng.choice(LD_WRAPPERS)
        seq, mv = "sequential" in name, "missingvalues" in name
        n = rng.choice([0, 1, 2, 3, 3, 4, 5, 6, 8])
        mode = rng.choice(["fit", "fit", "big", "hist-short", "rows-short", "cols-short", "mask-short",
                           "n_time-larger"])
        nt = n + (rng.randrange(1, 3) if mode == "n_time-larger" else 0)
        h0 = max(0, n - 1) if mode == "hist-short" else n + (2 if mode == "big" else 0)
        a0 = max(0, n - 1) if mode == "rows-short" else n + (1 if mode == "big" else 0)
        m0 = max(0, n - 1) if mode == "mask-short" else n
        dim = rng.choice([1, 1, 2, 3, 0]) if seq else 0
        a1 = (dim if seq else n)
        if mode == "cols-short":
            a1 = max(0, a1 - 1)
        elif mode == "big":
            a1 += 1
        dens = rng.choice([0.0, 0.3, 0.7, 0.9, 1.0])
        if seq:
            arr2 = nprng.randint(0, 3, size=(a0, a1)).astype(float)
            eps2 = rng.choice([1, 3, 5, 0])
            a2 = A(arr2, "float64")
            rm, em, r0, r1, e0, e1 = "-", enc_imat(arr2.astype(int)) if a1 else "-", 1, 0, a0, a1
        else:
            arr2 = (nprng.rand(a0, a1) < dens).astype(np.int8)
            if rng.random() < 0.15 and arr2.size:
                arr2.flat[rng.randrange(arr2.size)] = 2        # neither black nor white
            if rng.random() < 0.3:
                arr2 = np.maximum(arr2, arr2.T) if a0 == a1 else arr2
            eps2 = 0
            a2 = A(arr2, "int8")
            rm, em, r0, r1, e0, e1 = enc_imat(arr2) if a1 else "-", "-", a0, a1, 1, 0
        mask = (nprng.rand(m0) < rng.choice([0.0, 0.2, 0.5])).astype(np.int8)
        arrays = [A(np.zeros(h0), "int32"), a2] + ([A(mask, "bool")] if mv else [])
        rid = f"l{len(reqs)}"
        reqs.append({"id": rid, "fn": "linedist", "arrays": arrays, "args": [name, nt, eps2 / 2.0, dim],
                     "cls": f"{name}:{mode}"})
        model.append(f"linedist {name} {nt} {dim} {r0} {r1} {m0 if mv else 0} {e0} {e1} {h0} {rm} {em} "
                     f"{eps2} {','.join(str(int(v)) for v in mask) if (mv and m0) else '-'}")
        ctx.case(("linedist", name, nt, dim, h0, arr2.shape, arr2.tobytes().hex(), mask.tobytes().hex(),
                  eps2), n > 1, {"kernel": name, "n_time": nt, "mode": mode, "hist": h0,
                                 "array": list(arr2.shape)} if c % 23 == 0 else None)
        ctx.count(f"line-dist:{'seq' if seq else 'matrix'}{'+mv' if mv else ''}:{mode}")
    return reqs, model


def needed_extent(info, sym, sc):
    """smallest extent the contract asks for (max over the `sym >= e` relations)"""
    need = 0
    for rel in info["contract"]:
        m = rel.split(">=")
        if len(m) == 2 and m[0].strip() == sym:
            try:
                need = max(need, int(eval(m[1], {"__builtins__": {}}, dict(sc))))
            except NameError:
                need = max(need, 5)
    return need


def replay(ctx, rp):
    """./check C20 --replay FILE: re-run the recorded request on the current tree"""
    r = rp.get("replay", {})
    if "trace_request" in r or ("request" in r and r["request"].get("id", "").startswith("t")):
        q = r.get("trace_request") or r["request"]
        res = run_trace_child(build_trace_libs(), [q])[q["id"]]
        print("trace child:", json.dumps(res)[:2000])
        bad = []
        if "crash" in res:
            bad = ["crash"]
        else:
            for tok in ([] if res["acc"] == "-" else res["acc"].split(",")):
                a, off, w, _ = tok.split(":")
                if int(off) < 0 or int(off) + int(w) > res["sizes"][int(a)]:
                    bad.append(tok)
        ctx.obligation("replay: every recorded access inside its array", "replay", not bad,
                       str(bad[:10]))
        if bad:
            ctx.fail(rp.get("signature", {}), rp.get("what", "replayed"), r)
    elif "request" in r:
        q = r["request"]
        res = run_api_child(common.ensure_build(asan=True), [q])[q["id"]]
        print("api child:", json.dumps(res)[:2000])
        bad = bool(res["reports"]) or res["outcome"] == "crash"
        ctx.obligation("replay: no sanitizer report / crash", "replay", not bad,
                       str(res["reports"][:4]))
        if bad:
            ctx.fail(rp.get("signature", {}), rp.get("what", "replayed"), r)
    else:
        ctx.obligation("replay: nothing to replay in this file", "replay", True)
    ctx.case(("replay", json.dumps(r)[:500]), True, {"replayed": rp.get("what")})
    ctx.case(("replay2",), True)


def shrink_req(q):
    q = dict(q)
    return q


def mi_model_request(an, nb=32, objN=None):
    """emulate mutual_info.py's preprocessing to obtain what reaches the kernel; with `objN` the
    call is made on an object with that many nodes (driver request `call miobj`)"""
    if objN is not None:
        return mi_model_request(an, nb).replace("call mi ", f"call miobj {objN} ", 1)
    a = np.array(an, dtype=float)
    T, N = a.shape
    if a.size == 0:
        return f"call mi {N} {T} {nb} 0 0 0 -"
    with np.errstate(all="ignore"):
        a -= a.mean(axis=0)
        a /= np.sqrt((a * a.conjugate()).mean(axis=0))
        a[np.isnan(a)] = 0
    a = a.T.copy()
    rmin, rmax = float(a.min()), float(a.max())
    if rmax - rmin == 0:
        return f"call mi {N} {T} {nb} 1 0 0 -"
    sc = np.float32(1. / (rmax - rmin))
    return (f"call mi {N} {T} {nb} 0 {enc_rat(sc)} {enc_rat(np.float32(rmin))} "
            f"{enc_data(a.astype(np.float32))}")


def oracle_stream(ctx, rng, nprng, quick):
    reqs = []

    def add(fn, arrays, args, cls, **kw):
        q = {"id": f"o{len(reqs)}", "fn": fn, "arrays": arrays, "args": args, "cls": cls}
        q.update(kw)
        reqs.append(q)
        ctx.case(("oracle", fn, cls, json.dumps(arrays)[:2000], str(args), str(kw)), True)
        ctx.count(f"oracle:{fn}:{cls}")

    dts = ["int64", "int32", "int8", "uint8", "bool", "float16", "complex128"]
    for _ in range(12 if quick else 80):
        m, T = rng.randrange(1, 6), rng.randrange(1, 6)
        dt = rng.choice(dts)
        x = nprng.randint(0, 5, size=(m, T))
        y = nprng.randint(0, 5, size=(m, T))
        fn = rng.choice(["pearson", "tmi", "spearman", "mi"])
        if fn == "spearman":
            add(fn, [A(x > 1, rng.choice(["bool", "int8", "int64", "float64"])), A(y, dt)], [],
                "dtype:" + dt)
        elif fn == "mi":
            add(fn, [A(y, dt)], [], "dtype:" + dt)
        else:
            add(fn, [A(x, dt), A(y, rng.choice(dts + ["float64"]))],
                [rng.choice([1, 2, 32])] if fn == "tmi" else [], "dtype:" + dt)
    def S(x, dt="float64"):      # json cannot carry inf / nan: send via strings
        return {"dtype": dt, "shape": list(x.shape),
                "data": [repr(float(v)) for v in x.ravel()], "via": "U32"}
    for _ in range(16 if quick else 120):
        m, T = rng.randrange(1, 7), rng.randrange(1, 9)
        x, y = nprng.randn(m, T), nprng.randn(m, T)
        sp = rng.choice(["plain", "inf", "huge", "inf-both", "all-inf", "overflow-range",
                         "subnormal-range", "tiny-range", "near-one", "nan-all"])
        if sp == "inf":
            x[rng.randrange(m), rng.randrange(T)] = rng.choice([np.inf, -np.inf])
        elif sp == "huge":
            x *= 1e300
        elif sp == "inf-both":
            x[rng.randrange(m), rng.randrange(T)] = np.inf
            y[rng.randrange(m), rng.randrange(T)] = -np.inf
            if rng.random() < 0.5:
                y[rng.randrange(m), rng.randrange(T)] = np.nan
        elif sp == "all-inf":
            x[:] = rng.choice([np.inf, -np.inf])
        elif sp == "overflow-range":           # max - min overflows to inf
            x.flat[0], y.flat[0] = 1.5e308, -1.5e308
        elif sp == "subnormal-range":          # 1/(max - min) overflows to inf
            x[:] = 0.0
            y[:] = 0.0
            y.flat[rng.randrange(y.size)] = 5e-324 * rng.choice([1, 3, 1000])
        elif sp == "tiny-range":
            x = 1.0 + np.round(x) * 2.0 ** -52
            y = 1.0 + np.round(y) * 2.0 ** -52
        elif sp == "near-one":                 # rescaled = 1 - 2^-53 in the last row
            x, y = nprng.rand(m, T), nprng.rand(m, T)
            x.flat[0], y.flat[0] = 0.0, 1.0
            x[m - 1, T - 1] = np.nextafter(1.0, 0.0)
            y[m - 1, 0 if T == 1 and m == 1 else T - 1] = np.nextafter(1.0, 0.0) \
                if (m, T) != (1, 1) else 1.0
        elif sp == "nan-all":
            x[:] = np.nan
        fn = rng.choice(["tmi", "tmi", "pearson", "mi"])
        if fn == "mi":
            add(fn, [S(x.T.copy(), rng.choice(["float64", "float32"]))], [], "float:" + sp)
        else:
            nb = [rng.choice([1, 2, 3, 7, 32, 33, 1000, 4096])] if fn == "tmi" else []
            if nb and nb[0] > 1000 and m > 2:
                nb = [1000]
            add(fn, [S(x, rng.choice(["float64", "float64", "float32"])),
                     S(y, rng.choice(["float64", "float32"]))], nb, "float:" + sp)
    # histories on one object that hand library-held arrays to the raw-pointer routines
    for _ in range(8 if quick else 60):
        N, T = rng.choice([1, 2, 3, 5]), rng.choice([2, 3, 4, 8, 16, 17])
        x = nprng.randn(N, T)
        if rng.random() < 0.2:
            x[rng.randrange(N)] = 1.0                     # a constant series: NaN after normalising
        steps = [[rng.choice(["sig", "dist", "direct", "self", "twins"]),
                  rng.choice(["white", "corr", "aaft", "raaft"]), rng.choice(["pearson", "mi"]),
                  rng.choice([1, 2, 10, 100])] for _ in range(rng.randrange(2, 6))]
        hcls = "history:surrogates"
        if rng.random() < 0.3:                            # IEEE specials in the data the object holds
            sp = rng.choice(["inf", "-inf", "nan", "inf-row"])
            if sp == "inf-row":
                x[rng.randrange(N)] = np.inf
            else:
                x[rng.randrange(N), rng.randrange(T)] = float(sp)
            hcls += ":held-" + sp
        add("surr_hist", [SX(x, rng.choice(["float64", "float32"]))], [], hcls,
            steps=steps, timeout=60)
    for _ in range(6 if quick else 50):
        n = rng.randrange(1, 9)
        ts = nprng.randint(0, 3, size=(n, rng.choice([1, 2]))).astype(float)
        steps = []
        for _k in range(rng.randrange(2, 6)):
            a = rng.randrange(0, n + 3)
            order = rng.choice([None, "perm", "short", "repeat", "bad"])
            if order == "perm":
                order = nprng.permutation(n).tolist()
            elif order == "short":
                order = list(range(max(n - 1, 0)))
            elif order == "repeat":
                order = nprng.randint(0, n, size=n).tolist()
            elif order == "bad":
                order = [rng.choice([-1, n, n + 3])] + list(range(1, n))
            steps.append([a, order])
        add("rp_hist", [A(ts, "float64")], [rng.randrange(0, n + 1)], "history:adaptive",
            steps=steps, metric=rng.choice(["supremum", "euclidean", "manhattan"]), timeout=60)
    for N in (0, 1):
        for fn, args in (("vcfb", [0]), ("vcfb", [1]), ("ecfb", [])):
            add(fn, [A(np.zeros((N, N)), "float64")], args, f"N={N}")
    # resistances of another size than the network, then the raw-pointer methods
    for _ in range(6 if quick else 40):
        N0 = rng.choice([2, 3, 4, 5])
        N1 = rng.choice([n for n in (1, 2, 3, 4, 6, 8) if n != N0])
        R0 = np.triu(nprng.randint(1, 5, size=(N0, N0)).astype(float), 1)
        R1 = np.triu(nprng.randint(1, 5, size=(N1, N1)).astype(float), 1)
        add("cfb_resize", [A(R0 + R0.T, "float64"), A(R1 + R1.T, "float64")],
            [rng.randrange(max(N0, N1))], "resistances-" + ("larger" if N1 > N0 else "smaller"))
    # RecurrencePlot with adaptive neighbourhood size (public path of the while kernel)
    for _ in range(14 if quick else 100):
        n = rng.randrange(1, 8)
        dim = rng.choice([1, 1, 2])
        ts = nprng.randint(0, 4, size=(n, dim)).astype(float) if rng.random() < 0.5 \
            else nprng.rand(n, dim)
        a = rng.randrange(0, n + 2)
        add("adaptive", [A(ts, "float64")], [a], f"adaptive:a{'<' if a < n else '>='}n",
            metric=rng.choice(["supremum", "euclidean", "manhattan"]))
    # VisibilityGraph (while loops over x[k], t[k], mv_indices[k])
    for _ in range(14 if quick else 100):
        n = rng.randrange(0, 9)
        x = nprng.randint(0, 4, size=n).astype(float)
        kw = {}
        cls = "plain"
        if rng.random() < 0.4:
            kw["horizontal"] = True
            cls = "horizontal"
        elif rng.random() < 0.5 and n:
            kw["missing_values"] = True
            x[nprng.rand(n) < 0.3] = np.nan
            cls = "missing"
        arrs = [A(x, "float64")]
        if rng.random() < 0.3:
            arrs.append(A(np.cumsum(nprng.randint(1, 3, size=n)).astype(float), "float64"))
        add("visibility", arrs, [], "visibility:" + cls, kw=kw)
    # node lists handed by the caller to the cross-network kernels (`A[nodes1[i], nodes2[j]]`): entries
    # outside [0, N), negative, repeated, empty — an IndexError is a pass, a sanitizer report is not
    for _ in range(8 if quick else 60):
        n = rng.choice([2, 3, 4, 6, 8])
        adj = np.triu((nprng.rand(n, n) < 0.5).astype(int), 1)
        adj = adj + adj.T
        bad = rng.choice(["negative", "N", "beyond", "repeated", "empty", "overlap"])
        n1, n2 = list(range(n // 2)), list(range(n // 2, n))
        if bad == "negative":
            n1[rng.randrange(len(n1))] = rng.choice([-1, -n, -n - 1])
        elif bad == "N":
            n2[rng.randrange(len(n2))] = n
        elif bad == "beyond":
            n2.append(n + rng.randrange(1, 40))
        elif bad == "repeated":
            n1 = n1 + n1
        elif bad == "empty":
            n1 = []
        else:
            n2 = list(range(n))
        add("sweep", [A(adj, "int8")], [], "interacting-node-lists:" + bad, kind="interacting",
            kw={"n1": n1, "n2": n2}, timeout=30)
    if not quick:
        sweep_stream(lambda *a, **k: add(*a, timeout=30, **k), rng, nprng)
    else:
        # a few RQA objects also in the quick tier, so that the calls of the `_line_dist` wrappers made
        # by recurrence_plot.py are recorded and tested against their contracts on every run
        for k in range(6):
            n = rng.choice([2, 3, 5, 8])
            ts = nprng.randint(0, 4, size=(n, rng.choice([1, 2]))).astype(float)
            kw = {"metric": "supremum", "threshold": 0.5}
            if k % 2:
                kw["sparse_rqa"] = True
            if k % 3 == 0:
                kw["missing_values"] = True
                ts[nprng.rand(*ts.shape) < 0.2] = np.nan
            add("sweep", [A(ts, "float64")], [1], "rp:quick", kind="rp", kw=kw, timeout=30)
    return reqs


def sweep_stream(add, rng, nprng):
    """thorough tier: the other public entry points that reach _ext kernels"""
    for _ in range(60):
        n, dim = rng.choice([1, 2, 3, 5, 8, 13]), rng.choice([1, 1, 2, 3])
        ts = nprng.randint(0, 4, size=(n, dim)).astype(float) if rng.random() < 0.5 \
            else nprng.rand(n, dim)
        kw = {"metric": rng.choice(["supremum", "euclidean", "manhattan"])}
        how = rng.choice(["threshold", "recurrence_rate", "local_recurrence_rate",
                          "adaptive_neighborhood_size", "threshold_std"])
        kw[how] = {"threshold": 0.5, "recurrence_rate": 0.3, "local_recurrence_rate": 0.3,
                   "adaptive_neighborhood_size": rng.randrange(0, n + 1),
                   "threshold_std": 0.5}[how]
        if rng.random() < 0.3 and dim == 1:
            kw.update(dim=rng.choice([1, 2, 3]), tau=rng.choice([1, 2]))
            ts = ts[:, 0]
        if rng.random() < 0.3:
            kw["sparse_rqa"] = True
        if rng.random() < 0.2:
            kw["missing_values"] = True
            ts = ts.copy()
            ts[nprng.rand(*ts.shape) < 0.2] = np.nan
        add("sweep", [A(ts, "float64")], [rng.randrange(0, n + 1)], "rp:" + how, kind="rp", kw=kw)
    for _ in range(30):
        nx, ny = rng.choice([1, 2, 3, 5, 8]), rng.choice([1, 2, 3, 5, 8])
        dim = rng.choice([1, 2])
        kw = {"metric": rng.choice(["supremum", "euclidean", "manhattan"])}
        if rng.random() < 0.5:
            kw["threshold"] = (0.5, 0.5) if rng.random() < 0.5 else 0.5
        else:
            kw["recurrence_rate"] = (0.3, 0.3) if rng.random() < 0.5 else 0.3
        add("sweep", [A(nprng.rand(nx, dim), "float64"), A(nprng.rand(ny, dim), "float64")], [],
            "crp", kind="crp", kw=kw)
    for _ in range(25):
        N, T = rng.choice([1, 2, 3, 5]), rng.choice([1, 2, 3, 5, 8, 16])
        add("sweep", [A(nprng.randn(N, T), "float64")], [], "surrogates", kind="surr",
            kw={"dim": rng.choice([1, 2, 3]), "delay": rng.choice([1, 2]), "thr": 0.5})
    for _ in range(25):
        n = rng.randrange(1, 12)
        kw = {}
        if rng.random() < 0.3:
            kw["horizontal"] = True
        add("sweep", [A(nprng.randint(0, 5, size=n).astype(float), "float64")], [],
            "visibility-measures", kind="vg", kw=kw)
    for _ in range(25):
        T, N = rng.choice([1, 2, 3, 5, 10]), rng.choice([1, 2, 3, 5])
        add("sweep", [A(nprng.randn(T, N), "float64")],
            [rng.choice([0, 1, 2, T - 1, T, T + 2]), rng.choice([1, 2, 6])],
            "coupling", kind="coupling")
    for _ in range(40):
        n = rng.choice([1, 2, 3, 4, 6, 9])
        directed = rng.random() < 0.4
        adj = (nprng.rand(n, n) < rng.choice([0.0, 0.3, 0.6, 1.0])).astype(int)
        if not directed:
            adj = np.triu(adj, 1)
            adj = adj + adj.T
        np.fill_diagonal(adj, 0)
        arrs = [A(adj, "int8")]
        if rng.random() < 0.5:
            arrs.append(A(nprng.randint(1, 4, size=n).astype(float), "float64"))
        add("sweep", arrs, [], "network:" + ("directed" if directed else "undirected"),
            kind="network", kw={"directed": directed})
    for _ in range(20):
        n = rng.choice([2, 3, 4, 6, 8])
        adj = np.triu((nprng.rand(n, n) < 0.5).astype(int), 1)
        adj = adj + adj.T
        add("sweep", [A(adj, "int8")], [], "interacting", kind="interacting")
    for _ in range(20):
        T, N = rng.choice([1, 2, 5, 10, 20]), rng.choice([1, 2, 3, 4])
        ev = (nprng.rand(T, N) < 0.3).astype(int)
        add("sweep", [A(ev, "int64")], [rng.choice([0, 1, 3, 50])], "events", kind="events")
    for _ in range(10):
        n = rng.choice([1, 2, 3, 5])
        add("sweep", [A(nprng.rand(n, rng.choice([1, 2, 3])) * 2 - 1, "float64")], [], "grid",
            kind="grid")
