"""C08 — RQA line statistics are exact run-length counts of the matrix.

proof  : lean/Pyunicorn/Properties/C08.lean (kernel = run-length specification,
         accounting identities, sequential = matrix with the on-the-fly predicate
         computed, bootstrap invariants for every draw stream) -- since round 3 about
         the kernel / wrappers / metric / bootstrap loop REGENERATED from numerics.pyx
         by translate/gen_C08.py (Generated/StructC08.lean)
tie    : translator (every run) + exact correspondence of the regenerated kernels
         with the compiled ones at the kernel boundary (matrix, sequential, missing
         values, fed random streams) and with RecurrencePlot at the object level
search : independent run-length counter on rows / diagonals of
         `recurrence_matrix()`, matrix mode vs sequential mode, scalar measures
"""
import itertools
import math
from fractions import Fraction

import numpy as np

from . import common


# --------------------------------------------------------------------------
# helpers
# --------------------------------------------------------------------------

def enc_mat(R):
    return ";".join(",".join(str(int(v)) for v in row) for row in R) or "-"


def enc_vec(v):
    return ",".join(str(int(x)) for x in v) or "-"


def runs(seq):
    return [len(list(g)) for v, g in itertools.groupby(seq) if v]


def oracle_hist(lines, n):
    h = [0] * n
    for l in lines:
        for r in runs(l):
            h[r - 1] += 1
    return h


def oracle_lines_mv(lines_cells, n):
    """lines of (line, miss) cells; a run is counted iff it contains no miss
    cell, is not directly followed by one and does not lie between a miss cell
    and the next white cell."""
    h = [0] * n
    for cells in lines_cells:
        k = 0
        poisoned = False
        for line, miss in cells:
            if miss:
                poisoned, k = True, 0
                continue
            if poisoned:
                if not line:
                    poisoned = False
                continue
            if line:
                k += 1
            elif k:
                h[k - 1] += 1
                k = 0
        if k and not poisoned:
            h[k - 1] += 1
    return h


def rows(R, black=1):
    return [[int(v) == black for v in row] for row in R]


def lower_diags(R):
    n = len(R)
    return [[bool(R[d + j][j]) for j in range(n - d)] for d in range(1, n)]


def kuratowski(R):
    """time series (N, N) whose supremum-metric recurrence matrix at threshold
    1.5 is exactly the symmetric unit-diagonal 0/1 matrix R."""
    n = len(R)
    d = np.where(np.array(R) == 1, 1.0, 2.0)
    np.fill_diagonal(d, 0.0)
    return d.reshape(n, n)


def sym_matrices(n):
    pairs = [(i, j) for i in range(n) for j in range(i)]
    for bits in itertools.product([0, 1], repeat=len(pairs)):
        R = np.eye(n, dtype=np.int8)
        for (i, j), b in zip(pairs, bits):
            R[i, j] = R[j, i] = b
        yield R


# --------------------------------------------------------------------------

def run(ctx):
    from pyunicorn.timeseries._ext import numerics as K
    from pyunicorn.timeseries import RecurrencePlot
    rng = ctx.rng
    nprng = np.random.RandomState(rng.randrange(2 ** 31))
    quick = ctx.tier == "quick"
    ctx.rule = ("kernel level: all symmetric unit-diagonal 0/1 matrices up to "
                f"{'4x4' if quick else '5x5'} + random (also asymmetric) 0/1 matrices, all/ random "
                "missing masks; object level: Kuratowski-embedded series realising those matrices, "
                "sparse_rqa on/off; round 3: the four sequential kernels on dyadic embeddings (NaN "
                "coordinates, thresholds equal to a distance, 2^+-20..300 rescalings, C / Fortran / "
                "strided buffers), NaN series with missing_values on in both modes, embedding, both float "
                "widths, N = 1, 2, all-black / all-white, l_min != v_min, minimum lengths up to N + 1, "
                "resampled_dist given, bootstrap on fed and free random streams; "
                "distinct = distinct (kernel, n, matrix, mask); "
                "non-trivial = matrix has both colours off the diagonal")
    ctx.proofs()

    # ---------------- kernel-level correspondence --------------------------
    mats = []
    for n in range(1, 5 if quick else 6):
        mats.extend(sym_matrices(n))
    nrand = 300 if quick else 3000
    for _ in range(nrand):
        n = rng.choice([2, 3, 5, 8, 13, 21, 30] if quick else
                       [2, 3, 5, 8, 13, 21, 30, 45, 60])
        p = rng.choice([0.1, 0.3, 0.5, 0.7, 0.9])
        R = (nprng.rand(n, n) < p).astype(np.int8)
        if rng.random() < 0.6:
            R = np.triu(R) | np.triu(R).T
            np.fill_diagonal(R, 1)
        mats.append(R)
    mats.append(np.ones((7, 7), dtype=np.int8))
    mats.append(np.zeros((7, 7), dtype=np.int8))
    mats.append(np.zeros((0, 0), dtype=np.int8))

    reqs, impl, meta = [], [], []

    def kernel_call(fn, n, R, M=None):
        hist = np.zeros(n, dtype=np.int32)
        Rc = np.ascontiguousarray(R, dtype=np.int8).reshape(n, n) if n else \
            np.zeros((0, 0), dtype=np.int8)
        try:
            if M is None:
                fn(n, hist, Rc)
            else:
                fn(n, hist, Rc, np.ascontiguousarray(M, dtype=bool))
        except Exception as e:  # noqa
            return "raise:" + type(e).__name__
        return enc_vec(hist)

    for R in mats:
        n = R.shape[0]
        nontriv = n >= 2 and 0 < (R.sum() - np.trace(R)) < n * n - n
        for name, fn in (("vertline", K._vertline_dist),
                         ("whitevertline", K._white_vertline_dist),
                         ("diagline", K._diagline_dist)):
            reqs.append(f"{name} {n} {enc_mat(R)}")
            impl.append(kernel_call(fn, n, R))
            meta.append((name, n, R, None))
            ctx.case((name, n, R.tobytes().hex()), nontriv,
                     {"kernel": name, "n": n, "R": enc_mat(R)} if n <= 4 else None)
            ctx.count(f"kernel:{name}")
            ctx.count(f"n={n}" if n <= 5 else "n>5")
        # missing-value masks
        masks = []
        if 1 <= n <= 4:
            masks = list(itertools.product([0, 1], repeat=n))
            if quick and n == 4:
                masks = rng.sample(masks, 6)
        elif n > 4:
            masks = [tuple(int(nprng.rand() < 0.2) for _ in range(n))]
        for M in masks:
            for name, fn in (("vertline_mv", K._vertline_dist_missingvalues),
                             ("diagline_mv", K._diagline_dist_missingvalues)):
                reqs.append(f"{name} {n} {enc_mat(R)} {enc_vec(M)}")
                impl.append(kernel_call(fn, n, R, M))
                meta.append((name, n, R, M))
                ctx.case((name, n, R.tobytes().hex(), M), nontriv and any(M))
                ctx.count(f"kernel:{name}")
    bad, model = ctx.correspond("Lean LineDist model == compiled _line_dist wrappers", reqs, impl)
    ctx.extra["kernel_calls_compared"] = len(reqs)

    # ---------------- oracle on the kernels (independent run-length count) ---
    for i, (name, n, R, M) in enumerate(meta):
        if name == "vertline":
            exp = oracle_hist(rows(R, 1), n)
        elif name == "whitevertline":
            exp = oracle_hist(rows(R, 0), n)
        elif name == "diagline":
            exp = oracle_hist(lower_diags(R), n)
        elif name == "vertline_mv":
            exp = oracle_lines_mv([[(bool(R[a][b]), bool(M[a] or M[b])) for b in range(n)]
                                   for a in range(n)], n)
        else:
            exp = oracle_lines_mv([[(bool(R[d + j][j]), bool(M[d + j] or M[j]))
                                    for j in range(n - d)] for d in range(n - 1, 0, -1)], n)
        if impl[i] != enc_vec(exp):
            ctx.fail({"kind": "kernel", "kernel": name},
                     f"{name} kernel differs from direct run-length count",
                     {"kernel": name, "n": n, "R": enc_mat(R), "M": M,
                      "expected": exp, "observed": impl[i]})

    # ---------------- object level ------------------------------------------
    objs = []
    for n in range(2, 5 if quick else 6):
        ms = list(sym_matrices(n))
        if quick and n == 4:
            ms = rng.sample(ms, 24)
        if not quick and n == 5:
            ms = rng.sample(ms, 300)
        objs.extend(ms)
    for _ in range(20 if quick else 200):
        n = rng.randrange(6, 25 if quick else 60)
        R = (nprng.rand(n, n) < rng.choice([0.2, 0.5, 0.8])).astype(np.int8)
        R = np.triu(R) | np.triu(R).T
        np.fill_diagonal(R, 1)
        objs.append(R)

    oreqs, oimpl, ometa = [], [], []
    for R in objs:
        n = R.shape[0]
        ts = kuratowski(R)
        for sparse in (False, True):
            try:
                rp = RecurrencePlot(ts, metric="supremum", threshold=1.5,
                                    sparse_rqa=sparse, silence_level=3)
                if not sparse:
                    Rm = rp.recurrence_matrix()
                    if not np.array_equal(Rm, R):
                        # C07's business; the crafted series must realise R
                        ctx.fail({"kind": "craft"}, "crafted series does not realise R",
                                 {"R": enc_mat(R), "got": enc_mat(Rm)})
                        continue
                d = rp.diagline_dist()
                v = rp.vertline_dist()
                w = rp.white_vertline_dist() if not sparse else None
            except NotImplementedError:
                continue
            ctx.count(f"object:sparse={sparse}")
            ctx.case(("obj", sparse, R.tobytes().hex()), True,
                     {"object": "RecurrencePlot", "sparse_rqa": sparse, "R": enc_mat(R)}
                     if n <= 4 else None)
            expd = [2 * x for x in oracle_hist(lower_diags(R), n)]
            expv = oracle_hist(rows(R, 1), n)
            expw = oracle_hist(rows(R, 0), n)
            for nm, got, exp in (("diagline_dist", d, expd), ("vertline_dist", v, expv),
                                 ("white_vertline_dist", w, expw)):
                if got is None:
                    continue
                if list(map(int, got)) != exp:
                    ctx.fail({"kind": "object", "method": nm, "sparse_rqa": sparse},
                             f"{nm}(sparse_rqa={sparse}) differs from run-length count of R",
                             {"time_series": ts.tolist(), "threshold": 1.5, "R": enc_mat(R),
                              "expected": exp, "observed": list(map(int, got))})
            if not sparse:
                # accounting identities on the implementation's own output
                ar = np.arange(1, n + 1)
                if int(ar @ v) != int(R.sum()) or int(ar @ w) != int(n * n - R.sum()) \
                        or int(ar @ d) != int(R.sum() - np.trace(R)):
                    ctx.fail({"kind": "object", "method": "accounting"},
                             "histograms do not account for every point exactly once",
                             {"time_series": ts.tolist(), "R": enc_mat(R)})
                # scalar measures as functions of the histograms
                for lmin in (1, 2, 3):
                    check_scalars(ctx, rp, n, expd, expv, expw, lmin, ts)

    sequential_kernels(ctx, K, rng, nprng, quick)
    layouts(ctx, K, rng, nprng, quick)
    objects_round3(ctx, RecurrencePlot, rng, nprng, quick)
    bootstrap(ctx, K, RecurrencePlot, rng, nprng, quick)
    rounding(ctx, rng, quick)
    doubles(ctx, K, RecurrencePlot, rng, nprng, quick)
    criteria_and_subclasses(ctx, rng, nprng, quick)
    scalar_correspondence(ctx)

    # ---------------- sequential vs matrix on generic float data ----------
    # (implementation-only stream: thresholds that are not float32-exact)
    nseq = 150 if quick else 1500
    for c in range(nseq):
        n = rng.randrange(2, 12)
        dim = rng.choice([1, 1, 2, 3])
        kind = rng.choice(["tenths", "float"])
        if kind == "tenths":
            ts = np.array([[rng.randrange(0, 8) / 10 for _ in range(dim)] for _ in range(n)])
            thr = rng.choice([0.1, 0.2, 0.3, 0.7, 0.35])
        else:
            ts = nprng.rand(n, dim)
            thr = float(nprng.rand())
        res = {}
        for sparse in (False, True):
            rp = RecurrencePlot(ts, metric="supremum", threshold=thr,
                                sparse_rqa=sparse, silence_level=3)
            res[sparse] = (list(map(int, rp.diagline_dist())),
                           list(map(int, rp.vertline_dist())))
        ctx.case(("seq", ts.tobytes().hex(), thr), True)
        ctx.count("object:sequential-vs-matrix:" + kind)
        if res[False] != res[True]:
            ctx.fail({"kind": "object", "method": "sequential_vs_matrix"},
                     "sparse_rqa=True histograms differ from matrix mode",
                     {"time_series": ts.tolist(), "threshold": thr,
                      "matrix_mode": res[False], "sequential_mode": res[True]})


SCAL = []   # (request, {measure: implementation value}) for the model correspondence


# --------------------------------------------------------------------------
# round 3
# --------------------------------------------------------------------------

def frac(x):
    return Fraction(float(x))


def enc_q(q):
    q = Fraction(q)
    return str(q.numerator) if q.denominator == 1 else f"{q.numerator}/{q.denominator}"


def enc_vmat(E):
    return ";".join(",".join("nan" if x != x else enc_q(frac(x)) for x in row) for row in E) or "-"


def sup_matrix(E, eps):
    """independent of the model: exact supremum distances (NaN coordinates are skipped, as
    `tmp_diff > diff` is false on NaN), strict comparison with the threshold"""
    n = len(E)
    R = [[0] * n for _ in range(n)]
    fe = Fraction(float(eps))
    for a in range(n):
        for b in range(n):
            d = Fraction(0)
            for x, y in zip(E[a], E[b]):
                if x != x or y != y:
                    continue
                t = abs(frac(x) - frac(y))
                if t > d:
                    d = t
            R[a][b] = int(d < fe)
    return R


def mv_cells_rows(R, M):
    n = len(R)
    return [[(bool(R[a][b]), bool(M[a] or M[b])) for b in range(n)] for a in range(n)]


def mv_cells_diags(R, M):
    n = len(R)
    return [[(bool(R[d + j][j]), bool(M[d + j] or M[j])) for j in range(n - d)]
            for d in range(n - 1, 0, -1)]


def dyadic_embedding(rng, n, dim, with_nan):
    den = rng.choice([1, 2, 4, 8])
    hi = rng.choice([2, 4, 9])
    E = np.array([[rng.randrange(0, hi * den) / den for _ in range(dim)] for _ in range(n)],
                 dtype=np.float64).reshape(n, dim)
    if with_nan:
        for a in range(n):
            if rng.random() < 0.25:
                E[a, rng.randrange(dim)] = np.nan
    return E, den


def sequential_kernels(ctx, K, rng, nprng, quick):
    """all four `_*_sequential*` kernels at the kernel boundary on float32-exact (dyadic) data,
    incl. thresholds equal to a distance, NaN coordinates, exact power-of-two rescalings:
    (a) against the kernels regenerated from the source (Lean driver), (b) against an exact
    Fraction recurrence matrix + run-length count (independent of the model)."""
    reqs, impl, metas = [], [], []
    todo = []
    for n in (0, 1, 2):
        for dim in (1, 2):
            todo.append((n, dim))
    for _ in range(160 if quick else 1500):
        todo.append((rng.choice([2, 3, 3, 4, 5, 6, 8, 11, 17] + ([] if quick else [30, 45])),
                     rng.choice([1, 1, 2, 3])))
    for n, dim in todo:
        for with_nan in (False, True):
            E, den = dyadic_embedding(rng, n, dim, with_nan)
            eps = rng.choice([0, 1, 2, 3, 5]) / den if rng.random() < 0.8 else \
                -rng.choice([0, 1]) / den
            sc = rng.choice([0, 0, 0, 20, -20, 100, -100, 300, -300])
            if sc:
                E = E * 2.0 ** sc
                eps = eps * 2.0 ** sc
            M = np.isnan(E).sum(axis=1) != 0 if n else np.zeros(0, dtype=bool)
            if rng.random() < 0.3 and n:
                M = M | (nprng.rand(n) < 0.2)     # the kernel takes any mask
            kinds = [("vertline_seq", K._vertline_dist_sequential, False),
                     ("diagline_seq", K._diagline_dist_sequential, False),
                     ("vertline_seq_mv", K._vertline_dist_sequential_missingvalues, True),
                     ("diagline_seq_mv", K._diagline_dist_sequential_missingvalues, True)]
            Rex = sup_matrix(E.tolist(), eps)
            for name, fn, mv in kinds:
                hist = np.zeros(n, dtype=np.int32)
                Ec = np.ascontiguousarray(E).reshape(n, dim)
                lay = rng.choice(["C", "F", "strided"])
                if lay == "F":
                    Ec = np.asfortranarray(Ec)
                elif lay == "strided" and n:
                    big = np.full((2 * n, 2 * dim), 7.25)
                    big[::2, ::2] = Ec
                    Ec = big[::2, ::2]
                try:
                    if mv:
                        fn(n, hist, M.astype(bool), Ec, float(eps), dim)
                    else:
                        fn(n, hist, Ec, float(eps), dim)
                    got = enc_vec(hist)
                except Exception as e:  # noqa
                    got = "raise:" + type(e).__name__
                req = f"{name} {n} {dim} {enc_vmat(E.tolist())} {enc_q(frac(eps))}"
                if mv:
                    req += " " + enc_vec(M)
                reqs.append(req)
                impl.append(got)
                ctx.count(f"kernel:{name}")
                ctx.count(f"seq:layout={lay}")
                if sc:
                    ctx.count("seq:rescaled=2^%d" % sc)
                ctx.case((name, n, dim, E.tobytes().hex(), float(eps), M.tobytes().hex()),
                         n >= 2, {"kernel": name, "n": n, "E": E.tolist(), "eps": float(eps)}
                         if n <= 3 else None)
                if mv:
                    cells = mv_cells_rows(Rex, M) if name.startswith("vert") else \
                        mv_cells_diags(Rex, M)
                    exp = oracle_lines_mv(cells, n)
                else:
                    exp = oracle_hist(rows(Rex, 1) if name.startswith("vert") else
                                      lower_diags(Rex), n)
                if got != enc_vec(exp):
                    ctx.fail({"kind": "kernel", "kernel": name},
                             f"{name} kernel differs from the run-length count of the exactly "
                             "thresholded supremum distances",
                             {"kernel": name, "n": n, "dim": dim, "E": E.tolist(),
                              "eps": float(eps), "M": M.tolist(), "expected": exp, "observed": got})
    ctx.correspond("kernels regenerated from numerics.pyx (StructC08) == compiled sequential "
                   "kernels", reqs, impl)


def layouts(ctx, K, rng, nprng, quick):
    """matrix kernels on Fortran-ordered / strided recurrence matrices and masks (the typed
    buffers accept any strides): same histogram as on the C-contiguous copy"""
    for _ in range(60 if quick else 400):
        n = rng.randrange(1, 14)
        R = (nprng.rand(n, n) < rng.choice([0.3, 0.6])).astype(np.int8)
        M = (nprng.rand(n) < 0.25)
        big = np.ones((2 * n, 3 * n), dtype=np.int8)
        big[::2, ::3] = R
        bigM = np.ones(2 * n, dtype=bool)
        bigM[::2] = M
        variants = {"F": (np.asfortranarray(R), M), "strided": (big[::2, ::3], bigM[::2])}
        for nm, fn, mv in (("vertline", K._vertline_dist, False), ("diagline", K._diagline_dist, False),
                           ("whitevertline", K._white_vertline_dist, False),
                           ("vertline_mv", K._vertline_dist_missingvalues, True),
                           ("diagline_mv", K._diagline_dist_missingvalues, True)):
            ref = np.zeros(n, dtype=np.int32)
            if mv:
                fn(n, ref, np.ascontiguousarray(R), np.ascontiguousarray(M))
            else:
                fn(n, ref, np.ascontiguousarray(R))
            for lay, (Rv, Mv) in variants.items():
                h = np.zeros(n, dtype=np.int32)
                try:
                    if mv:
                        fn(n, h, Rv, Mv)
                    else:
                        fn(n, h, Rv)
                except Exception as e:  # noqa
                    ctx.fail({"kind": "kernel-layout", "kernel": nm, "error": type(e).__name__},
                             f"{nm} raised {type(e).__name__} on a {lay} array",
                             {"kernel": nm, "layout": lay, "R": enc_mat(R)})
                    continue
                ctx.count(f"layout:{lay}")
                ctx.case(("layout", nm, lay, R.tobytes().hex(), M.tobytes().hex()), n >= 2)
                if not np.array_equal(h, ref):
                    ctx.fail({"kind": "kernel-layout", "kernel": nm},
                             f"{nm} on a {lay} array differs from the contiguous copy",
                             {"kernel": nm, "layout": lay, "R": enc_mat(R), "M": M.tolist(),
                              "contiguous": ref.tolist(), "observed": h.tolist()})


def objects_round3(ctx, RecurrencePlot, rng, nprng, quick):
    """object level beyond round 2: missing values (NaN samples) in both storage modes incl. the
    white lines, embedding (dim, tau), both float widths, N = 1, 2, all-black / all-white,
    l_min != v_min, w_min, l_min up to N + 1, recurrence_rate / recurrence_probability /
    rqa_summary, scalar methods with `resampled_dist` given."""
    eps_ = 1e-8
    for c in range(70 if quick else 600):
        kind = rng.choice(["nan", "nan", "plain", "embed", "tiny", "black", "white"])
        if kind == "tiny":
            n = rng.choice([1, 2])
        else:
            n = rng.randrange(3, 16 if quick else 40)
        den = rng.choice([2, 4, 8])
        dim = rng.choice([1, 1, 2])
        if kind == "black":
            ts = np.full((n, dim), 0.5)
        elif kind == "white":
            ts = np.arange(n * dim, dtype=float).reshape(n, dim) * 4
        else:
            ts = np.array([[rng.randrange(0, 3 * den) / den for _ in range(dim)] for _ in range(n)])
        thr = rng.choice([1, 2, 3]) / den
        mv = kind == "nan"
        if kind == "nan":
            for a in range(n):
                if rng.random() < 0.2:
                    ts[a, rng.randrange(dim)] = np.nan
            if rng.random() < 0.2:
                ts[n - 1, 0] = np.nan
            if rng.random() < 0.2:
                ts[0, 0] = np.nan
        kw = {}
        if kind == "embed" and n >= 6:
            ts = ts[:, :1]
            kw = {"dim": rng.choice([2, 3]), "tau": rng.choice([1, 2])}
        dt = rng.choice([np.float32, np.float64])
        arr = np.asfortranarray(ts.astype(dt)) if rng.random() < 0.3 else ts.astype(dt)
        res = {}
        for sparse in (False, True):
            try:
                rp = RecurrencePlot(arr.copy(), metric="supremum", threshold=thr, missing_values=mv,
                                    sparse_rqa=sparse, silence_level=3, **kw)
                res[sparse] = (rp, list(map(int, rp.diagline_dist())),
                               list(map(int, rp.vertline_dist())))
            except Exception as e:  # noqa
                ctx.fail({"kind": "object", "method": "construct/line_dist", "sparse_rqa": sparse,
                          "error": type(e).__name__},
                         f"RecurrencePlot line histograms raised {type(e).__name__}: {e}",
                         {"time_series": ts.tolist(), "threshold": thr, "missing_values": mv,
                          "kwargs": kw})
        if len(res) < 2:
            continue
        rp, d, v = res[False]
        N = rp.N
        replay = {"time_series": ts.tolist(), "dtype": np.dtype(dt).name, "threshold": thr,
                  "missing_values": mv, "kwargs": kw}
        ctx.count(f"object3:{kind}")
        ctx.case(("obj3", kind, ts.tobytes().hex(), thr, str(kw), np.dtype(dt).name), N >= 2)
        R = np.array(rp.recurrence_matrix())
        Mk = np.isnan(np.asarray(rp.embedding)).sum(axis=1) != 0 if mv else np.zeros(N, dtype=bool)
        if mv:
            expv = oracle_lines_mv(mv_cells_rows(R, Mk), N)
            expd = [2 * x for x in oracle_lines_mv(mv_cells_diags(R, Mk), N)]
        else:
            expv = oracle_hist(rows(R, 1), N)
            expd = [2 * x for x in oracle_hist(lower_diags(R), N)]
        expw = oracle_hist(rows(R, 0), N)
        w = list(map(int, rp.white_vertline_dist()))
        for sparse in (False, True):
            _, dd, vv = res[sparse]
            for nm, got, exp in (("diagline_dist", dd, expd), ("vertline_dist", vv, expv)):
                if got != exp:
                    ctx.fail({"kind": "object", "method": nm, "sparse_rqa": sparse,
                              "missing_values": mv},
                             f"{nm}(sparse_rqa={sparse}, missing_values={mv}) differs from the "
                             "run-length count of the recurrence matrix",
                             dict(replay, expected=exp, observed=got))
        if w != expw:
            ctx.fail({"kind": "object", "method": "white_vertline_dist", "missing_values": mv},
                     "white_vertline_dist differs from the run-length count of the non-recurrence "
                     "points", dict(replay, expected=expw, observed=w))
        ar = np.arange(1, N + 1)
        if int(ar @ np.array(w)) != int(N * N - R.sum()):
            ctx.fail({"kind": "object", "method": "accounting-white"},
                     "white lines do not account for every non-recurrence point", replay)
        if not mv and (int(ar @ np.array(v)) != int(R.sum())
                       or int(ar @ np.array(d)) != int(R.sum() - np.trace(R))):
            ctx.fail({"kind": "object", "method": "accounting"},
                     "histograms do not account for every recurrence point exactly once", replay)
        # recurrence rate / probability / summary, both modes
        rr_exp = R.sum() / N ** 2
        for sparse in (False, True):
            rps = res[sparse][0]
            try:
                rr = float(rps.recurrence_rate())
            except Exception as e:  # noqa
                ctx.fail({"kind": "object", "method": "recurrence_rate", "sparse_rqa": sparse,
                          "error": type(e).__name__}, f"recurrence_rate raised {e}", replay)
                continue
            if abs(rr - rr_exp) > 1e-12:
                ctx.fail({"kind": "object", "method": "recurrence_rate", "sparse_rqa": sparse,
                          "missing_values": mv, "series_has_nan": bool(Mk.any())},
                         f"recurrence_rate(sparse_rqa={sparse}, missing_values={mv}) = {rr}, "
                         f"the recurrence matrix has rate {rr_exp}",
                         dict(replay, expected=float(rr_exp), observed=rr))
            lm, vm = rng.choice([(1, 3), (3, 1), (2, 4), (N + 1, 2), (2, N)])
            lm, vm = max(1, lm), max(1, vm)
            try:
                sm = rps.rqa_summary(lm, vm)
                parts = {"RR": rps.recurrence_rate(), "DET": rps.determinism(lm),
                         "L": rps.average_diaglength(lm), "LAM": rps.laminarity(vm)}
            except Exception as e:  # noqa
                ctx.fail({"kind": "object", "method": "rqa_summary", "sparse_rqa": sparse,
                          "error": type(e).__name__},
                         f"rqa_summary({lm}, {vm}) raised {type(e).__name__}: {e}",
                         dict(replay, l_min=lm, v_min=vm))
                continue

            def psum(h, m):
                return sum((i + 1) * h[i] for i in range(m - 1, len(h)))

            def pcnt(h, m):
                return sum(h[i] for i in range(m - 1, len(h)))
            form = {"RR": parts["RR"], "DET": psum(expd, lm) / (psum(expd, 1) + eps_),
                    "L": psum(expd, lm) / (pcnt(expd, lm) + eps_),
                    "LAM": psum(expv, vm) / (psum(expv, 1) + eps_)}
            ctx.count("object3:rqa_summary(l_min!=v_min)")
            for k in ("RR", "DET", "L", "LAM"):
                if not (abs(float(sm[k]) - float(parts[k])) <= 1e-12 and
                        abs(float(sm[k]) - form[k]) <= 1e-9 * max(1.0, abs(form[k]))):
                    ctx.fail({"kind": "object", "method": "rqa_summary", "entry": k,
                              "sparse_rqa": sparse},
                             f"rqa_summary({lm},{vm})[{k}] = {sm[k]}, stated function gives {form[k]}",
                             dict(replay, l_min=lm, v_min=vm))
        for lag in {0, 1, N - 1, rng.randrange(0, N)}:
            if lag < 0 or lag >= N:
                continue
            try:
                got = float(rp.recurrence_probability(lag))
            except Exception as e:  # noqa
                ctx.fail({"kind": "object", "method": "recurrence_probability",
                          "error": type(e).__name__}, f"recurrence_probability({lag}) raised {e}",
                         dict(replay, lag=lag))
                continue
            exp = sum(int(R[a][a + lag]) for a in range(N - lag)) / (N - lag)
            if abs(got - exp) > 1e-12:
                ctx.fail({"kind": "object", "method": "recurrence_probability"},
                         f"recurrence_probability({lag}) = {got}, diagonal {lag} has rate {exp}",
                         dict(replay, lag=lag))
        # scalar methods with minimum lengths up to N + 1 and with `resampled_dist` given
        for lmin in {1, 2, N, N + 1}:
            if lmin >= 1:
                check_scalars(ctx, rp, N, expd, expv, expw, lmin, ts)
        given_dist(ctx, rp, N, rng, replay)


GIVEN = (("d", "ratio:determinism", "determinism"), ("d", "avg:average_diaglength", "average_diaglength"),
         ("d", "entropy:diag_entropy", "diag_entropy"), ("v", "ratio:laminarity", "laminarity"),
         ("v", "avg:average_vertlength", "average_vertlength"), ("v", "avg:trapping_time", "trapping_time"),
         ("v", "entropy:vert_entropy", "vert_entropy"))


def given_dist(ctx, rp, N, rng, replay):
    """determinism / average_diaglength / diag_entropy / laminarity / average_vertlength /
    trapping_time / vert_entropy with `resampled_dist` given: the same functions of THAT histogram
    (model correspondence through SCAL + the stated formulas)"""
    eps = 1e-8
    h = np.array([rng.choice([0, 0, 1, 2, 5, 40]) for _ in range(N)], dtype=np.int32)
    lmin = rng.choice([1, 2, 2, 3, N, N + 1])
    impl = {}
    for _, tag, nm in GIVEN:
        try:
            impl[tag] = float(getattr(rp, nm)(lmin, resampled_dist=h.copy()))
        except Exception as e:  # noqa
            ctx.fail({"kind": "scalar-given", "method": nm, "error": type(e).__name__},
                     f"{nm}({lmin}, resampled_dist=...) raised {type(e).__name__}: {e}",
                     dict(replay, l_min=lmin, resampled_dist=h.tolist()))
            return
    SCAL.append((f"scalars {lmin} " + (",".join(str(int(x)) for x in h) or "-"), impl))
    ctx.count("scalar:resampled_dist-given")
    ps = sum((i + 1) * int(h[i]) for i in range(lmin - 1, N))
    pc = sum(int(h[i]) for i in range(lmin - 1, N))
    full = sum((i + 1) * int(h[i]) for i in range(N))
    hh = np.array([x for x in h[lmin - 1:] if x], dtype=float)
    p = hh / (hh.sum() + eps) if hh.size else hh
    exp = {"ratio": ps / (full + eps), "avg": ps / (pc + eps),
           "entropy": float(-(p * np.log(p)).sum()) if hh.size else 0.0}
    for tag, got in impl.items():
        e = exp[tag.split(":")[0]]
        if not abs(got - e) <= 1e-9 * max(1.0, abs(e)):
            ctx.fail({"kind": "scalar-given", "method": tag.split(":")[1]},
                     f"{tag.split(':')[1]}({lmin}, resampled_dist=h) = {got}, stated function of h "
                     f"gives {e}", dict(replay, l_min=lmin, resampled_dist=h.tolist()))


# --------------------------------------------------------------------------
# round 4: doubles (inf, nan, differences that are rounded)
# --------------------------------------------------------------------------

def enc_x(x):
    x = float(x)
    if x != x:
        return "nan"
    if x in (float("inf"), float("-inf")):
        return "inf" if x > 0 else "-inf"
    return enc_q(frac(x))


def enc_xmat(E):
    return ";".join(",".join(enc_x(x) for x in row) for row in E) or "-"


def float_matrix(E, eps):
    """independent of the model: the stated predicate evaluated in Python floats (IEEE doubles):
    running maximum of |a - b| that skips NaN differences, strict comparison"""
    n = len(E)
    R = [[0] * n for _ in range(n)]
    for a in range(n):
        for b in range(n):
            d = 0.0
            for x, y in zip(E[a], E[b]):
                with np.errstate(invalid="ignore", over="ignore"):
                    t = abs(float(np.float64(x) - np.float64(y)))
                if t > d:
                    d = t
            R[a][b] = int(d < eps)
    return R


def double_embedding(rng, n, dim):
    """doubles whose differences are NOT all representable (exponents far apart), a few infinities
    and NaNs; returns the array and a list of thresholds at / next to its distances"""
    kind = rng.choice(["gap", "gap", "tenths", "f32gap", "subnormal", "overflow"])
    E = np.zeros((n, dim))
    for a in range(n):
        for l in range(dim):
            if kind == "overflow":
                # round 5: doubles whose DIFFERENCE overflows to inf (not reachable through the
                # class, whose embedding is float32-born; the kernels accept any doubles): the
                # driver's float structure `xOpsO rnd64` overflows to inf from 2^1024 on.
                E[a, l] = rng.choice([1.7e308, -1.7e308, 1e308, -1e308, 0.0, 1.0, 8.9e307, -8.99e307])
            elif kind == "subnormal":
                # round 5: samples / differences in and around the subnormal range (gradual
                # underflow: the last place is clamped at 2^-1074; a difference of doubles there is
                # exact -- theorem rnd64_eq_rn53_on_differences)
                E[a, l] = rng.choice([0.0, 5e-324 * rng.randrange(0, 9), 2.0 ** -1022,
                                      2.0 ** -1022 + 5e-324 * rng.randrange(0, 5),
                                      2.0 ** -1021 - 5e-324 * rng.randrange(0, 3),
                                      -5e-324 * rng.randrange(0, 4), 2.0 ** -1060 * rng.randrange(0, 4),
                                      1.5 * 2.0 ** -1000])
            elif kind == "tenths":
                E[a, l] = rng.randrange(0, 12) / 10
            elif kind == "f32gap":
                base = rng.choice([0.0, 1.0, 3.0, 0.5])
                tiny = rng.randrange(0, 5) * 2.0 ** -rng.choice([30, 41, 52, 60])
                E[a, l] = float(np.float32(base)) + float(np.float32(tiny)) \
                    if rng.random() < 0.5 else float(np.float32(rng.choice([base, tiny])))
            else:
                base = rng.choice([0.0, 1.0, 1.0, 3.0, 0.5, 2.0 ** 40])
                tiny = rng.randrange(0, 7) * 2.0 ** -rng.choice([30, 52, 53, 54, 60, 70])
                E[a, l] = rng.choice([base, tiny, base + 2.0 ** -20, -base])
    special = rng.choice(["none", "none", "inf", "inf", "nan", "both"])
    for a in range(n):
        if special in ("inf", "both") and rng.random() < 0.3:
            E[a, rng.randrange(dim)] = rng.choice([np.inf, np.inf, -np.inf])
        if special in ("nan", "both") and rng.random() < 0.2:
            E[a, rng.randrange(dim)] = np.nan
    cands = [1.0, 0.5, 3.0, 0.1, 0.30000000000000004, float(np.nextafter(1.0, 0)),
             float(np.nextafter(1.0, 2)), 2.0 ** 40, np.inf, np.inf, 0.0, -1.0]
    near = []
    for l in range(dim):
        col = [float(x) for x in E[:, l] if np.isfinite(x)]
        if len(col) >= 2:
            for _ in range(3):
                x, y = rng.choice(col), rng.choice(col)
                d = abs(x - y)          # the rounded distance: a threshold exactly there is the
                near += [d, d, float(np.nextafter(d, np.inf))]     # case rounding can decide
    if kind == "overflow":
        cands = [np.inf, np.inf, 1.7976931348623157e308, 1e308, 1.0]
    if kind == "subnormal":
        cands = [5e-324, 1e-323, 2.0 ** -1022, 2.0 ** -1060, 2.0 ** -1000, 0.0, -5e-324, np.inf, 1.0]
    if near and rng.random() < 0.5:
        cands = near
    if rng.random() < 0.05:
        cands = [float("nan")]
    return E, kind, special, float(rng.choice(cands))


def rounding(ctx, rng, quick):
    """round 5: the rounding `rnd64` of the model itself against IEEE binary64 as this machine
    executes it: (a) `abs(a - b)` of two doubles (numpy float64 subtraction), (b) the correctly
    rounded conversion of an arbitrary rational (`float(Fraction)`: CPython's correctly rounded
    true division, gradual underflow included): ties, exponent boundaries, subnormals."""
    reqs, impl = [], []
    specials = [0.0, 5e-324, 1e-323, 2.0 ** -1074 * (2 ** 52 - 1), 2.0 ** -1022, 2.0 ** -1021,
                1.0, float(np.nextafter(1.0, 0)), float(np.nextafter(1.0, 2)), 0.1, 0.3, 1e300, 2.0 ** 1000,
                2.0 ** 53, 2.0 ** 53 + 2, 3.0, 1e-310, 4.9e-320]

    def rand_double():
        r = rng.random()
        if r < 0.3:
            return rng.choice(specials) * rng.choice([1, 1, -1])
        if r < 0.6:
            return math.ldexp(rng.randrange(0, 2 ** 53), rng.randrange(-1074, -1000)) * rng.choice([1, -1])
        if r < 0.8:
            return math.ldexp(rng.randrange(0, 2 ** 53), rng.randrange(-120, 60)) * rng.choice([1, -1])
        return rng.uniform(-4, 4)

    for c in range(60 if quick else 600):
        prs, exp = [], []
        for _ in range(8):
            if rng.random() < 0.55:
                a, b = rand_double(), rand_double()
                if rng.random() < 0.3:
                    b = a + math.ldexp(rng.randrange(-3, 4), rng.randrange(-1074, -1040))
                with np.errstate(over="ignore"):
                    d = abs(float(np.float64(a) - np.float64(b)))
                if not math.isfinite(d):
                    continue
                prs.append(f"{enc_q(frac(a))},{enc_q(frac(b))}")
                exp.append(enc_q(frac(d)))
                ctx.count("rounding:difference-of-doubles" +
                          (":subnormal" if 0 < d < 2.0 ** -1022 else ""))
            else:
                # an arbitrary rational: ties (odd multiples of half an ulp), near powers of two,
                # non-dyadic, subnormal
                k = rng.choice(["tie", "tie-subnormal", "thirds", "boundary", "tiny"])
                if k == "tie":
                    q = Fraction(2 * rng.randrange(2 ** 52, 2 ** 53) + 1, 2) * Fraction(2) ** rng.randrange(-1070, 900)
                elif k == "tie-subnormal":
                    q = Fraction(2 * rng.randrange(0, 2 ** 20) + 1, 2) * Fraction(1, 2 ** 1074)
                elif k == "thirds":
                    q = Fraction(rng.randrange(1, 10 ** 6), 3 * rng.randrange(1, 10 ** 6)) * Fraction(2) ** rng.randrange(-1090, 60)
                elif k == "boundary":
                    q = Fraction(2) ** rng.randrange(-1076, 60) * (1 + Fraction(rng.randrange(-3, 4), 2 ** rng.choice([53, 54, 55, 60])))
                else:
                    q = Fraction(rng.randrange(0, 40), rng.randrange(1, 9)) * Fraction(1, 2 ** 1075)
                if q < 0 or q >= Fraction(2) ** 1023:
                    continue
                prs.append(f"0,{enc_q(q)}")
                exp.append(enc_q(Fraction(float(q))))
                ctx.count(f"rounding:rational={k}")
        if not prs:
            continue
        reqs.append("rnd64 " + ";".join(prs))
        impl.append(",".join(exp))
        ctx.case(("rnd64", ";".join(prs)), True, {"rnd64": prs[:2]} if c < 3 else None)
    ctx.correspond("model rnd64 (round-to-nearest-even, 53 bits, gradual underflow) == IEEE binary64 of "
                   "this machine: |a - b| of doubles and correctly rounded rationals", reqs, impl)


def doubles(ctx, K, RecurrencePlot, rng, nprng, quick):
    """(a) the four sequential kernels on doubles with inf / nan samples, inf / nan thresholds and
    differences that binary64 rounds, against the SAME generated kernels instantiated at
    `xOps rnd64` and against the predicate evaluated in Python floats; (b) object level: series
    with infinite samples in both storage modes (matrix of `set_fixed_threshold` = model
    `fixedThresholdX`, histograms = run-length counts of the implementation's own matrix)."""
    reqs, impl = [], []
    lreqs, limpl = [], []
    for c in range(120 if quick else 1200):
        n = rng.choice([1, 2, 3, 3, 4, 5, 6, 8, 11] + ([] if quick else [17, 30]))
        dim = rng.choice([1, 1, 2, 3])
        E, kind, special, eps = double_embedding(rng, n, dim)
        M = np.isnan(E).sum(axis=1) != 0
        Rex = float_matrix(E.tolist(), eps)
        overflows = False
        if kind == "overflow":
            fin = [[float(x) for x in E[:, l] if np.isfinite(x)] for l in range(dim)]
            overflows = any(c and float(max(c)) - float(min(c)) == np.inf for c in fin)
            ctx.count("doubles:a-finite-difference-overflows" if overflows else "doubles:overflow-kind-without-overflow")
        if np.isfinite(E).all() and np.isfinite(eps):   # overflow included (binary64_overflow_subset_exact)
            # how often does binary64 rounding of |a - b| decide a cell differently from exact
            # arithmetic (theorem round_subset: only ever by dropping a recurrence)
            Rq = sup_matrix(E.tolist(), eps)
            if Rq != Rex:
                ctx.count("doubles:rounding-changes-the-matrix")
                if any(x > y for rx, ry in zip(Rex, Rq) for x, y in zip(rx, ry)):
                    ctx.fail({"kind": "kernel-doubles", "what": "rounding invented a recurrence"},
                             "a pair is recurrent in doubles but not in exact arithmetic",
                             {"E": enc_xmat(E.tolist()), "eps": repr(eps)})
        # round 5: the matrix mode's distance kernel against its two outer loops AS WRITTEN
        # (generated `supremum_rp_loops`, proved equal to the closed form of the model)
        if n <= 11:
            try:
                Dm = np.array(K._supremum_distance_matrix_rp(n, dim, np.ascontiguousarray(E)))
                lreqs.append(f"xdistloops b64 {n} {dim} {enc_xmat(E.tolist())}")
                limpl.append(enc_xmat(Dm.tolist()))
                ctx.count("kernel:_supremum_distance_matrix_rp(doubles)")
            except Exception as e:  # noqa
                ctx.fail({"kind": "kernel-doubles", "kernel": "_supremum_distance_matrix_rp",
                          "error": type(e).__name__},
                         f"_supremum_distance_matrix_rp raised {type(e).__name__}: {e}",
                         {"E": enc_xmat(E.tolist())})
        for name, fn, mv in (("xvertline_seq", K._vertline_dist_sequential, False),
                             ("xdiagline_seq", K._diagline_dist_sequential, False),
                             ("xvertline_seq_mv", K._vertline_dist_sequential_missingvalues, True),
                             ("xdiagline_seq_mv", K._diagline_dist_sequential_missingvalues, True)):
            hist = np.zeros(n, dtype=np.int32)
            Ec = np.ascontiguousarray(E)
            if rng.random() < 0.3:
                Ec = np.asfortranarray(Ec)
            try:
                if mv:
                    fn(n, hist, M.astype(bool), Ec, float(eps), dim)
                else:
                    fn(n, hist, Ec, float(eps), dim)
                got = enc_vec(hist)
            except Exception as e:  # noqa
                got = "raise:" + type(e).__name__
            req = f"{name} b64 {n} {dim} {enc_xmat(E.tolist())} {enc_x(eps)}"
            if mv:
                req += " " + enc_vec(M)
            reqs.append(req)            # round 5: the driver's float structure has the overflow
            impl.append(got)
            ctx.count(f"kernel:{name}")
            ctx.count(f"doubles:data={kind}")
            ctx.count(f"doubles:special={special}")
            ctx.count("doubles:eps=" + ("inf" if eps == np.inf else "nan" if eps != eps else "finite"))
            ctx.case((name, n, dim, E.tobytes().hex(), repr(eps)), n >= 2,
                     {"kernel": name, "n": n, "E": enc_xmat(E.tolist()), "eps": repr(eps)}
                     if n <= 3 else None)
            if mv:
                cells = mv_cells_rows(Rex, M) if "vert" in name else mv_cells_diags(Rex, M)
                exp = oracle_lines_mv(cells, n)
            else:
                exp = oracle_hist(rows(Rex, 1) if "vert" in name else lower_diags(Rex), n)
            if got != enc_vec(exp):
                ctx.fail({"kind": "kernel-doubles", "kernel": name[1:]},
                         f"{name[1:]} kernel on doubles (inf / nan / rounded differences) differs from "
                         "the run-length count of the predicate evaluated in IEEE doubles",
                         {"kernel": name[1:], "n": n, "dim": dim, "E": enc_xmat(E.tolist()),
                          "eps": repr(eps), "M": M.tolist(), "expected": exp, "observed": got})
    ctx.correspond("generated kernels at xOps(binary64) == compiled sequential kernels on doubles "
                   "with inf / nan / rounded differences", reqs, impl)
    ctx.correspond("outer loops of _supremum_distance_matrix_rp as written (generated folds, binary64) == "
                   "compiled distance kernel on doubles with inf / nan / rounded differences", lreqs, limpl)

    # (b) object level: infinite samples
    reqs, impl = [], []
    mreqs, mimpl = [], []
    for c in range(150 if quick else 1500):
        n = rng.randrange(2, 12 if quick else 30)
        den = rng.choice([2, 4])
        dimts = rng.choice([1, 1, 2])
        ts = np.array([[rng.randrange(0, 3 * den) / den for _ in range(dimts)] for _ in range(n)])
        wide = rng.random() < 0.3
        if wide:
            # round 5: float32 samples 30-60 binades apart: the double differences are rounded
            ts = np.array([[float(np.float32(rng.choice([0.0, 1.0, 0.5, 3.0])))
                            + float(np.float32(rng.randrange(0, 5) * 2.0 ** -rng.choice([30, 41, 52, 60])))
                            * rng.choice([0, 1]) for _ in range(dimts)] for _ in range(n)])
            ctx.count("object4:float32-samples-far-apart")
        kw = {}
        if dimts == 1 and n >= 6 and rng.random() < 0.3:
            kw = {"dim": 2, "tau": rng.choice([1, 2])}
        for a in range(n):
            r = rng.random()
            if r < 0.25:
                ts[a, rng.randrange(dimts)] = rng.choice([np.inf, np.inf, -np.inf])
            elif r < 0.35:
                ts[a, rng.randrange(dimts)] = np.nan
        mv = bool(np.isnan(ts).any()) and rng.random() < 0.8
        thr = rng.choice([1 / den, 2 / den, 3 / den, np.inf])
        if wide:
            thr = rng.choice([1.0, 1.0, 0.5, float(np.nextafter(1.0, 2)), 2.5, np.inf])
        dt = rng.choice([np.float32, np.float64])
        replay = {"time_series": [[repr(float(x)) for x in r] for r in ts], "dtype": np.dtype(dt).name,
                  "threshold": repr(float(thr)), "missing_values": mv, "kwargs": kw}
        res = {}
        try:
            for sparse in (False, True):
                rp = RecurrencePlot(ts.astype(dt), metric="supremum", threshold=thr,
                                    missing_values=mv, sparse_rqa=sparse, silence_level=3, **kw)
                res[sparse] = (rp, list(map(int, rp.diagline_dist())), list(map(int, rp.vertline_dist())))
        except Exception as e:  # noqa
            ctx.fail({"kind": "object-inf", "error": type(e).__name__},
                     f"RecurrencePlot with infinite samples raised {type(e).__name__}: {e}", replay)
            continue
        rp, d, v = res[False]
        N = rp.N
        ctx.count("object4:inf-samples")
        ctx.count(f"object4:threshold={'inf' if thr == np.inf else 'finite'}")
        ctx.case(("obj4", ts.tobytes().hex(), float(thr), mv, str(kw), np.dtype(dt).name), N >= 2)
        R = np.array(rp.recurrence_matrix())
        emb = np.asarray(rp.embedding, dtype=np.float64)
        Mk = np.isnan(emb).sum(axis=1) != 0
        reqs.append(f"xmatrix b64 {emb.shape[1]} {int(mv)} {enc_xmat(emb.tolist())} {enc_x(thr)}")
        impl.append(f"{enc_mat(R)} {enc_vec(Mk)}")
        # round 5: the methods as wholes (model `Model/LineDistMethods.lean`): both storage modes,
        # the numerator of recurrence_rate(), white_vertline_dist() / its NotImplementedError
        try:
            parts = []
            for sparse in (False, True):
                rps, dd, vv = res[sparse]
                rr = float(rps.recurrence_rate()) * N * N
                if abs(rr - round(rr)) > 1e-6:
                    ctx.fail({"kind": "object-methods", "method": "recurrence_rate", "sparse_rqa": sparse},
                             f"recurrence_rate() * N^2 = {rr} is not an integer", replay)
                parts.append(f"{enc_vec(dd)} {enc_vec(vv)} {int(round(rr))}")
            parts.append(enc_vec(res[False][0].white_vertline_dist()))
            try:
                res[True][0].white_vertline_dist()
                parts.append("returned")
            except NotImplementedError:
                parts.append("raise")
            mreqs.append(f"xmethods b64 {emb.shape[1]} {int(mv)} {enc_xmat(emb.tolist())} {enc_x(thr)}")
            mimpl.append(" ".join(parts))
            ctx.count(f"methods:missing_values={mv}")
        except Exception as e:  # noqa
            ctx.fail({"kind": "object-methods", "error": type(e).__name__},
                     f"RQA methods raised {type(e).__name__}: {e}", replay)
        if mv:
            expv = oracle_lines_mv(mv_cells_rows(R, Mk), N)
            expd = [2 * x for x in oracle_lines_mv(mv_cells_diags(R, Mk), N)]
        else:
            expv = oracle_hist(rows(R, 1), N)
            expd = [2 * x for x in oracle_hist(lower_diags(R), N)]
        Rf = np.array(float_matrix(emb.tolist(), float(thr)))
        if mv:
            Rf[Mk, :] = 0
            Rf[:, Mk] = 0
        if not np.array_equal(R, Rf):
            ctx.fail({"kind": "object-inf", "method": "recurrence_matrix"},
                     "recurrence matrix of a series with infinite samples differs from the thresholded "
                     "supremum distances", dict(replay, expected=enc_mat(Rf), observed=enc_mat(R)))
        for sparse in (False, True):
            _, dd, vv = res[sparse]
            for nm, got, exp in (("diagline_dist", dd, expd), ("vertline_dist", vv, expv)):
                if got != exp:
                    ctx.fail({"kind": "object-inf", "method": nm, "sparse_rqa": sparse,
                              "missing_values": mv},
                             f"{nm}(sparse_rqa={sparse}, missing_values={mv}) on a series with infinite "
                             "samples differs from the run-length count of the recurrence matrix",
                             dict(replay, expected=exp, observed=got))
    ctx.correspond("model fixedThresholdX(binary64) == RecurrencePlot.recurrence_matrix() on series "
                   "with infinite / NaN samples", reqs, impl)
    ctx.correspond("model of the methods diagline_dist / vertline_dist / recurrence_rate / "
                   "white_vertline_dist (Python layer + generated kernels, binary64) == RecurrencePlot "
                   "in both storage modes", mreqs, mimpl)


def criteria_and_subclasses(ctx, rng, nprng, quick):
    """round 4: every way of reaching a recurrence matrix, not only the fixed threshold: fixed
    (local) recurrence rate -- the local one gives ASYMMETRIC matrices --, adaptive neighbourhood
    size, threshold in units of the standard deviation, all three metrics, and the subclasses that
    inherit the RQA methods (RecurrenceNetwork, JointRecurrencePlot, JointRecurrenceNetwork, incl.
    a lag).  Oracle: run-length count of the object's own `recurrence_matrix()` over ALL diagonals
    off the main one (both triangles), rows, white rows; accounting; the stated scalar formulas."""
    from pyunicorn.timeseries import (RecurrencePlot, RecurrenceNetwork, JointRecurrencePlot,
                                      JointRecurrenceNetwork)
    dreqs, dimpl = [], []
    for c in range(60 if quick else 500):
        n = rng.randrange(3, 14 if quick else 36)
        den = rng.choice([2, 4, 8])
        dim = rng.choice([1, 1, 2])
        ts = np.array([[rng.randrange(0, 4 * den) / den for _ in range(dim)] for _ in range(n)])
        ts += nprng.rand(n, dim) * 1e-3            # break ties of the rate criteria
        metric = rng.choice(["supremum", "supremum", "manhattan", "euclidean"])
        crit = rng.choice(["local_recurrence_rate", "local_recurrence_rate", "recurrence_rate",
                           "adaptive_neighborhood_size", "threshold_std", "threshold"])
        val = {"local_recurrence_rate": rng.choice([0.2, 0.3, 0.5, 0.8]),
               "recurrence_rate": rng.choice([0.1, 0.3, 0.6]),
               "adaptive_neighborhood_size": rng.randrange(1, max(2, n // 2)),
               "threshold_std": rng.choice([0.3, 0.8, 1.5]),
               "threshold": rng.choice([1, 2, 3]) / den}[crit]
        cls = rng.choice(["RecurrencePlot", "RecurrencePlot", "RecurrenceNetwork",
                          "JointRecurrencePlot", "JointRecurrenceNetwork"])
        mv = False
        if crit == "threshold" and cls in ("RecurrencePlot", "RecurrenceNetwork") and rng.random() < 0.4:
            mv = True
            for a in range(n):
                if rng.random() < 0.2:
                    ts[a, rng.randrange(dim)] = np.nan
        replay = {"class": cls, "time_series": ts.tolist(), "metric": metric, crit: val,
                  "missing_values": mv}
        try:
            if cls.startswith("Joint"):
                if crit not in ("threshold", "threshold_std", "recurrence_rate"):
                    crit, val = "recurrence_rate", 0.4
                ts2 = np.array([[rng.randrange(0, 4 * den) / den for _ in range(dim)]
                                for _ in range(n)]) + nprng.rand(n, dim) * 1e-3
                lag = rng.choice([0, 0, 1, 2]) if n > 5 else 0
                replay.update({"time_series_y": ts2.tolist(), "lag": lag, crit: val})
                obj = {"JointRecurrencePlot": JointRecurrencePlot,
                       "JointRecurrenceNetwork": JointRecurrenceNetwork}[cls](
                    ts, ts2, metric=(metric, metric), lag=lag, silence_level=3, **{crit: (val, val)})
            else:
                obj = {"RecurrencePlot": RecurrencePlot, "RecurrenceNetwork": RecurrenceNetwork}[cls](
                    ts, metric=metric, missing_values=mv, silence_level=3, **{crit: val})
            R = np.array(obj.recurrence_matrix())
            d = list(map(int, obj.diagline_dist()))
            v = list(map(int, obj.vertline_dist()))
            w = list(map(int, obj.white_vertline_dist()))
        except Exception as e:  # noqa
            ctx.fail({"kind": "object-criteria", "class": cls, "criterion": crit,
                      "error": type(e).__name__},
                     f"{cls}({crit}={val}) line histograms raised {type(e).__name__}: {e}", replay)
            continue
        N = R.shape[0]
        if cls == "RecurrenceNetwork" and mv and int(obj.N) != N:
            # known finding C08-recurrence-network-missing-values-N (Network.__init__ overwrites N)
            ctx.count("object5:RecurrenceNetwork-with-NaN-samples")
            if len(d) != N or len(v) != N or len(w) != N:
                ctx.fail({"kind": "object-criteria", "class": "RecurrenceNetwork",
                          "missing_values": True, "input_class": "series-with-NaN-samples",
                          "what": "histogram length is the number of nodes, not of samples"},
                         f"RecurrenceNetwork(missing_values=True) on a series with NaN samples: line "
                         f"histograms have length {len(d)} (number of nodes) for a {N}x{N} recurrence "
                         "matrix", dict(replay, N_network=int(obj.N), N_plot=N))
            continue
        sym = bool(np.array_equal(R, R.T))
        ctx.count(f"object5:{cls}")
        ctx.count(f"object5:criterion={crit}")
        ctx.count(f"object5:metric={metric}")
        ctx.count(f"object5:{'symmetric' if sym else 'ASYMMETRIC'}-matrix")
        ctx.case(("obj5", cls, crit, repr(val), metric, ts.tobytes().hex(), mv), N >= 2)
        if mv:
            Mk = np.isnan(np.asarray(obj.embedding)).sum(axis=1) != 0
            expv = oracle_lines_mv(mv_cells_rows(R, Mk), N)
            expd = [a + b for a, b in zip(oracle_lines_mv(mv_cells_diags(R, Mk), N),
                                          oracle_lines_mv(mv_cells_diags(R.T, Mk), N))]
        else:
            expv = oracle_hist(rows(R, 1), N)
            expd = oracle_hist(lower_diags(R) + lower_diags(R.T), N)
        expw = oracle_hist(rows(R, 0), N)
        if not mv:
            dreqs.append(f"diagdist {N} {enc_mat(R)}")
            dimpl.append(enc_vec(d))
        for nm, got, exp in (("diagline_dist", d, expd), ("vertline_dist", v, expv),
                             ("white_vertline_dist", w, expw)):
            if got != exp:
                ctx.fail({"kind": "object-criteria", "method": nm, "class": cls, "criterion": crit,
                          "symmetric": sym},
                         f"{cls}({crit}).{nm}() differs from the run-length count of its "
                         f"{'symmetric' if sym else 'asymmetric'} recurrence matrix",
                         dict(replay, expected=exp, observed=got, R=enc_mat(R)))
        ar = np.arange(1, N + 1)
        if not mv and (int(ar @ np.array(v)) != int(R.sum()) or
                       int(ar @ np.array(d)) != int(R.sum() - np.trace(R)) or
                       int(ar @ np.array(w)) != int(N * N - R.sum())):
            ctx.fail({"kind": "object-criteria", "method": "accounting", "class": cls,
                      "criterion": crit},
                     "histograms do not account for every point exactly once", replay)
        for lmin in {1, 2, 3}:
            check_scalars(ctx, obj, N, expd, expv, expw, lmin, ts)
    ctx.correspond("model diaglineDist (kernel + Python layer of diagline_dist) == diagline_dist() of "
                   "objects built with every recurrence criterion (symmetric and asymmetric matrices)",
                   dreqs, dimpl)


class DrawProxy:
    """stands in for the module global `random` of the compiled numerics module: feeds a prepared
    stream of values of random.random()"""

    def __init__(self, draws):
        self.draws, self.used = list(draws), 0

    def random(self):
        if self.used >= len(self.draws):
            raise RuntimeError("draw stream exhausted")
        v = self.draws[self.used]
        self.used += 1
        return float(v)


def bootstrap(ctx, K, RecurrencePlot, rng, nprng, quick):
    """resample_diagline_dist / resample_vertline_dist / rejection_sampling:
    (a) fed draw streams (10-bit dyadic values: the products u*N and the comparisons with
        h/S are decided exactly in double) against the loop regenerated from the source;
    (b) the library's own random stream: count / support / length invariants (independent of
        the model)."""
    import random as pyrandom
    reqs, impl = [], []
    for c in range(60 if quick else 500):
        n = rng.randrange(2, 14)
        den = rng.choice([2, 4])
        ts = np.array([rng.randrange(0, 3 * den) / den for _ in range(n)])
        kind = rng.choice(["plain", "plain", "white", "black"])
        if kind == "white":
            ts = np.arange(n, dtype=float) * 8
        if kind == "black":
            ts = np.zeros(n)
        rp = RecurrencePlot(ts, threshold=rng.choice([1, 2]) / den, silence_level=3)
        M = rng.choice([0, 1, 3, 10, 40])
        for which in ("diag", "vert"):
            hist = [int(x) for x in (rp.diagline_dist() if which == "diag" else rp.vertline_dist())]
            meth = getattr(rp, f"resample_{which}line_dist")
            nz = [i for i, x in enumerate(hist) if x]
            L = max(nz) + 1 if nz else 0
            replay = {"time_series": ts.tolist(), "threshold": rp.threshold, "M": M,
                      "method": f"resample_{which}line_dist", "hist": hist}
            # (b) real random stream
            try:
                out = [int(x) for x in meth(M)]
            except Exception as e:  # noqa
                ctx.fail({"kind": "bootstrap", "method": replay["method"], "error": type(e).__name__},
                         f"{replay['method']}({M}) raised {type(e).__name__}: {e}", replay)
                continue
            ctx.count(f"bootstrap:{which}:free")
            ctx.case(("boot", which, ts.tobytes().hex(), rp.threshold, M), L > 0)
            ok = len(out) == len(hist) and all(o == 0 for o, h in zip(out, hist) if h == 0) and \
                (out == hist if L == 0 else sum(out) == M)
            if not ok:
                ctx.fail({"kind": "bootstrap", "method": replay["method"]},
                         f"{replay['method']}({M}): resampled histogram breaks count / support / "
                         "length invariants", dict(replay, observed=out))
            # (a) fed stream
            pairs = [(Fraction(rng.randrange(0, 1024), 1024), Fraction(rng.randrange(0, 1024), 1024))
                     for _ in range(6 * M + 4)]
            if nz:
                pairs += [(Fraction(nz[0], L), Fraction(0))] * M      # guaranteed acceptances
            proxy = DrawProxy([u for pr in pairs for u in pr])
            old = K.random
            try:
                K.random = proxy
                got = [int(x) for x in meth(M)]
                ans = f"{enc_vec(got)} {proxy.used // 2}"
            except Exception as e:  # noqa
                ans = "raise:" + type(e).__name__
            finally:
                K.random = old
            reqs.append(f"resample {M} {enc_vec(hist)} " +
                        (";".join(f"{enc_q(a)},{enc_q(b)}" for a, b in pairs) or "-"))
            impl.append(ans)
            ctx.count(f"bootstrap:{which}:fed")
    ctx.correspond("bootstrap loop regenerated from numerics.pyx + resample model == "
                   "resample_*line_dist on fed draw streams", reqs, impl)
    # (c) round 4 -- the EXPECTED histogram, exactly: the public static method
    # `rejection_sampling(dist, M)` fed every pair of a uniform grid of draws once (shuffled;
    # N a power of two so that u1 * N is exact): theorem bootstrap_accept_region says class x accepts
    # exactly the pairs of the rectangle [x/N, (x+1)/N) x [0, dist[x]/S), i.e. r * t * dist[x] of them
    for c in range(12 if quick else 120):
        N = rng.choice([1, 2, 4, 8])
        dist = [rng.choice([0, 1, 2, 3, 5]) for _ in range(N)]
        if sum(dist) == 0:
            dist[rng.randrange(N)] = rng.choice([1, 4])
        S, r, t = sum(dist), rng.choice([1, 2, 4]), rng.choice([1, 2])
        grid = [(Fraction(a, N * r), Fraction(b, S * t)) for a in range(N * r) for b in range(S * t)]
        rng.shuffle(grid)
        M = r * t * S
        proxy = DrawProxy([u for pr in grid for u in pr])
        old = K.random
        replay = {"method": "rejection_sampling", "dist": dist, "M": M, "grid": [N * r, S * t]}
        try:
            K.random = proxy
            got = [int(x) for x in RecurrencePlot.rejection_sampling(np.array(dist, dtype=np.int32), M)]
        except Exception as e:  # noqa
            ctx.fail({"kind": "bootstrap", "method": "rejection_sampling", "error": type(e).__name__},
                     f"rejection_sampling on a uniform grid of draws raised {type(e).__name__}: {e} "
                     "(fewer acceptances than the original distribution implies)", replay)
            continue
        finally:
            K.random = old
        ctx.count("bootstrap:uniform-grid")
        ctx.case(("boot-grid", tuple(dist), r, t), N >= 2)
        if got != [r * t * h for h in dist]:
            ctx.fail({"kind": "bootstrap", "method": "rejection_sampling", "what": "expected histogram"},
                     "rejection_sampling over a uniform grid of draws does not reproduce the original "
                     "distribution", dict(replay, expected=[r * t * h for h in dist], observed=got))


def scalar_correspondence(ctx):
    """the Lean `scalars` (numerators, denominators, maximal length, entropy weights) against the
    implementation's scalar RQA methods: value = num / (den + _epsilon), entropy = -sum p log p
    over the model's weights (numpy's log is not modelled)."""
    if not SCAL:
        return
    eps = 1e-8
    model = common.driver(ctx.pid, [r for r, _ in SCAL])
    bad = []
    ncmp = 0
    for (req, impl), ans in zip(SCAL, model):
        try:
            num, den, cnt, ml, wts = ans.split(" ")
            num, den, cnt, ml = int(num), int(den), int(cnt), int(ml)
            wts = [] if wts == "-" else [int(x) for x in wts.split(",")]
        except ValueError:
            bad.append(f"{req} :: model={ans[:80]}")
            continue
        p = np.array(wts, dtype=float) / (float(sum(wts)) + eps)
        exp = {"ratio": num / (den + eps), "avg": num / (cnt + eps), "max": ml,
               "entropy": float(-(p * np.log(p)).sum()) if wts else 0.0}
        for k, got in impl.items():
            ncmp += 1
            e = exp[k.split(":")[0]]
            if not abs(got - e) <= 1e-9 * max(1.0, abs(e)):
                bad.append(f"{req} :: {k} model={e} impl={got}")
    ctx.obligation(f"correspondence: Lean scalar RQA functions == RecurrencePlot scalar methods "
                   f"({len(SCAL)} histograms, {ncmp} values)", "correspondence", not bad,
                   "\n".join(bad[:6]))
    ctx.extra["scalar_values_compared"] = ncmp


def check_scalars(ctx, rp, n, d, v, w, lmin, ts):
    eps = 1e-8
    try:
        hs = {"d": rp.diagline_dist(), "v": rp.vertline_dist(), "w": rp.white_vertline_dist()}
        names = {"d": (("ratio:determinism", "determinism"), ("avg:average_diaglength", "average_diaglength"),
                       ("entropy:diag_entropy", "diag_entropy"), ("max:max_diaglength", "max_diaglength")),
                 "v": (("ratio:laminarity", "laminarity"), ("avg:trapping_time", "trapping_time"),
                       ("avg:average_vertlength", "average_vertlength"),
                       ("entropy:vert_entropy", "vert_entropy"), ("max:max_vertlength", "max_vertlength")),
                 "w": (("avg:mean_recurrence_time", "mean_recurrence_time"),
                       ("avg:average_white_vertlength", "average_white_vertlength"),
                       ("entropy:white_vert_entropy", "white_vert_entropy"),
                       ("max:max_white_vertlength", "max_white_vertlength"))}
        for key, h in hs.items():
            impl = {}
            for tag, nm in names[key]:
                impl[tag] = float(getattr(rp, nm)() if tag.startswith("max") else getattr(rp, nm)(lmin))
            SCAL.append((f"scalars {lmin} " + (",".join(str(int(x)) for x in h) or "-"), impl))
    except Exception:  # noqa  (exceptions are reported by the oracle part below)
        pass

    def psum(h, m):
        return sum((i + 1) * h[i] for i in range(m - 1, len(h)))

    def pcnt(h, m):
        return sum(h[i] for i in range(m - 1, len(h)))

    def mx(h):
        nz = [i + 1 for i, x in enumerate(h) if x]
        return max(nz) if nz else 0

    def ent(h, m):
        hh = np.array(h[m - 1:], dtype=float)
        hh = hh[hh != 0]
        if hh.size == 0:
            return 0.0
        p = hh / (hh.sum() + eps)   # the documented numerical-stability term
        return float(-(p * np.log(p)).sum())

    exp = {
        "determinism": psum(d, lmin) / (psum(d, 1) + eps),
        "average_diaglength": psum(d, lmin) / (pcnt(d, lmin) + eps),
        "laminarity": psum(v, lmin) / (psum(v, 1) + eps),
        "average_vertlength": psum(v, lmin) / (pcnt(v, lmin) + eps),
        "trapping_time": psum(v, lmin) / (pcnt(v, lmin) + eps),
        "average_white_vertlength": psum(w, lmin) / (pcnt(w, lmin) + eps),
        "mean_recurrence_time": psum(w, lmin) / (pcnt(w, lmin) + eps),
        "diag_entropy": ent(d, lmin),
        "vert_entropy": ent(v, lmin),
        "white_vert_entropy": ent(w, lmin),
    }
    for nm, e in exp.items():
        try:
            got = float(getattr(rp, nm)(lmin))
        except Exception as ex:  # noqa
            ctx.fail({"kind": "scalar", "method": nm, "error": type(ex).__name__},
                     f"{nm}({lmin}) raised {type(ex).__name__}: {ex}",
                     {"time_series": ts.tolist(), "l_min": lmin})
            continue
        if not (abs(got - e) <= 1e-9 * max(1.0, abs(e))):
            ctx.fail({"kind": "scalar", "method": nm},
                     f"{nm}({lmin}) = {got}, stated function of the histogram gives {e}",
                     {"time_series": ts.tolist(), "l_min": lmin, "expected": e, "observed": got})
        if nm.endswith("entropy"):
            # theorem lineEntropy_range on the implementation's value, computed without numpy.log
            import math
            hh = [x for x in {"diag_entropy": d, "vert_entropy": v, "white_vert_entropy": w}[nm][lmin - 1:]
                  if x]
            hi = (math.log(len(hh)) + eps / (sum(hh) + eps)) if hh else 0.0
            ctx.count("scalar:entropy-range")
            if not (-1e-12 <= got <= hi + 1e-12):
                ctx.fail({"kind": "scalar", "method": nm, "what": "range"},
                         f"{nm}({lmin}) = {got} outside [0, log k + eps/(n+eps)] = [0, {hi}]",
                         {"time_series": ts.tolist(), "l_min": lmin, "observed": got, "bound": hi})
    if lmin == 1:
        for nm, e in (("max_diaglength", mx(d)), ("max_vertlength", mx(v)),
                      ("max_white_vertlength", mx(w))):
            got = int(getattr(rp, nm)())
            if got != e:
                ctx.fail({"kind": "scalar", "method": nm}, f"{nm}() = {got}, expected {e}",
                         {"time_series": ts.tolist(), "expected": e, "observed": got})
