"""C08 — RQA line statistics are exact run-length counts of the matrix.

proof  : lean/Pyunicorn/Properties/C08.lean (kernel = run-length specification,
         accounting identities, sequential = matrix)
tie    : exact correspondence of the Lean model with the compiled kernels at the
         kernel boundary and with RecurrencePlot at the object level
search : independent run-length counter on rows / diagonals of
         `recurrence_matrix()`, matrix mode vs sequential mode, scalar measures
"""
import itertools
from fractions import Fraction

import numpy as np

from . import common


# --------------------------------------------------------------------------
# helpers
# --------------------------------------------------------------------------

def enc_mat(R):
    return ";".join(",".join(str(int(v)) for v in row) for row in R) or "-"


def enc_vec(v):
    return ",".join(str(int(x)) for x in v) or "-"


def runs(seq):
    return [len(list(g)) for v, g in itertools.groupby(seq) if v]


def oracle_hist(lines, n):
    h = [0] * n
    for l in lines:
        for r in runs(l):
            h[r - 1] += 1
    return h


def oracle_lines_mv(lines_cells, n):
    """lines of (line, miss) cells; a run is counted iff it contains no miss
    cell, is not directly followed by one and does not lie between a miss cell
    and the next white cell."""
    h = [0] * n
    for cells in lines_cells:
        k = 0
        poisoned = False
        for line, miss in cells:
            if miss:
                poisoned, k = True, 0
                continue
            if poisoned:
                if not line:
                    poisoned = False
                continue
            if line:
                k += 1
            elif k:
                h[k - 1] += 1
                k = 0
        if k and not poisoned:
            h[k - 1] += 1
    return h


def rows(R, black=1):
    return [[int(v) == black for v in row] for row in R]


def lower_diags(R):
    n = len(R)
    return [[bool(R[d + j][j]) for j in range(n - d)] for d in range(1, n)]


def kuratowski(R):
    """time series (N, N) whose supremum-metric recurrence matrix at threshold
    1.5 is exactly the symmetric unit-diagonal 0/1 matrix R."""
    n = len(R)
    d = np.where(np.array(R) == 1, 1.0, 2.0)
    np.fill_diagonal(d, 0.0)
    return d.reshape(n, n)


def sym_matrices(n):
    pairs = [(i, j) for i in range(n) for j in range(i)]
    for bits in itertools.product([0, 1], repeat=len(pairs)):
        R = np.eye(n, dtype=np.int8)
        for (i, j), b in zip(pairs, bits):
            R[i, j] = R[j, i] = b
        yield R


# --------------------------------------------------------------------------

def run(ctx):
    from pyunicorn.timeseries._ext import numerics as K
    from pyunicorn.timeseries import RecurrencePlot
    rng = ctx.rng
    nprng = np.random.RandomState(rng.randrange(2 ** 31))
    quick = ctx.tier == "quick"
    ctx.rule = ("kernel level: all symmetric unit-diagonal 0/1 matrices up to "
                f"{'4x4' if quick else '5x5'} + random (also asymmetric) 0/1 matrices, all/ random "
                "missing masks; object level: Kuratowski-embedded series realising those matrices, "
                "sparse_rqa on/off; distinct = distinct (kernel, n, matrix, mask); "
                "non-trivial = matrix has both colours off the diagonal")
    ctx.proofs()

    # ---------------- kernel-level correspondence --------------------------
    mats = []
    for n in range(1, 5 if quick else 6):
        mats.extend(sym_matrices(n))
    nrand = 300 if quick else 3000
    for _ in range(nrand):
        n = rng.choice([2, 3, 5, 8, 13, 21, 30] if quick else
                       [2, 3, 5, 8, 13, 21, 30, 45, 60])
        p = rng.choice([0.1, 0.3, 0.5, 0.7, 0.9])
        R = (nprng.rand(n, n) < p).astype(np.int8)
        if rng.random() < 0.6:
            R = np.triu(R) | np.triu(R).T
            np.fill_diagonal(R, 1)
        mats.append(R)
    mats.append(np.ones((7, 7), dtype=np.int8))
    mats.append(np.zeros((7, 7), dtype=np.int8))
    mats.append(np.zeros((0, 0), dtype=np.int8))

    reqs, impl, meta = [], [], []

    def kernel_call(fn, n, R, M=None):
        hist = np.zeros(n, dtype=np.int32)
        Rc = np.ascontiguousarray(R, dtype=np.int8).reshape(n, n) if n else \
            np.zeros((0, 0), dtype=np.int8)
        try:
            if M is None:
                fn(n, hist, Rc)
            else:
                fn(n, hist, Rc, np.ascontiguousarray(M, dtype=bool))
        except Exception as e:  # noqa
            return "raise:" + type(e).__name__
        return enc_vec(hist)

    for R in mats:
        n = R.shape[0]
        nontriv = n >= 2 and 0 < (R.sum() - np.trace(R)) < n * n - n
        for name, fn in (("vertline", K._vertline_dist),
                         ("whitevertline", K._white_vertline_dist),
                         ("diagline", K._diagline_dist)):
            reqs.append(f"{name} {n} {enc_mat(R)}")
            impl.append(kernel_call(fn, n, R))
            meta.append((name, n, R, None))
            ctx.case((name, n, R.tobytes().hex()), nontriv,
                     {"kernel": name, "n": n, "R": enc_mat(R)} if n <= 4 else None)
            ctx.count(f"kernel:{name}")
            ctx.count(f"n={n}" if n <= 5 else "n>5")
        # missing-value masks
        masks = []
        if 1 <= n <= 4:
            masks = list(itertools.product([0, 1], repeat=n))
            if quick and n == 4:
                masks = rng.sample(masks, 6)
        elif n > 4:
            masks = [tuple(int(nprng.rand() < 0.2) for _ in range(n))]
        for M in masks:
            for name, fn in (("vertline_mv", K._vertline_dist_missingvalues),
                             ("diagline_mv", K._diagline_dist_missingvalues)):
                reqs.append(f"{name} {n} {enc_mat(R)} {enc_vec(M)}")
                impl.append(kernel_call(fn, n, R, M))
                meta.append((name, n, R, M))
                ctx.case((name, n, R.tobytes().hex(), M), nontriv and any(M))
                ctx.count(f"kernel:{name}")
    bad, model = ctx.correspond("Lean LineDist model == compiled _line_dist wrappers", reqs, impl)
    ctx.extra["kernel_calls_compared"] = len(reqs)

    # ---------------- oracle on the kernels (independent run-length count) ---
    for i, (name, n, R, M) in enumerate(meta):
        if name == "vertline":
            exp = oracle_hist(rows(R, 1), n)
        elif name == "whitevertline":
            exp = oracle_hist(rows(R, 0), n)
        elif name == "diagline":
            exp = oracle_hist(lower_diags(R), n)
        elif name == "vertline_mv":
            exp = oracle_lines_mv([[(bool(R[a][b]), bool(M[a] or M[b])) for b in range(n)]
                                   for a in range(n)], n)
        else:
            exp = oracle_lines_mv([[(bool(R[d + j][j]), bool(M[d + j] or M[j]))
                                    for j in range(n - d)] for d in range(n - 1, 0, -1)], n)
        if impl[i] != enc_vec(exp):
            ctx.fail({"kind": "kernel", "kernel": name},
                     f"{name} kernel differs from direct run-length count",
                     {"kernel": name, "n": n, "R": enc_mat(R), "M": M,
                      "expected": exp, "observed": impl[i]})

    # ---------------- object level ------------------------------------------
    objs = []
    for n in range(2, 5 if quick else 6):
        ms = list(sym_matrices(n))
        if quick and n == 4:
            ms = rng.sample(ms, 24)
        if not quick and n == 5:
            ms = rng.sample(ms, 300)
        objs.extend(ms)
    for _ in range(20 if quick else 200):
        n = rng.randrange(6, 25 if quick else 60)
        R = (nprng.rand(n, n) < rng.choice([0.2, 0.5, 0.8])).astype(np.int8)
        R = np.triu(R) | np.triu(R).T
        np.fill_diagonal(R, 1)
        objs.append(R)

    oreqs, oimpl, ometa = [], [], []
    for R in objs:
        n = R.shape[0]
        ts = kuratowski(R)
        for sparse in (False, True):
            try:
                rp = RecurrencePlot(ts, metric="supremum", threshold=1.5,
                                    sparse_rqa=sparse, silence_level=3)
                if not sparse:
                    Rm = rp.recurrence_matrix()
                    if not np.array_equal(Rm, R):
                        # C07's business; the crafted series must realise R
                        ctx.fail({"kind": "craft"}, "crafted series does not realise R",
                                 {"R": enc_mat(R), "got": enc_mat(Rm)})
                        continue
                d = rp.diagline_dist()
                v = rp.vertline_dist()
                w = rp.white_vertline_dist() if not sparse else None
            except NotImplementedError:
                continue
            ctx.count(f"object:sparse={sparse}")
            ctx.case(("obj", sparse, R.tobytes().hex()), True,
                     {"object": "RecurrencePlot", "sparse_rqa": sparse, "R": enc_mat(R)}
                     if n <= 4 else None)
            expd = [2 * x for x in oracle_hist(lower_diags(R), n)]
            expv = oracle_hist(rows(R, 1), n)
            expw = oracle_hist(rows(R, 0), n)
            for nm, got, exp in (("diagline_dist", d, expd), ("vertline_dist", v, expv),
                                 ("white_vertline_dist", w, expw)):
                if got is None:
                    continue
                if list(map(int, got)) != exp:
                    ctx.fail({"kind": "object", "method": nm, "sparse_rqa": sparse},
                             f"{nm}(sparse_rqa={sparse}) differs from run-length count of R",
                             {"time_series": ts.tolist(), "threshold": 1.5, "R": enc_mat(R),
                              "expected": exp, "observed": list(map(int, got))})
            if not sparse:
                # accounting identities on the implementation's own output
                ar = np.arange(1, n + 1)
                if int(ar @ v) != int(R.sum()) or int(ar @ w) != int(n * n - R.sum()) \
                        or int(ar @ d) != int(R.sum() - np.trace(R)):
                    ctx.fail({"kind": "object", "method": "accounting"},
                             "histograms do not account for every point exactly once",
                             {"time_series": ts.tolist(), "R": enc_mat(R)})
                # scalar measures as functions of the histograms
                for lmin in (1, 2, 3):
                    check_scalars(ctx, rp, n, expd, expv, expw, lmin, ts)

    scalar_correspondence(ctx)

    # ---------------- sequential vs matrix on generic float data ----------
    # (implementation-only stream: thresholds that are not float32-exact)
    nseq = 150 if quick else 1500
    for c in range(nseq):
        n = rng.randrange(2, 12)
        dim = rng.choice([1, 1, 2, 3])
        kind = rng.choice(["tenths", "float"])
        if kind == "tenths":
            ts = np.array([[rng.randrange(0, 8) / 10 for _ in range(dim)] for _ in range(n)])
            thr = rng.choice([0.1, 0.2, 0.3, 0.7, 0.35])
        else:
            ts = nprng.rand(n, dim)
            thr = float(nprng.rand())
        res = {}
        for sparse in (False, True):
            rp = RecurrencePlot(ts, metric="supremum", threshold=thr,
                                sparse_rqa=sparse, silence_level=3)
            res[sparse] = (list(map(int, rp.diagline_dist())),
                           list(map(int, rp.vertline_dist())))
        ctx.case(("seq", ts.tobytes().hex(), thr), True)
        ctx.count("object:sequential-vs-matrix:" + kind)
        if res[False] != res[True]:
            ctx.fail({"kind": "object", "method": "sequential_vs_matrix"},
                     "sparse_rqa=True histograms differ from matrix mode",
                     {"time_series": ts.tolist(), "threshold": thr,
                      "matrix_mode": res[False], "sequential_mode": res[True]})


SCAL = []   # (request, {measure: implementation value}) for the model correspondence


def scalar_correspondence(ctx):
    """the Lean `scalars` (numerators, denominators, maximal length, entropy weights) against the
    implementation's scalar RQA methods: value = num / (den + _epsilon), entropy = -sum p log p
    over the model's weights (numpy's log is not modelled)."""
    if not SCAL:
        return
    eps = 1e-8
    model = common.driver(ctx.pid, [r for r, _ in SCAL])
    bad = []
    ncmp = 0
    for (req, impl), ans in zip(SCAL, model):
        try:
            num, den, cnt, ml, wts = ans.split(" ")
            num, den, cnt, ml = int(num), int(den), int(cnt), int(ml)
            wts = [] if wts == "-" else [int(x) for x in wts.split(",")]
        except ValueError:
            bad.append(f"{req} :: model={ans[:80]}")
            continue
        p = np.array(wts, dtype=float) / (float(sum(wts)) + eps)
        exp = {"ratio": num / (den + eps), "avg": num / (cnt + eps), "max": ml,
               "entropy": float(-(p * np.log(p)).sum()) if wts else 0.0}
        for k, got in impl.items():
            ncmp += 1
            e = exp[k.split(":")[0]]
            if not abs(got - e) <= 1e-9 * max(1.0, abs(e)):
                bad.append(f"{req} :: {k} model={e} impl={got}")
    ctx.obligation(f"correspondence: Lean scalar RQA functions == RecurrencePlot scalar methods "
                   f"({len(SCAL)} histograms, {ncmp} values)", "correspondence", not bad,
                   "\n".join(bad[:6]))
    ctx.extra["scalar_values_compared"] = ncmp


def check_scalars(ctx, rp, n, d, v, w, lmin, ts):
    eps = 1e-8
    try:
        hs = {"d": rp.diagline_dist(), "v": rp.vertline_dist(), "w": rp.white_vertline_dist()}
        names = {"d": (("ratio:determinism", "determinism"), ("avg:average_diaglength", "average_diaglength"),
                       ("entropy:diag_entropy", "diag_entropy"), ("max:max_diaglength", "max_diaglength")),
                 "v": (("ratio:laminarity", "laminarity"), ("avg:trapping_time", "trapping_time"),
                       ("avg:average_vertlength", "average_vertlength"),
                       ("entropy:vert_entropy", "vert_entropy"), ("max:max_vertlength", "max_vertlength")),
                 "w": (("avg:mean_recurrence_time", "mean_recurrence_time"),
                       ("avg:average_white_vertlength", "average_white_vertlength"),
                       ("entropy:white_vert_entropy", "white_vert_entropy"),
                       ("max:max_white_vertlength", "max_white_vertlength"))}
        for key, h in hs.items():
            impl = {}
            for tag, nm in names[key]:
                impl[tag] = float(getattr(rp, nm)() if tag.startswith("max") else getattr(rp, nm)(lmin))
            SCAL.append((f"scalars {lmin} " + (",".join(str(int(x)) for x in h) or "-"), impl))
    except Exception:  # noqa  (exceptions are reported by the oracle part below)
        pass

    def psum(h, m):
        return sum((i + 1) * h[i] for i in range(m - 1, len(h)))

    def pcnt(h, m):
        return sum(h[i] for i in range(m - 1, len(h)))

    def mx(h):
        nz = [i + 1 for i, x in enumerate(h) if x]
        return max(nz) if nz else 0

    def ent(h, m):
        hh = np.array(h[m - 1:], dtype=float)
        hh = hh[hh != 0]
        if hh.size == 0:
            return 0.0
        p = hh / (hh.sum() + eps)   # the documented numerical-stability term
        return float(-(p * np.log(p)).sum())

    exp = {
        "determinism": psum(d, lmin) / (psum(d, 1) + eps),
        "average_diaglength": psum(d, lmin) / (pcnt(d, lmin) + eps),
        "laminarity": psum(v, lmin) / (psum(v, 1) + eps),
        "average_vertlength": psum(v, lmin) / (pcnt(v, lmin) + eps),
        "trapping_time": psum(v, lmin) / (pcnt(v, lmin) + eps),
        "average_white_vertlength": psum(w, lmin) / (pcnt(w, lmin) + eps),
        "mean_recurrence_time": psum(w, lmin) / (pcnt(w, lmin) + eps),
        "diag_entropy": ent(d, lmin),
        "vert_entropy": ent(v, lmin),
        "white_vert_entropy": ent(w, lmin),
    }
    for nm, e in exp.items():
        try:
            got = float(getattr(rp, nm)(lmin))
        except Exception as ex:  # noqa
            ctx.fail({"kind": "scalar", "method": nm, "error": type(ex).__name__},
                     f"{nm}({lmin}) raised {type(ex).__name__}: {ex}",
                     {"time_series": ts.tolist(), "l_min": lmin})
            continue
        if not (abs(got - e) <= 1e-9 * max(1.0, abs(e))):
            ctx.fail({"kind": "scalar", "method": nm},
                     f"{nm}({lmin}) = {got}, stated function of the histogram gives {e}",
                     {"time_series": ts.tolist(), "l_min": lmin, "expected": e, "observed": got})
    if lmin == 1:
        for nm, e in (("max_diaglength", mx(d)), ("max_vertlength", mx(v)),
                      ("max_white_vertlength", mx(w))):
            got = int(getattr(rp, nm)())
            if got != e:
                ctx.fail({"kind": "scalar", "method": nm}, f"{nm}() = {got}, expected {e}",
                         {"time_series": ts.tolist(), "expected": e, "observed": got})
