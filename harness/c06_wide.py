"""C06, round 3: (1) dynamic validation of the kernel write-set / call-site provenance tables of
translate/gen_C06.py, (2) constructors and (3) array-taking functions discovered by inspecting
the package, driven with caller arrays in both float widths, C / Fortran / strided layouts and
read-only flags.
"""
import copy
import importlib
import inspect
import pkgutil
import sys

import numpy as np

from .c01 import quiet, same, brief, SKIP_QUERIES


# ----------------------------------------------------------------------------------------------
# (1) kernels
# ----------------------------------------------------------------------------------------------

def _snap(a):
    if isinstance(a, np.ndarray):
        return a.copy()
    if isinstance(a, (list, dict)):
        return copy.deepcopy(a)
    return None


def _changed(a, s):
    if isinstance(a, np.ndarray):
        if a.shape != s.shape:
            return True
        if a.dtype.kind in "fc":
            return not bool(np.array_equal(a, s, equal_nan=True))
        return not bool(np.array_equal(a, s))
    return a != s


class KernelWatch:
    """wraps every compiled kernel where the Python modules imported it: snapshots the array /
    list arguments, calls the kernel, records which parameters changed (-> must be in the static
    write set) and whether an argument shares memory with an object of `self.pool` (cached
    results, fields, caller inputs of the object under test; -> static provenance must not be
    `fresh`, and a written parameter must never receive such an object)."""

    def __init__(self, eff):
        self.kernels = eff["kernels"]
        self.static_calls = {}
        for c in eff["kernel_calls"]:
            for a in c["args"]:
                self.static_calls.setdefault((c["module"], c["func"], c["kernel"], a["param"]),
                                             set()).add(a["prov"])
        self.no_wrap = {c["kernel"] for c in eff["kernel_calls"] if c.get("via") == "partial"}
        self.pool = []            # objects that are shared (filled by the harness)
        self.context = None       # what the harness is doing (for replays)
        self.calls = {}           # kernel -> number of observed executions
        self.written = set()      # (kernel, param) observed to change
        self.shared_seen = set()  # (module, func, kernel, param) observed to receive a shared object
        self.bad_writes = []      # observed write outside the static write set
        self.bad_prov = []        # observed shared object where the table says fresh
        self.shared_written = []  # observed write into a shared object
        self.installed = []

    def install(self):
        import pyunicorn  # noqa
        for m in pkgutil.walk_packages(pyunicorn.__path__, "pyunicorn."):
            if "._ext" in m.name or m.name.endswith(".mpi"):
                continue
            try:
                importlib.import_module(m.name)
            except Exception:  # noqa
                continue
        for mname, mod in list(sys.modules.items()):
            if not mname.startswith("pyunicorn.") or "._ext" in mname or mod is None:
                continue
            rel = "/".join(mname.split(".")[1:]) + ".py"
            for attr, v in list(vars(mod).items()):
                vm = getattr(v, "__module__", "") or ""
                if callable(v) and vm.endswith("_ext.numerics") and not inspect.isclass(v):
                    key = f"{vm.split('.')[1]}:{getattr(v, '__name__', attr)}"
                    if key in self.kernels and key not in self.no_wrap:
                        setattr(mod, attr, self._wrap(key, v, rel))
                        self.installed.append((mod, attr, v))

    def uninstall(self):
        for mod, attr, v in self.installed:
            setattr(mod, attr, v)
        self.installed = []

    def _wrap(self, key, fn, rel):
        params = self.kernels[key]["params"]
        names = [p["name"] for p in params]
        static_w = {p["name"] for p in params if p["written"]}
        watch = self

        def wrapped(*args, **kw):
            bound = list(zip(names, args)) + list(kw.items())
            snaps = [(n, a, _snap(a)) for n, a in bound]
            snaps = [(n, a, s) for n, a, s in snaps if s is not None]
            func = sys._getframe(1).f_code.co_name
            shared = set()
            for n, a, _ in snaps:
                if isinstance(a, np.ndarray) and any(
                        isinstance(p, np.ndarray) and np.may_share_memory(a, p) for p in watch.pool):
                    shared.add(n)
                    watch.shared_seen.add((rel, func, key, n))
                    st = watch.static_calls.get((rel, func, key, n))
                    if st is not None and st <= {"fresh"}:
                        watch.bad_prov.append(f"{rel}:{func} passes a shared object to {key}({n}) "
                                              f"but the call-site table says fresh")
            try:
                return fn(*args, **kw)
            finally:
                watch.calls[key] = watch.calls.get(key, 0) + 1
                for n, a, s in snaps:
                    if _changed(a, s):
                        watch.written.add((key, n))
                        if n not in static_w:
                            watch.bad_writes.append(f"{key} stores into `{n}` (not in its static "
                                                    f"write set {sorted(static_w)})")
                        if n in shared:
                            watch.shared_written.append(
                                {"kernel": key, "param": n, "site": f"{rel}:{func}",
                                 "context": watch.context})
        wrapped.__name__ = getattr(fn, "__name__", "kernel")
        wrapped.__wrapped_kernel__ = fn
        return wrapped

    def report(self, ctx):
        defs = {k for k, v in self.kernels.items() if v["kind"] == "def"}
        for k in sorted(defs):
            ctx.count("kernel-executions:" + ("0" if not self.calls.get(k) else
                                              "1-9" if self.calls[k] < 10 else "10+"))
        never = sorted(defs - set(self.calls))
        static_w = {(k, p["name"]) for k, v in self.kernels.items() for p in v["params"]
                    if p["written"] and v["kind"] == "def"}
        ctx.extra["kernel_tables"] = {
            "kernels": len(self.kernels), "def_kernels": len(defs),
            "executed": len(set(self.calls) & defs), "never_executed": never,
            "executions": sum(self.calls.values()),
            "static_written_params": len(static_w),
            "observed_written_params": len(self.written),
            "static_written_never_observed": sorted(f"{k}({p})" for k, p in static_w - self.written
                                                    if k in self.calls),
            "call_sites_receiving_shared_objects": len(self.shared_seen)}
        ctx.obligation(f"kernel write sets read from the .pyx/.c text cover every store observed at "
                       f"run time ({sum(self.calls.values())} executions of {len(set(self.calls))} "
                       f"kernels, {len(self.written)} written parameters observed)",
                       "correspondence", not self.bad_writes, "\n".join(sorted(set(self.bad_writes))[:8]))
        ctx.obligation(f"call-site provenance table: no argument observed to share memory with a "
                       f"cached result / field / caller input is classified fresh "
                       f"({len(self.shared_seen)} shared (site, parameter) pairs observed)",
                       "correspondence", not self.bad_prov, "\n".join(sorted(set(self.bad_prov))[:8]))
        seen = set()
        for w in self.shared_written:
            sig = {"kind": "kernel-writes-shared", "kernel": w["kernel"], "param": w["param"]}
            if (w["kernel"], w["param"]) in seen:
                continue
            seen.add((w["kernel"], w["param"]))
            ctx.fail(sig, f"{w['site']}: kernel {w['kernel']} stores into its parameter "
                          f"`{w['param']}`, which is an object shared with the caller / cache "
                          f"(while: {w['context']})", w)


# ----------------------------------------------------------------------------------------------
# (2)/(3) discovery by inspection
# ----------------------------------------------------------------------------------------------

SKIP_MODULES = ("._ext", ".mpi", "map_plot", "navigator", "netcdf_dictionary", "utils.")
SKIP_METHOD_WORDS = ("save", "plot", "print", "load", "export", "write", "cache_clear", "draw",
                     "show")


def package_members():
    """(classes, functions): public classes defined in the package and public module-level
    functions / staticmethods / classmethods, found by walking the package"""
    import pyunicorn
    classes, functions = {}, {}
    for m in pkgutil.walk_packages(pyunicorn.__path__, "pyunicorn."):
        if any(s in m.name for s in SKIP_MODULES):
            continue
        try:
            mod = importlib.import_module(m.name)
        except Exception:  # noqa
            continue
        for n, c in inspect.getmembers(mod):
            if n.startswith("_") or getattr(c, "__module__", None) != mod.__name__:
                continue
            if inspect.isclass(c):
                if issubclass(c, BaseException):
                    continue
                classes[c.__name__] = c
                for an, av in vars(c).items():
                    if an.startswith("_"):
                        continue
                    if isinstance(av, staticmethod):
                        functions[f"{c.__name__}.{an}"] = (getattr(c, an), av.__func__)
                    elif isinstance(av, classmethod):
                        functions[f"{c.__name__}.{an}"] = (getattr(c, an), av.__func__)
            elif inspect.isfunction(c):
                functions[f"{mod.__name__.split('.', 1)[1]}.{n}"] = (c, c)
    return classes, functions


def layouts(quick):
    """(tag, transform): transform(array) -> (array handed to the library, owner buffer)"""
    def strided(a):
        big = np.zeros(tuple(2 * s for s in a.shape), dtype=a.dtype)
        view = big[tuple(slice(None, None, 2) for _ in a.shape)]
        view[...] = a
        return view, big

    def ro(a):
        b = a.copy()
        b.setflags(write=False)
        return b, b

    out = [("C", lambda a: (np.ascontiguousarray(a), None)),
           ("F", lambda a: (np.asfortranarray(a), None)),
           ("strided", strided), ("readonly", ro)]
    return out


class Recipes:
    """argument values by parameter name (what kind of thing the parameter is cannot be found by
    inspection; which constructors / functions exist, and which of their parameters are arrays,
    is).  Every array handed out is registered in `self.arrays`."""

    def __init__(self, nprng, dtype, layout_fn, owner_cls_module=""):
        self.r, self.dt, self.lay, self.mod = nprng, dtype, layout_fn, owner_cls_module
        self.arrays = {}      # name -> (array given, pristine copy, owner buffer, owner copy)
        self._grid = None

    def arr(self, name, a, keep_dtype=False):
        a = np.asarray(a)
        if a.dtype.kind == "f" and not keep_dtype:
            a = a.astype(self.dt)
        given, owner = self.lay(a)
        self.arrays[name] = (given, given.copy(), owner, None if owner is None else owner.copy())
        return given

    def grid(self, n=5):
        from pyunicorn.core import GeoGrid
        return GeoGrid(np.arange(36.), np.linspace(0., 40., n), np.linspace(0., 80., n))

    def adjacency(self, n=6):
        A = (self.r.rand(n, n) < 0.5).astype(int)
        A = np.triu(A, 1)
        A[0, 1] = 1
        return A + A.T

    def value(self, name, cls_name=""):
        r = self.r
        climate = ".climate." in self.mod + "."
        if name in ("time_series",):
            return self.arr(name, r.rand(20) * 3)
        if name in ("x", "y"):
            return self.arr(name, r.rand(20) * 3)
        if name == "original_data":
            return self.arr(name, r.rand(3, 16) * 3 + 1)
        if name in ("adjacency",):
            return self.arr(name, self.adjacency())
        if name == "node_weights":
            return self.arr(name, r.rand(6) + 0.5)
        if name == "resistances":
            A = self.adjacency()
            R = np.triu(A * (r.rand(6, 6) + 0.5), 1)
            return self.arr(name, R + R.T)
        if name == "observable":
            return self.arr(name, r.rand(36, 5) * 4 - 2)
        if name == "grid":
            n = 6 if cls_name in ("GeoNetwork", "SpatialNetwork") else 5
            return self.grid(n)
        if name == "data":
            if climate:
                from pyunicorn.climate import ClimateData
                obs = self.arr("observable", r.rand(36, 5) * 4 - 2)
                return quiet(ClimateData, observable=obs, grid=self.grid(), time_cycle=12,
                             silence_level=3)
            if cls_name.startswith("EventSeries"):
                return self.arr(name, (r.rand(30, 3) < 0.3).astype(float))
            return self.arr(name, r.rand(40, 3) * 4 - 2)
        if name == "dataarray":
            return self.arr(name, r.rand(40, 3) * 4 - 2)
        if name in ("time_seq",):
            return self.arr(name, np.arange(6.))
        if name in ("lat_seq", "lon_seq"):
            return self.arr(name, np.linspace(0., 50., 6) + (3 if name == "lon_seq" else 0))
        if name == "space_seq":
            return self.arr(name, r.rand(2, 6))
        if name in ("similarity_measure",):
            n = 10 if cls_name.startswith("Coupled") else 5
            S = r.rand(n, n) * 2 - 1
            S = (S + S.T) / 2
            np.fill_diagonal(S, 1.0)
            return self.arr(name, S)
        if name in ("grid_1", "grid_2"):
            return self.grid(5)
        if name in ("data_1", "data_2"):
            from pyunicorn.climate import ClimateData
            obs = self.arr("observable_" + name[-1], r.rand(36, 5) * 4 - 2)
            return quiet(ClimateData, observable=obs, grid=self.grid(), time_cycle=12,
                         silence_level=3)
        if name in ("eventseriesx", "eventseriesy"):
            return self.arr(name, (r.rand(30) < 0.3).astype(float))
        if name in ("lat", "lon", "lat_grid", "lon_grid"):
            return self.arr(name, np.linspace(5., 50., 4) + (3 if "lon" in name else 0))
        if name == "space_grid":
            return self.arr(name, np.array([[0., 1., 2.], [5., 6., 7.]]))
        if name == "pos":
            return self.arr(name, r.rand(3, 4))
        if name in ("weighted_A", "distance"):
            W = r.rand(6, 6)
            return self.arr(name, (W + W.T) / 2)
        if name == "matrix":
            return self.arr(name, self.adjacency())
        if name == "degree":
            return self.arr(name, np.array([2, 2, 2, 2, 1, 1]))
        if name == "array":
            return self.arr(name, r.rand(3, 40) if "nearest" in cls_name else r.rand(4, 3) * 10)
        if name == "xyz":
            return self.arr(name, np.array([1, 1, 1]))
        if name == "symb_array":
            return self.arr(name, r.randint(0, 4, size=(3, 20)))
        if name in ("rainfall",):
            return self.arr(name, r.rand(4, 12))
        if name == "anomaly":
            return self.arr(name, r.rand(12, 4))
        if name == "embedding":
            return self.arr(name, r.rand(20, 2))
        if name == "dist":
            return self.arr(name, r.rand(20) + 0.1)
        if name == "time_series_array":
            return self.arr(name, r.rand(3, 16))
        if name == "surrogates":
            return self.arr(name, r.rand(3, 16))
        if name == "timings":
            return self.arr(name, np.cumsum(r.rand(20) + 0.1))
        scalars = {"recurrence_rate": 0.2, "metric": "supremum", "M": 10, "k": 3, "gamma": 0.2,
                   "scale_fac": 2.0, "offset": 0.1, "event_threshold": (0.2, 0.8), "taumax": 3,
                   "T": 10, "i": 5, "N": 6, "p": 0.1, "decimals": 4, "obj": 1.23456,
                   "threshold": 0.5, "silence_level": 3, "time_cycle": 12, "max_delay": 3,
                   "dim": 2, "tau": 1, "window_fraction": 0.2, "var_type": "int16",
                   "dimension": 2, "delay": 1, "n_time": 20, "order": "C"}
        if name in scalars:
            return scalars[name]
        raise KeyError(name)


CTOR_EXTRA = {
    # keyword arguments the constructor needs beyond its required parameters (thresholds live in
    # **kwds of the recurrence classes)
    "RecurrencePlot": {"threshold": 0.5}, "RecurrenceNetwork": {"threshold": 0.5},
    "CrossRecurrencePlot": {"threshold": 0.5}, "JointRecurrencePlot": {"threshold": (0.5, 0.5)},
    "JointRecurrenceNetwork": {"threshold": (0.5, 0.5)},
    "InterSystemRecurrenceNetwork": {"threshold": (0.5, 0.5, 0.5)},
    "TsonisClimateNetwork": {"threshold": 0.3}, "SpearmanClimateNetwork": {"threshold": 0.3},
    "MutualInfoClimateNetwork": {"threshold": 0.3}, "HilbertClimateNetwork": {"threshold": 0.3},
    "PartialCorrelationClimateNetwork": {"threshold": 0.1},
    "HavlinClimateNetwork": {"threshold": 0.3, "max_delay": 3},
    "RainfallClimateNetwork": {"threshold": 0.3}, "ClimateNetwork": {"threshold": 0.3},
    "CoupledClimateNetwork": {"threshold": 0.3}, "CoupledTsonisClimateNetwork": {"threshold": 0.3},
    "EventSeriesClimateNetwork": {"threshold": 0.3, "taumax": 3},
}


def build(cls, rec, extra_flags):
    sig = inspect.signature(cls.__init__)
    kw = {}
    for pn, p in list(sig.parameters.items())[1:]:
        if p.kind in (p.VAR_POSITIONAL, p.VAR_KEYWORD):
            continue
        if p.default is inspect._empty or (pn in ("node_weights", "adjacency", "timings")
                                           and cls.__name__ != "ResNetwork"):
            kw[pn] = rec.value(pn, cls.__name__)
        elif pn == "silence_level":
            kw[pn] = 3
    for k, v in CTOR_EXTRA.get(cls.__name__, {}).items():
        if k in sig.parameters or any(p.kind == p.VAR_KEYWORD for p in sig.parameters.values()):
            kw[k] = v
    kw.update({k: v for k, v in extra_flags.items() if k in sig.parameters})
    return quiet(cls, **kw), kw


def check_arrays(ctx, rec, sig_base, what, replay):
    """compare every handed-out array (and the buffer owning a strided view) with its copy"""
    bad = False
    for name, (given, pristine, owner, owner0) in rec.arrays.items():
        edited = given.shape != pristine.shape or given.dtype != pristine.dtype or \
            _changed(given, pristine) or (owner is not None and _changed(owner, owner0))
        if edited:
            bad = True
            ctx.fail(dict(sig_base, argument=name), f"{what} modifies the caller's array `{name}`",
                     dict(replay, argument=name, values_before=brief(pristine.reshape(-1)[:8]),
                          values_after=brief(np.asarray(given).reshape(-1)[:8])))
            rec.arrays[name] = (given, given.copy(), owner, None if owner is None else owner.copy())
    return bad


def zero_arg_methods(obj):
    out = []
    for n in sorted(dir(type(obj))):
        if n.startswith("_") or n[:1].isupper() or n in SKIP_QUERIES or \
                any(w in n.lower() for w in SKIP_METHOD_WORDS):
            continue
        raw = inspect.getattr_static(type(obj), n)
        if isinstance(raw, (property, staticmethod, classmethod)):
            continue
        f = getattr(obj, n, None)
        if not callable(f):
            continue
        try:
            sig = inspect.signature(f)
        except (TypeError, ValueError):
            continue
        if all(p.default is not inspect._empty or p.kind in (p.VAR_POSITIONAL, p.VAR_KEYWORD)
               for p in sig.parameters.values()):
            out.append(n)
    return out


def constructors_by_inspection(ctx, watch=None):
    rng = ctx.rng
    quick = ctx.tier == "quick"
    classes, _ = package_members()
    ctx.extra.setdefault("inspected", {})["classes"] = len(classes)
    built, unbuildable = set(), {}
    for cname, cls in sorted(classes.items()):
        flagsets = [{}]
        try:
            params = inspect.signature(cls.__init__).parameters
        except (TypeError, ValueError):
            continue
        if "normalize" in params:
            flagsets = [{"normalize": False}, {"normalize": True}]
        for dt in (np.float64, np.float32):
            for ltag, lay in layouts(quick):
                for flags in flagsets:
                    nprng = np.random.RandomState(rng.randrange(2 ** 31))
                    rec = Recipes(nprng, dt, lay, cls.__module__)
                    tag = f"{cname}({dt.__name__},{ltag}" + "".join(
                        f",{k}={v}" for k, v in flags.items()) + ")"
                    try:
                        obj, kw = build(cls, rec, flags)
                    except KeyError as ex:
                        unbuildable[cname] = f"no recipe for parameter {ex}"
                        break
                    except Exception as ex:  # noqa
                        msg = f"{type(ex).__name__}: {ex}"
                        if ltag == "readonly" and "read-only" in msg.lower():
                            ctx.fail({"kind": "readonly-input-raises", "constructor": cname},
                                     f"{tag} raises on a read-only input array although it is not "
                                     f"documented as in-place: {msg[:200]}",
                                     {"constructor": cname, "dtype": dt.__name__, "flags": flags,
                                      "error": msg[:300]})
                        else:
                            ctx.count(f"ctor-raises:{cname}:{ltag}:{type(ex).__name__}")
                            unbuildable.setdefault(cname, msg[:120])
                        continue
                    if not rec.arrays:
                        break
                    built.add(cname)
                    sigb = {"kind": "caller-array-edited", "constructor": cname}
                    rp = {"constructor": cname, "dtype": dt.__name__, "layout": ltag, "flags": flags}
                    ctx.case(("ctor", tag), True, rp)
                    check_arrays(ctx, rec, dict(sigb, after="__init__"), tag, dict(rp, after="__init__"))
                    meths = zero_arg_methods(obj)
                    if quick and len(meths) > 10:
                        meths = rng.sample(meths, 10)
                    if watch is not None:
                        watch.pool = [g for g, _, _, _ in rec.arrays.values()] + \
                            [v for v in vars(obj).values() if isinstance(v, np.ndarray)]
                    for m in meths:
                        if watch is not None:
                            watch.context = f"{tag}.{m}()"
                        try:
                            quiet(getattr(obj, m))
                        except Exception as ex:  # noqa
                            msg = str(ex)
                            if ltag == "readonly" and "read-only" in msg.lower():
                                ctx.fail({"kind": "readonly-input-raises", "constructor": cname,
                                          "after": m},
                                         f"{tag}.{m}() raises on a read-only input array: {msg[:200]}",
                                         dict(rp, after=m, error=msg[:300]))
                            ctx.count(f"ctor-method-raises:{cname}")
                        ctx.case(("ctor-method", tag, m), True)
                        check_arrays(ctx, rec, dict(sigb, after=m), f"{tag}.{m}()", dict(rp, after=m))
                    if watch is not None:
                        watch.pool = []
                else:
                    continue
                break
            else:
                continue
            break
    for c in sorted(set(unbuildable) - built):
        ctx.count("ctor-not-built:" + c)
    ctx.extra["inspected"]["classes_built_from_caller_arrays"] = sorted(built)
    ctx.extra["inspected"]["classes_not_built"] = {c: unbuildable[c] for c in
                                                   sorted(set(unbuildable) - built)}


def functions_by_inspection(ctx):
    """every public function / staticmethod / classmethod with at least one parameter for which
    an array recipe exists: the arrays it is given must come back unchanged unless its docstring
    says it works in place"""
    rng = ctx.rng
    _, functions = package_members()
    ctx.extra.setdefault("inspected", {})["functions"] = len(functions)
    called, skipped = set(), {}
    for fname, (bound, raw) in sorted(functions.items()):
        doc = (raw.__doc__ or "").lower()
        documented = "in place" in doc or "in-place" in doc or "inplace" in doc
        try:
            sig = inspect.signature(bound)
        except (TypeError, ValueError):
            continue
        if any(w in fname.lower() for w in SKIP_METHOD_WORDS):
            continue
        for dt in (np.float64, np.float32):
            for ltag, lay in layouts(False):
                nprng = np.random.RandomState(rng.randrange(2 ** 31))
                rec = Recipes(nprng, dt, lay, getattr(raw, "__module__", ""))
                kw = {}
                try:
                    for pn, p in sig.parameters.items():
                        if p.kind in (p.VAR_POSITIONAL, p.VAR_KEYWORD):
                            continue
                        if p.default is inspect._empty:
                            kw[pn] = rec.value(pn, fname)
                except KeyError as ex:
                    skipped[fname] = f"no recipe for parameter {ex}"
                    break
                if not rec.arrays:
                    skipped[fname] = "takes no array"
                    break
                tag = f"{fname}({dt.__name__},{ltag})"
                err = None
                try:
                    quiet(bound, **kw)
                except Exception as ex:  # noqa  (a raising call must not edit its input either)
                    err = f"{type(ex).__name__}: {ex}"
                    ctx.count(f"function-raises:{fname}:{type(ex).__name__}")
                called.add(fname)
                ctx.case(("function", tag), True, {"function": fname, "dtype": dt.__name__,
                                                   "layout": ltag})
                if documented:
                    ctx.count("function-documented-in-place:" + fname)
                    continue
                if err and ltag == "readonly" and "read-only" in err.lower():
                    ctx.fail({"kind": "readonly-input-raises", "function": fname},
                             f"{tag} raises on a read-only input array although it is not "
                             f"documented as in-place: {err[:200]}",
                             {"function": fname, "dtype": dt.__name__, "error": err[:300]})
                check_arrays(ctx, rec, {"kind": "caller-array-edited", "function": fname}, tag,
                             {"function": fname, "dtype": dt.__name__, "layout": ltag})
            else:
                continue
            break
    ctx.extra["inspected"]["functions_called_with_arrays"] = sorted(called)
    ctx.extra["inspected"]["functions_without_array_recipe"] = len(skipped)
    for f in sorted(set(skipped) - called):
        ctx.count("function-not-called:" + skipped[f].split(" '")[0][:40])


# ----------------------------------------------------------------------------------------------
# public entry points of the kernels that the class specs do not reach (non-default arguments)
# ----------------------------------------------------------------------------------------------

def kernel_drive(ctx, watch):
    """calls, under the kernel watch, public methods with the non-default arguments that select
    the remaining compiled kernels; every caller array is compared with its copy afterwards and
    every object involved is in the watch's pool"""
    from pyunicorn.core import Network, GeoGrid, SpatialNetwork, InteractingNetworks, ResNetwork, Grid
    from pyunicorn.timeseries import RecurrencePlot, Surrogates, VisibilityGraph
    from pyunicorn.funcnet import CouplingAnalysis
    rng = ctx.rng
    for dt in (np.float64, np.float32):
        r = np.random.RandomState(rng.randrange(2 ** 31))
        held = {}

        def arr(name, a):
            a = np.asarray(a)
            if a.dtype.kind == "f":
                a = a.astype(dt)
            held[name] = (a, a.copy())
            return a
        n = 8
        A = (r.rand(n, n) < 0.6).astype(int)
        A = np.triu(A, 1)
        A = arr("adjacency", A + A.T)
        ts = arr("time_series", r.rand(30) * 3)
        ts_nan = ts.copy()
        ts_nan[[3, 11]] = np.nan
        ts_nan = arr("time_series_nan", ts_nan)
        od = arr("original_data", r.rand(3, 24) * 3)
        res = np.triu(np.asarray(A, dtype=float) * (r.rand(n, n) + 0.5), 1)
        res = arr("resistances", res + res.T)
        space = arr("space_seq", r.rand(2, n))
        cdata = arr("coupling_data", r.rand(40, 3))

        def net():
            return Network(adjacency=A, node_weights=arr("node_weights", r.rand(n) + 0.5),
                           silence_level=3)

        def snet():
            return SpatialNetwork(Grid(np.arange(3.), space, silence_level=3), adjacency=A,
                                  silence_level=3)

        def inet():
            return InteractingNetworks(adjacency=A, silence_level=3)
        l1, l2 = [0, 1, 2, 3], [4, 5, 6, 7]

        def symmetrize():
            # a public method that takes two arrays (already in the kernel's dtypes, so that a
            # conversion without copy would alias them) and hands them to a kernel that writes
            c = CouplingAnalysis(cdata, silence_level=3)
            sm, lm = c.cross_correlation(tau_max=2, lag_mode="max")
            held["similarity_matrix"], held["lag_matrix"] = (sm, sm.copy()), (lm, lm.copy())
            watch.pool += [sm, lm]
            return c.symmetrize_by_absmax(sm, lm)
        plans = [
            ("Network.local_cliquishness(4)", lambda: net().local_cliquishness(4)),
            ("Network.local_cliquishness(5)", lambda: net().local_cliquishness(5)),
            ("Network.nsi_betweenness", lambda: net().nsi_betweenness()),
            ("Network.newman_betweenness", lambda: net().newman_betweenness()),
            ("Network.nsi_newman_betweenness", lambda: net().nsi_newman_betweenness()),
            ("InteractingNetworks.nsi_cross_local_clustering",
             lambda: inet().nsi_cross_local_clustering(l1, l2)),
            ("InteractingNetworks.nsi_cross_transitivity",
             lambda: inet().nsi_cross_transitivity(l1, l2)),
            ("InteractingNetworks.cross_local_clustering",
             lambda: inet().cross_local_clustering(l1, l2)),
            ("InteractingNetworks.cross_transitivity", lambda: inet().cross_transitivity(l1, l2)),
            ("InteractingNetworks.RandomlySetCrossLinks",
             lambda: InteractingNetworks.RandomlySetCrossLinks(inet(), l1, l2, number_cross_links=3)),
            # (the rewiring kernels loop until enough random swaps succeed and need not terminate
            #  on arbitrary inputs; they are driven by C17's check)
            ("ResNetwork.vertex_current_flow_betweenness",
             lambda: ResNetwork(res, silence_level=3).vertex_current_flow_betweenness(1)),
            ("ResNetwork.edge_current_flow_betweenness",
             lambda: ResNetwork(res, silence_level=3).edge_current_flow_betweenness()),
            ("CouplingAnalysis.cross_correlation(max)",
             lambda: CouplingAnalysis(cdata, silence_level=3).cross_correlation(tau_max=2, lag_mode="max")),
            ("CouplingAnalysis.symmetrize_by_absmax", symmetrize),
            ("CouplingAnalysis.mutual_information(knn)",
             lambda: CouplingAnalysis(cdata, silence_level=3).mutual_information(
                 tau_max=1, estimator="knn", knn=3)),
            ("Surrogates.twin_surrogates",
             lambda: Surrogates(od, silence_level=3).twin_surrogates(2, 1, 0.4, min_dist=2)),
            ("Surrogates.test_pearson_correlation", lambda: (lambda s: s.test_pearson_correlation(
                s.original_data, s.white_noise_surrogates()))(Surrogates(od, silence_level=3))),
            ("Surrogates.test_mutual_information", lambda: (lambda s: s.test_mutual_information(
                s.original_data, s.white_noise_surrogates(), n_bins=4))(Surrogates(od, silence_level=3))),
            ("VisibilityGraph(missing_values)",
             lambda: VisibilityGraph(ts_nan, missing_values=True, silence_level=3).degree()),
            ("VisibilityGraph(horizontal)",
             lambda: VisibilityGraph(ts, horizontal=True, silence_level=3).degree()),
            ("VisibilityGraph.retarded/advanced clustering",
             lambda: (lambda v: (v.retarded_local_clustering(), v.advanced_local_clustering()))(
                 VisibilityGraph(ts, silence_level=3))),
        ]
        for metric in ("supremum", "euclidean", "manhattan"):
            plans += [
                (f"RecurrencePlot.bootstrap_distance_matrix({metric})",
                 lambda metric=metric: RecurrencePlot.bootstrap_distance_matrix(
                     arr("embedding", r.rand(20, 2)), metric, 30)),
                (f"RecurrencePlot({metric}, sparse_rqa)",
                 lambda metric=metric: (lambda o: (o.diagline_dist(), o.vertline_dist()))(
                     RecurrencePlot(ts, metric=metric, threshold=0.5, sparse_rqa=True, dim=2, tau=1,
                                    silence_level=3))),
                (f"RecurrencePlot({metric}, sparse_rqa, missing_values)",
                 lambda metric=metric: (lambda o: (o.diagline_dist(), o.vertline_dist()))(
                     RecurrencePlot(ts_nan, metric=metric, threshold=0.5, sparse_rqa=True,
                                    missing_values=True, silence_level=3))),
                (f"RecurrencePlot({metric}, missing_values)",
                 lambda metric=metric: (lambda o: (o.diagline_dist(), o.vertline_dist(),
                                                   o.white_vertline_dist()))(
                     RecurrencePlot(ts_nan, metric=metric, threshold=0.5, missing_values=True,
                                    silence_level=3))),
                (f"RecurrencePlot({metric}, adaptive_neighborhood_size)",
                 lambda metric=metric: RecurrencePlot(
                     ts, metric=metric, adaptive_neighborhood_size=0.2, dim=2, tau=2,
                     silence_level=3).recurrence_rate()),
                (f"RecurrencePlot({metric}).twin_surrogates",
                 lambda metric=metric: RecurrencePlot(
                     ts, metric=metric, threshold=0.8, silence_level=3).twin_surrogates(1, 2)),
                (f"RecurrencePlot({metric}).resample_diagline_dist",
                 lambda metric=metric: RecurrencePlot(
                     ts, metric=metric, threshold=0.8, silence_level=3).resample_diagline_dist(20)),
            ]
        plans.append(("RecurrencePlot.rejection_sampling",
                      lambda: RecurrencePlot.rejection_sampling(arr("dist", r.rand(20) + 0.1), 10)))
        plans.append(("RecurrencePlot.embed_time_series",
                      lambda: RecurrencePlot.embed_time_series(ts, 2, 1)))
        plans.append(("Surrogates.recurrence_plot",
                      lambda: Surrogates.recurrence_plot(arr("embedding2", r.rand(20, 2)), 0.5,
                                                         silence_level=3)))
        for name, call in plans:
            watch.pool = [a for a, _ in held.values()]
            watch.context = f"{name} [{dt.__name__}]"
            try:
                quiet(call)
            except Exception as ex:  # noqa
                ctx.count(f"kernel-drive-raises:{name}:{type(ex).__name__}")
            ctx.case(("kernel-drive", name, dt.__name__), True)
            for k, (a, a0) in list(held.items()):
                if a.shape != a0.shape or _changed(a, a0):
                    ctx.fail({"kind": "caller-array-edited", "call": name, "argument": k},
                             f"{name} [{dt.__name__}] modifies the caller's array `{k}`",
                             {"call": name, "dtype": dt.__name__, "argument": k,
                              "values_before": brief(a0.reshape(-1)[:8]),
                              "values_after": brief(a.reshape(-1)[:8])})
                    held[k] = (a, a.copy())
        watch.pool = []
