"""C06 — Queries are pure: no interference, inputs are never modified.

proof  : lean/Pyunicorn/Properties/C06.lean — `pure_of_clean` (a class without unrestored
         in-place edits returns fresh values on every query sequence and never touches
         fields or caller arguments) and `effects_clean` about the effect summaries that
         translate/gen_C06.py regenerates from the current source on every run.
tie    : * translator (every run)
         * correspondence: for query sequences on real objects the model (table built from
           the translator's summaries) predicts which answers differ from a fresh value;
           compared with the observed "value changed" flags
         * the exemptions of translate/fields_C06.json are re-validated dynamically
         * round 3: kernel write sets / call-site provenance / constructor aliases (tables of
           gen_C06.py, theorems kernel_calls_clean, ctor_aliases_unedited) validated by watching
           every compiled kernel for the whole run (harness/c06_wide.py: KernelWatch) and
           compared with the compiled model (driver requests kclean / kwritten / ctorclean)
         * round 4: named link-attribute slots written inside value-returning methods
           (translate/attrs_C06.py -> attrTables, theorems attr_queries_pure / attr_tables_ok): the
           compiled slot model predicts, per query chain on fresh twins of real objects, which
           answers differ from a fresh object and which generating expression each attribute left
           behind holds (harness/c06_attr.py)
         * round 5: the statement block around every restored temporary edit
           (translate/windows_C06.py -> windows, theorems window_invisible / windows_preserve /
           windows_ok): each block is executed on real objects under sys.settrace and the content of
           the cached array before every line, at the return and after a raising computation is
           compared with the compiled window model (harness/c06_window.py)
search : round 5: temporary content visible to any package frame, edit left behind after return or
         raise (default numpy error state and all="raise"; zero-length links, huge lengths).
         round 4: every public value-returning method is a query, whatever it writes (the measures
         that store a link attribute included); all queries in opposite orders on two fresh twins;
         integer link lengths; obligation listing the value-returning methods never queried.
         For every class spec (shared with C01): snapshot (deep copy) every cached value,
         every array field and every caller-supplied input, run one query, re-query
         everything: any change is an interference; constructors of derived objects on a
         shared ClimateData / on caller arrays; public functions taking arrays; every public
         class / function found by inspecting the package, float64/float32 x C/F/strided/read-only
         caller arrays, all zero-argument methods incl. mutators (harness/c06_wide.py).
"""
import contextlib
import copy
import io
import json
import os
import sys

import numpy as np

from . import common
from .c01 import SPECS, same, quiet, brief, query_variants, SKIP_QUERIES, skip_now, public_queries
from . import c06_wide
from . import c06_attr
from . import c06_window


def snap(v):
    try:
        return copy.deepcopy(v)
    except Exception:  # noqa
        return v


def array_fields(obj):
    out = {}
    for k, v in list(vars(obj).items()):
        if isinstance(v, np.ndarray):
            out[k] = v
    return out


def restore_preconditions(ctx, eff):
    """`editRestoreMask_id` needs every entry flagged by np.isinf to equal the constant written
    back (+inf: no -inf entry); `editRestoreDiag_id` needs the diagonal to hold the constant
    written back (0).  Both are facts about path-length matrices; they are probed here on the
    arrays the restored edits act on (path_lengths of Network objects, with and without a link
    attribute, connected or not, directed or not)."""
    from pyunicorn.core import Network
    rng = ctx.rng
    forms = sorted({(r["func"], r.get("form")) for r in eff["table"] if r["verdict"] == "restored"})
    bad = []
    n_arr = 0
    for rep in range(40):
        n = rng.randrange(2, 9)
        directed = rng.random() < 0.4
        A = np.zeros((n, n), dtype=int)
        for i in range(n):
            for j in range(n):
                if i != j and rng.random() < rng.choice([0.0, 0.2, 0.5]):
                    A[i, j] = 1
                    if not directed:
                        A[j, i] = 1
        net = Network(adjacency=A, directed=directed, silence_level=3)
        W = np.abs(np.random.RandomState(rep).randn(n, n)) + 0.1
        net.set_link_attribute("w", W if directed else (W + W.T) / 2)
        for key in ((None, "w") if A.any() else (None,)):
            P = quiet(net.path_lengths, key)
            n_arr += 1
            if np.isneginf(P).any():
                bad.append(f"path_lengths({key}) has a -inf entry: A={A.tolist()}")
            if P.shape[0] == P.shape[1] and np.any(np.diag(P) != 0):
                bad.append(f"path_lengths({key}) has a non-zero diagonal: A={A.tolist()}")
    ctx.obligation(f"preconditions of the restore theorems (no -inf entry, zero diagonal) hold on "
                   f"the arrays the restored edits act on ({n_arr} path-length matrices; restored "
                   f"edits: {forms})", "correspondence", not bad, "\n".join(bad[:5]))


def run(ctx):
    rng = ctx.rng
    quick = ctx.tier == "quick"
    ctx.rule = ("per class spec: every cached query q1 (x argument variant) is run between two "
                "evaluations of every other query q2; plus random query sequences, constructor "
                "input preservation and public array-taking functions; distinct = distinct "
                "(class, q1, q2) / (function, input); non-trivial = q2 returns an array or q1 != q2")
    ctx.proofs()
    # class tables (mutator names) for the query discovery: C01's structural translator, written
    # to a private file so that C01's own generated module is never touched from here
    own_tables = os.path.join(common.VERIF, ".build", f"c06-StructC01-{os.getpid()}.lean")
    common._run([sys.executable, os.path.join(common.VERIF, "translate", "gen_C01.py"), own_tables],
                env=dict(os.environ, VERIF_REPO=common.REPO))
    eff = json.load(open(os.path.join(common.LEAN, "Pyunicorn", "Generated", "StructC06.json")))
    ctx.extra["effect_summaries"] = {
        "in_table": len(eff["table"]), "all_inplace_statements": len(eff["all"]),
        "restored": sum(1 for r in eff["table"] if r["verdict"] == "restored"),
        "unrestored": [f'{r["module"]}:{r["cls"]}.{r["func"]}:{r["line"]}' for r in eff["table"]
                       if r["verdict"] == "unrestored"]}

    ctx.extra["effect_summaries"].update(
        kernel_call_sites=len(eff["kernel_calls"]), ctor_aliases=len(eff["ctor_aliases"]),
        field_edits=len(eff["field_edits"]), to_cy_copies=eff["to_cy_copies"])
    # compiled kernels are watched for the whole run: observed stores vs the static write sets,
    # observed sharing vs the static provenance of the call sites
    watch = c06_wide.KernelWatch(eff)
    watch.install()
    try:
        _run(ctx, eff, own_tables, watch)
    finally:
        watch.uninstall()
    watch.report(ctx)
    kernel_table_correspondence(ctx, eff, watch)


def kernel_table_correspondence(ctx, eff, watch):
    """the Lean model's `paramWritten` (a lookup in the generated tables, unknown = written) for
    every (kernel, parameter) seen at run time, against what was observed: an observed store must
    be a predicted one; plus the table checks themselves"""
    reqs, impl = ["kclean", "koffenders", "ctorclean", "ctoroffenders"], ["1", "-", "1", "-"]
    ctx.correspond("generated kernel / constructor tables pass the decidable checks in the "
                   "compiled model", reqs, impl)
    pairs = sorted({(k, p["name"]) for k, v in eff["kernels"].items() for p in v["params"]
                    if p["array"] and k in watch.calls})
    if pairs:
        ans = common.driver("C06", [f"kwritten {k} {p}" for k, p in pairs])
        bad = [f"{k}({p})" for (k, p), a in zip(pairs, ans) if (k, p) in watch.written and a != "1"]
        ctx.obligation(f"model predicts every store observed in a kernel parameter "
                       f"({len(pairs)} executed (kernel, array parameter) pairs, "
                       f"{sum(1 for a in ans if a == '1')} predicted written, "
                       f"{len(watch.written)} observed written)", "correspondence", not bad,
                       ", ".join(bad[:10]))


def _run(ctx, eff, own_tables, watch):
    rng = ctx.rng
    quick = ctx.tier == "quick"
    restore_preconditions(ctx, eff)
    funcnet_interference(ctx)

    reqs, impl = [], []
    tj = os.path.splitext(own_tables)[0] + ".json"
    tables = json.load(open(tj))["tables"] if os.path.exists(tj) else {}
    for f in (own_tables, tj):
        if os.path.exists(f):
            os.remove(f)
    rounds = [(cname, mk, r) for cname, mk in SPECS.items() for r in range(2 if quick else 8)]
    used, raised = {}, {}
    for cname, mk, rnd in rounds:
        spec = mk()
        cls = spec["cls"]
        if spec.get("only_summary"):
            continue
        # unrestored edits of cached results inside this class, as (editor, edited) names
        mro = {c.__name__ for c in cls.__mro__}
        static_pairs = {(r["func"], r["name"]) for r in eff["table"]
                        if r["verdict"] == "unrestored" and r["kind"] == "result" and r["cls"] in mro}
        obj = quiet(spec["make"], rng)
        inputs = {}
        for k, v in vars(obj).items():
            if k.startswith("_verif"):
                if isinstance(v, np.ndarray):
                    inputs[k] = v.copy()
                elif isinstance(v, tuple) and v and isinstance(v[0], np.ndarray):
                    inputs[k] = v[0].copy()
        queries = []
        # round 4: every public method that returns a value is a query, whatever it writes — the
        # measures that store a link attribute (classified as mutators by C01's table) included
        for m in c06_attr.all_queries(cls):
            for kw in query_variants(cls, m, spec["argsets"]):
                queries.append((m, kw))
        by_c01 = set(tables.get(cname, {}).get("mutators", {}))
        ctx.count(f"{cname}:attribute-setting-measures-as-queries",
                  len({m for m, _ in queries if m in by_c01}))
        usable = []
        base = {}
        for m, kw in queries:
            if skip_now(obj, m):
                continue
            try:
                base[(m, str(kw))] = snap(quiet(getattr(obj, m), **kw))
                usable.append((m, kw))
                used.setdefault(cname, set()).add(m)
            except Exception as ex:  # noqa
                ctx.count(f"{cname}:query-raises:{type(ex).__name__}")
                raised.setdefault(cname, set()).add(m)
        # repeated deterministic query returns an equal value
        for m, kw in usable:
            again = quiet(getattr(obj, m), **kw)
            if not same(again, base[(m, str(kw))]):
                ctx.fail({"kind": "repeat-differs", "class": cname, "query": m},
                         f"{cname}.{m}({kw}) returns a different value when repeated",
                         {"class": cname, "query": m, "args": kw,
                          "first": brief(base[(m, str(kw))]), "second": brief(again)})
        fields0 = {k: v.copy() for k, v in array_fields(obj).items()}
        # objects shared with the cache / the caller, for the kernel watch: the values the queries
        # returned (an lru hit returns the stored object itself), array fields, caller inputs
        live = []
        for m, kw in usable:
            try:
                v = quiet(getattr(obj, m), **kw)
            except Exception:  # noqa
                continue
            live += [x for x in (v if isinstance(v, (tuple, list)) else [v])
                     if isinstance(x, np.ndarray)]
        watch.pool = live + list(array_fields(obj).values()) + [
            (getattr(obj, k)[0] if isinstance(getattr(obj, k), tuple) else getattr(obj, k))
            for k in inputs]
        order = list(usable)
        if quick and len(order) > 28:
            order = rng.sample(order, 28)
        names = [m for m, kw in usable if not kw]
        for (m1, kw1) in order:
            watch.context = f"{cname}.{m1}({kw1})"
            try:
                quiet(getattr(obj, m1), **kw1)
            except Exception:  # noqa
                continue
            changed = []
            for (m2, kw2) in usable:
                try:
                    v = quiet(getattr(obj, m2), **kw2)
                except Exception:  # noqa
                    continue
                nontriv = isinstance(base[(m2, str(kw2))], np.ndarray) or m1 != m2
                ctx.case((cname, m1, str(kw1), m2, str(kw2)), nontriv,
                         {"class": cname, "q1": m1, "q2": m2} if len(ctx.samples) < 3 else None)
                if not same(v, base[(m2, str(kw2))]):
                    changed.append(m2)
                    ctx.fail({"kind": "interference", "class": cname, "q1": m1, "q2": m2},
                             f"{cname}: calling {m1}({kw1}) changes what {m2}({kw2}) returns",
                             {"class": cname, "q1": m1, "q1_args": kw1, "q2": m2, "q2_args": kw2,
                              "before": brief(base[(m2, str(kw2))]), "after": brief(v)})
                    base[(m2, str(kw2))] = snap(v)
            # model prediction for the same three-step experiment (q2; q1; q2) per q2
            if not kw1 and m1 in names:
                for m2 in names:
                    i1, i2 = names.index(m1), names.index(m2)
                    pairs = ",".join(f"{names.index(a)}:{names.index(b)}" for a, b in static_pairs
                                     if a in names and b in names) or "-"
                    reqs.append(f"run {len(names)} {pairs} {i2},{i1},{i2}")
                    impl.append("0,0," + ("1" if m2 in changed else "0"))
            ctx.count(f"{cname}:q1-rounds")
            # fields and caller inputs untouched
            for k, v0 in fields0.items():
                v1 = getattr(obj, k, None)
                if isinstance(v1, np.ndarray) and v1.shape == v0.shape and not same(v1, v0):
                    ctx.fail({"kind": "field-edited", "class": cname, "q1": m1, "field": k},
                             f"{cname}: calling {m1}({kw1}) modifies the array attribute {k} in place",
                             {"class": cname, "q1": m1, "field": k})
                    fields0[k] = v1.copy()
            for k, v0 in inputs.items():
                cur = getattr(obj, k)
                cur = cur[0] if isinstance(cur, tuple) else cur
                if not same(cur, v0):
                    ctx.fail({"kind": "input-edited", "class": cname, "q1": m1, "input": k},
                             f"{cname}: calling {m1}({kw1}) modifies the caller-supplied input {k}",
                             {"class": cname, "q1": m1, "input": k})
                    inputs[k] = cur.copy()
    watch.pool = []
    ctx.correspond("purity model over the translator's effect summaries predicts the observed "
                   "q2;q1;q2 interference flags", reqs, impl)

    # round 4: order independence against fresh twins, link-attribute slots, coverage
    watch.context = "order/attr oracles"
    for cname, mk in SPECS.items():
        spec = mk()             # incl. InteractingNetworks (node-list recipes)
        for _ in range(1 if quick else 3):
            c06_attr.order_oracle(ctx, cname, spec, used, quick)
    c06_attr.attr_oracle(ctx, eff, SPECS, used, quick)
    c06_attr.int_length_oracle(ctx, used, quick)
    c06_attr.coverage(ctx, eff, SPECS, used,
                      {c: {m for m in ms if m not in used.get(c, ())} for c, ms in raised.items()})

    watch.context = "window tie"
    c06_window.window_tie(ctx, eff, quick)
    constructors(ctx)
    array_functions(ctx)
    c06_wide.kernel_drive(ctx, watch)
    c06_wide.constructors_by_inspection(ctx, watch)
    c06_wide.functions_by_inspection(ctx)
    exemptions(ctx, eff)


def constructors(ctx):
    """derived objects built from caller arrays / a shared ClimateData leave them untouched"""
    rng = ctx.rng
    from pyunicorn.core import Network, GeoGrid, ResNetwork
    from pyunicorn.climate import (ClimateData, TsonisClimateNetwork, SpearmanClimateNetwork,
                                   MutualInfoClimateNetwork, HavlinClimateNetwork,
                                   PartialCorrelationClimateNetwork, HilbertClimateNetwork)
    from pyunicorn.timeseries import (RecurrencePlot, RecurrenceNetwork, Surrogates,
                                      VisibilityGraph, CrossRecurrencePlot, JointRecurrencePlot)
    T, n = 36, 5
    nprng = np.random.RandomState(rng.randrange(2 ** 31))
    obs = nprng.rand(T, n) * 4 - 2
    grid = GeoGrid(np.arange(float(T)), np.array([0., 10., 20., 30., 40.]),
                   np.array([0., 20., 40., 60., 80.]))

    def shared(cls, **kw):
        data = ClimateData(observable=obs.copy(), grid=grid, time_cycle=12, silence_level=3)
        probes = {"observable": snap(data.observable()), "anomaly": snap(quiet(data.anomaly)),
                  "phase_mean": snap(quiet(data.phase_mean))}
        try:
            net = quiet(cls, data, silence_level=3, **kw)
            quiet(net.similarity_measure)
        except Exception as ex:  # noqa
            ctx.count(f"constructor-raises:{cls.__name__}:{type(ex).__name__}")
            return
        for k, v0 in probes.items():
            v1 = quiet(getattr(data, k))
            ctx.case(("shared-data", cls.__name__, k), True,
                     {"constructor": cls.__name__, "shared": "ClimateData." + k})
            if not same(v0, v1):
                ctx.fail({"kind": "shared-data-edited", "class": cls.__name__, "probe": k},
                         f"constructing {cls.__name__} from a shared ClimateData changes what "
                         f"data.{k}() returns",
                         {"class": cls.__name__, "probe": k, "before": brief(v0)[:3],
                          "after": brief(v1)[:3]})
    for cls, kw in ((TsonisClimateNetwork, {"threshold": 0.3}),
                    (SpearmanClimateNetwork, {"threshold": 0.3}),
                    (PartialCorrelationClimateNetwork, {"threshold": 0.1}),
                    (MutualInfoClimateNetwork, {"threshold": 0.3}),
                    (HavlinClimateNetwork, {"max_delay": 3, "threshold": 0.3}),
                    (HilbertClimateNetwork, {"threshold": 0.3})):
        shared(cls, **kw)

    def caller(name, build, *arrays):
        before = [a.copy() for a in arrays]
        shapes = [a.shape for a in arrays]
        try:
            o = quiet(build, *arrays)
            for m in ("recurrence_rate", "determinism", "degree", "white_noise_surrogates",
                      "correlated_noise_surrogates", "AAFT_surrogates", "path_lengths",
                      "effective_resistance_closeness_centrality"):
                if hasattr(o, m):
                    try:
                        quiet(getattr(o, m))
                    except Exception:  # noqa
                        pass
        except Exception as ex:  # noqa
            ctx.count(f"constructor-raises:{name}:{type(ex).__name__}")
            return
        for i, (a0, a1) in enumerate(zip(before, arrays)):
            ctx.case(("caller-array", name, i), True, {"constructor": name, "argument": i})
            if a1.shape != shapes[i] or not same(a0, a1.reshape(a0.shape)):
                ctx.fail({"kind": "caller-array-edited", "constructor": name, "argument": i},
                         f"{name} modifies its input array #{i} in place",
                         {"constructor": name, "argument": i, "before": brief(a0)[:4],
                          "after": brief(a1)[:4]})
    from pyunicorn.timeseries import InterSystemRecurrenceNetwork, JointRecurrenceNetwork
    A = (nprng.rand(6, 6) < 0.5).astype(int)
    A = np.triu(A, 1)
    A = A + A.T
    w = nprng.rand(6) + 0.5
    # caller arrays in both float widths (a constructor that converts with copy=False aliases
    # the caller's array exactly when the dtype already matches) and in 1-D / 2-D layout
    for dt in (np.float64, np.float32):
        ts = (nprng.rand(20) * 3).astype(dt)
        ts2 = (nprng.rand(20, 2) * 3).astype(dt)
        tag = dt.__name__
        for norm in (False, True):
            caller(f"RecurrencePlot({tag}, normalize={norm})",
                   lambda x: RecurrencePlot(x, threshold=0.5, normalize=norm, silence_level=3),
                   ts.copy())
            caller(f"RecurrencePlot2d({tag}, normalize={norm})",
                   lambda x: RecurrencePlot(x, threshold=0.5, normalize=norm, silence_level=3),
                   ts2.copy())
            caller(f"RecurrenceNetwork({tag}, normalize={norm})",
                   lambda x: RecurrenceNetwork(x, threshold=0.5, normalize=norm, silence_level=3),
                   ts2.copy())
            caller(f"CrossRecurrencePlot({tag}, normalize={norm})",
                   lambda x, y: CrossRecurrencePlot(x, y, threshold=0.5, normalize=norm,
                                                    silence_level=3), ts.copy(), ts[::-1].copy())
            caller(f"JointRecurrencePlot({tag}, normalize={norm})",
                   lambda x, y: JointRecurrencePlot(x, y, threshold=(0.5, 0.5), normalize=norm,
                                                    silence_level=3), ts.copy(), ts[::-1].copy())
            caller(f"JointRecurrenceNetwork({tag}, normalize={norm})",
                   lambda x, y: JointRecurrenceNetwork(x, y, threshold=(0.5, 0.5), normalize=norm,
                                                       silence_level=3), ts.copy(), ts[::-1].copy())
            caller(f"InterSystemRecurrenceNetwork({tag}, normalize={norm})",
                   lambda x, y: InterSystemRecurrenceNetwork(x, y, threshold=(0.5, 0.5, 0.5),
                                                             normalize=norm, silence_level=3),
                   ts.copy(), ts[::-1].copy())
            caller(f"InterSystemRecurrenceNetwork2d({tag}, normalize={norm})",
                   lambda x, y: InterSystemRecurrenceNetwork(x, y, threshold=(0.5, 0.5, 0.5),
                                                             normalize=norm, silence_level=3),
                   ts2.copy(), ts2[::-1].copy())
        caller(f"Surrogates({tag})", lambda x: Surrogates(x, silence_level=3),
               nprng.rand(3, 16).astype(dt))
        caller(f"VisibilityGraph({tag})", lambda x: VisibilityGraph(x, silence_level=3), ts.copy())
    ts = nprng.rand(20) * 3
    caller("Surrogates", lambda x: Surrogates(x, silence_level=3), nprng.rand(3, 16))
    caller("VisibilityGraph", lambda x: VisibilityGraph(x, silence_level=3), ts.copy())
    caller("Network", lambda a, ww: Network(adjacency=a, node_weights=ww, silence_level=3),
           A.copy(), w.copy())
    R = A * (nprng.rand(6, 6) + 0.5)
    R = np.triu(R, 1)
    R = R + R.T
    caller("ResNetwork", lambda r: ResNetwork(r, silence_level=3), R.copy())
    caller("ClimateData", lambda o: ClimateData(observable=o, grid=grid, time_cycle=12,
                                                silence_level=3), obs.copy())


def close32(a, b):
    """equality up to single-precision rounding (the estimators compute in float32)"""
    if isinstance(a, (tuple, list)) and isinstance(b, (tuple, list)):
        return len(a) == len(b) and all(close32(x, y) for x, y in zip(a, b))
    a, b = np.asarray(a), np.asarray(b)
    if a.shape != b.shape:
        return False
    if a.dtype.kind in "fc" or b.dtype.kind in "fc":
        return bool(np.allclose(a, b, rtol=1e-5, atol=1e-6, equal_nan=True))
    return bool(np.array_equal(a, b))


def funcnet_interference(ctx):
    """coupling analysis objects (compiled and pure-Python class) built from caller arrays in both
    float widths: deterministic estimates taken after any sequence of other calls - including the
    surrogate generators, which shuffle *a copy* of the series - equal those of a fresh object,
    and the caller's array is untouched"""
    from pyunicorn.funcnet import CouplingAnalysis
    from pyunicorn.funcnet.coupling_analysis_pure_python import CouplingAnalysisPurePython
    rng = ctx.rng
    nprng = np.random.RandomState(rng.randrange(2 ** 31))
    plans = {
        CouplingAnalysis: {
            "det": [("cross_correlation", dict(tau_max=2, lag_mode="all")),
                    ("cross_correlation", dict(tau_max=2, lag_mode="max")),
                    ("mutual_information", dict(tau_max=1, estimator="binning", bins=4)),
                    ("mutual_information", dict(tau_max=0, estimator="gauss"))],
            "other": [("information_transfer", dict(tau_max=2, estimator="gauss", past=1))]},
        CouplingAnalysisPurePython: {
            "det": [("cross_correlation", dict(tau_max=2, lag_mode="all")),
                    ("cross_correlation", dict(tau_max=2, lag_mode="max")),
                    ("mutual_information", dict(bins=4, tau_max=1)),
                    ("mutual_information_edges", dict(bins=4, tau=0))],
            "other": [("shuffled_surrogate_for_cc", dict(tau_max=1)),
                      ("shuffled_surrogate_for_cc", dict(fourier=True, tau_max=1)),
                      ("time_surrogate_for_cc", dict(sample_range=5, tau_max=1)),
                      ("shuffled_surrogate_for_mi", dict(bins=4, tau_max=0)),
                      ("time_surrogate_for_mi", dict(bins=4, sample_range=5, tau_max=1))]},
    }
    for cls, plan in plans.items():
        for dt in (np.float64, np.float32):
            for layout in ("C", "F"):
                data = np.asarray((nprng.rand(40, 3) * 4 - 2).astype(dt), order=layout)
                keep = data.copy()
                name = f"{cls.__name__}({dt.__name__},{layout})"
                try:
                    # same memory layout as the object under test: float32 sums depend on the
                    # summation order at the 1e-7 level
                    fresh = quiet(cls, data.copy(order="K"), silence_level=3) \
                        if cls is CouplingAnalysis else quiet(cls, data.copy(order="K"))
                    base = {}
                    for m, kw in plan["det"]:
                        try:
                            base[(m, str(kw))] = snap(quiet(getattr(fresh, m), **kw))
                        except Exception:  # noqa
                            pass
                    obj = quiet(cls, data, silence_level=3) if cls is CouplingAnalysis \
                        else quiet(cls, data)
                except Exception as ex:  # noqa
                    ctx.count(f"constructor-raises:{name}:{type(ex).__name__}")
                    continue
                calls = plan["det"] + plan["other"]
                rng.shuffle(calls)
                hist = []
                for m, kw in calls + plan["det"]:
                    hist.append(f"{m}({kw})")
                    try:
                        v = quiet(getattr(obj, m), **kw)
                    except Exception:  # noqa
                        ctx.count(f"{name}:raises:{m}")
                        continue
                    ctx.case(("funcnet", name, tuple(hist)), True)
                    b = base.get((m, str(kw)))
                    if b is not None and not close32(v, b):
                        ctx.fail({"kind": "query-interference", "class": cls.__name__, "query": m},
                                 f"{name}: {m}({kw}) after {hist[:-1]} differs from a fresh object",
                                 {"class": cls.__name__, "dtype": dt.__name__, "layout": layout,
                                  "history": hist, "data": keep.tolist()})
                        break
                if data.shape != keep.shape or not same(data, keep):
                    ctx.fail({"kind": "caller-array-edited", "constructor": cls.__name__,
                              "argument": 0},
                             f"{name} (or one of its methods) modifies the caller's data array",
                             {"class": cls.__name__, "dtype": dt.__name__, "layout": layout,
                              "history": hist, "data": keep.tolist()})


def array_functions(ctx):
    """public functions that take arrays and are not documented as in-place"""
    rng = ctx.rng
    nprng = np.random.RandomState(rng.randrange(2 ** 31))
    from pyunicorn.core import GeoGrid, GeoNetwork, Data
    from pyunicorn.climate import RainfallClimateNetwork
    grid = GeoGrid(np.arange(3.), np.array([0., 5., 10., 15., 20., 25.]),
                   np.array([2.5, 5., 7.5, 10., 12.5, 15.]))
    probes = [
        ("GeoGrid.region_indices", lambda a: grid.region_indices(a),
         [np.array([-10., 0., -10., 11., 11., 11., 11., 0.])]),
        ("GeoNetwork.latlon2cartesian", lambda a, b: GeoNetwork.latlon2cartesian(a, b),
         [np.array([10., 20., 30.]), np.array([5., 15., 25.])]),
        ("Data.rescale(int16)", lambda a: Data.rescale(a, "int16"), [nprng.rand(4, 3) * 10]),
        ("Data.rescale(uint8)", lambda a: Data.rescale(a, "uint8"), [nprng.rand(4, 3) * 10]),
        ("Data.rescale(int32)", lambda a: Data.rescale(a, "int32"), [nprng.rand(4, 3) * 10]),
        ("RainfallClimateNetwork.calculate_top_events",
         lambda a: RainfallClimateNetwork.calculate_top_events(a, [0.2, 0.8]), [nprng.rand(4, 12)]),
        ("RainfallClimateNetwork.rank_time_series",
         lambda a: RainfallClimateNetwork.rank_time_series(a), [nprng.rand(12, 4)]),
        ("Data.cos_window", lambda a: Data.cos_window(a, 0.2), [nprng.rand(12, 4)]),
        ("Data.zero_pad_data", lambda a: Data.zero_pad_data(a), [nprng.rand(12, 4)]),
    ]
    for name, fn, arrays in probes:
        before = [a.copy() for a in arrays]
        try:
            quiet(fn, *arrays)
        except Exception as ex:  # noqa  (a raising call must not have edited its input either)
            ctx.count(f"function-raises:{name}:{type(ex).__name__}")
        for i, (a0, a1) in enumerate(zip(before, arrays)):
            ctx.case(("array-function", name, i), True, {"function": name, "argument": i})
            if not same(a0, a1):
                ctx.fail({"kind": "caller-array-edited", "function": name, "argument": i},
                         f"{name} modifies its argument #{i} in place although not documented so",
                         {"function": name, "argument": i, "before": brief(a0), "after": brief(a1)})


def exemptions(ctx, eff):
    """the translator's exemptions must still be justified"""
    ex = [r for r in eff["table"] if r.get("exempt")]
    ok, detail = True, ""
    for r in ex:
        if r["func"] == "mutual_information_edges":
            from pyunicorn.funcnet.coupling_analysis_pure_python import CouplingAnalysisPurePython
            ca = CouplingAnalysisPurePython(np.random.RandomState(0).rand(20, 3))
            before = ca.dataarray.copy()
            try:
                ca.mutual_information_edges(4)
                ok, detail = False, "mutual_information_edges no longer raises"
            except Exception:  # noqa  (NameError: undefined `tau`)
                if not same(before, ca.dataarray):
                    ok, detail = False, "dataarray changed"
        else:
            ok, detail = False, "exemption without a dynamic validation: " + r["func"]
    ctx.obligation(f"exemptions of translate/fields_C06.json still justified ({len(ex)})",
                   "translator", ok, detail)
