"""C17 — random models and rewirings keep their documented invariants.

proof  : lean/Pyunicorn/Properties/C17.lean (for every stream of RNG draws: the
         geographical rewiring kernels keep the graph simple, `edges` its edge
         list, every degree, link lengths within eps per rewiring, degree pairs;
         cross-link kernels: exact count, cross/total degrees, internal blocks;
         Barabasi-Albert growth: exactly m(N-m) links)
tie    : the RNG functions the kernels call (numpy.random.random / uniform, the
         module global `randint` of core._ext.numerics) are replaced by recording
         suppliers; the Lean model replays exactly the recorded draws and must
         reproduce adjacency, edge array, cross adjacency, link array and loop
         counter of the compiled kernels and of the public methods
search : the documented invariants themselves, evaluated on before/after
         adjacency of the real code (independent of the model), per single
         rewiring and per run, plus the igraph-backed generators
"""
import contextlib
import io
import itertools
from fractions import Fraction

import numpy as np

from . import common  # noqa: F401


# --------------------------------------------------------------------------
# encoding
# --------------------------------------------------------------------------

def enc_mat(M):
    M = np.asarray(M)
    if M.size == 0:
        return "-"
    return ";".join(",".join(str(int(v)) for v in row) for row in M)


def enc_vec(v):
    return ",".join(str(int(x)) for x in v) or "-"


class Stop(Exception):
    """raised by a draw supplier whose budget is exhausted (the kernel would
    go on drawing: non-terminating calls are outside 'defined')"""


class Patched:
    """Replace the RNG entry points used by the randomisation code by
    `supplier(kind, arg)`; restores them on exit."""

    def __init__(self, K, supplier, spy_zeros=False):
        self.K, self.sup, self.spy_zeros = K, supplier, spy_zeros

    def __enter__(self):
        self.o_random = np.random.random
        self.o_uniform = np.random.uniform
        self.o_randint = self.K.randint
        self.o_zeros = np.zeros
        self.zeros = []          # 1-d integer arrays allocated through np.zeros (BA: targets, last_child)
        np.random.random = lambda *a, **k: self.sup("random", a[0] if a else k.get("size"))
        np.random.uniform = lambda low=0.0, high=1.0, size=None: self.sup("uniform", (low, high, size))
        self.K.randint = lambda *a, **k: self.sup("randint", a[0])
        if self.spy_zeros:
            def zeros(*a, **k):
                out = self.o_zeros(*a, **k)
                if out.ndim == 1 and out.dtype.kind == "i":
                    self.zeros.append(out)
                return out
            np.zeros = zeros
        return self

    def __exit__(self, *exc):
        np.random.random = self.o_random
        np.random.uniform = self.o_uniform
        self.K.randint = self.o_randint
        np.zeros = self.o_zeros
        return False


class IgraphSpy:
    """records the edge list / node count of the graph an igraph generator (a classmethod of
    igraph.Graph, inherited from GraphBase) returns, before pyunicorn post-processes it"""

    def __init__(self, name):
        self.name, self.edges, self.vcount, self.calls = name, [], [], []

    def __enter__(self):
        import igraph
        self.G = igraph.Graph
        self.own = self.name in self.G.__dict__
        self.orig_attr = self.G.__dict__.get(self.name)
        orig = getattr(self.G, self.name)

        def wrapper(*a, **k):
            g = orig(*a, **k)
            self.calls.append((tuple(a), dict(k)))
            self.edges.append([tuple(map(int, e)) for e in g.get_edgelist()])
            self.vcount.append(int(g.vcount()))
            return g
        setattr(self.G, self.name, staticmethod(wrapper))
        return self

    def __exit__(self, *exc):
        if self.own:
            setattr(self.G, self.name, self.orig_attr)
        else:
            delattr(self.G, self.name)
        return False


def igraph_call(call, names, defaults):
    """positional arguments of a recorded igraph call mapped to their names, default-valued options
    dropped (so that `Erdos_Renyi(n, m=L)` and `Erdos_Renyi(n=n, m=L, directed=False)` are the same call)"""
    a, k = call
    d = dict(zip(names, a))
    d.update(k)
    return {k_: v_ for k_, v_ in d.items() if not (k_ in defaults and v_ == defaults[k_])}


ER_NAMES, ER_DEFAULTS = ("n", "p", "m", "directed", "loops"), {"directed": False, "loops": False}
WS_NAMES, WS_DEFAULTS = ("dim", "size", "nei", "p", "loops", "multiple"), {"loops": False, "multiple": False}


class PairStream:
    """index pairs in [0,b1) x [0,b2): mostly a cyclic walk through a shuffled
    list of *all* pairs (so an admissible pair is found within b1*b2 draws if
    one exists), mixed with independent uniform pairs; `budget` pairs at most."""

    def __init__(self, rng, b1, b2, budget):
        self.rng, self.b1, self.b2, self.left = rng, b1, b2, 2 * budget + 10
        self.all = [(i, j) for i in range(b1) for j in range(b2)]
        rng.shuffle(self.all)
        self.pos = 0
        self.cur = None
        self.pairs = []

    def first(self):
        if self.left <= 0 or not self.all:
            raise Stop()
        self.left -= 1
        if self.rng.random() < 0.25:
            self.cur = (self.rng.randrange(self.b1), self.rng.randrange(self.b2))
        else:
            self.cur = self.all[self.pos % len(self.all)]
            self.pos += 1
        return self.cur[0]

    def cycles(self):
        """number of complete passes through the list of all pairs: each pass is a block of draws that
        offers every pair (the `Covers` blocks of `geoRun_fair_terminates` / `crossRun_fair_terminates`)"""
        return self.pos // len(self.all) if self.all else 0

    def second(self):
        self.pairs.append(self.cur)
        return self.cur[1]


# --------------------------------------------------------------------------
# generators
# --------------------------------------------------------------------------

def rand_graph(rng, n, p):
    A = np.zeros((n, n), dtype=np.int8)
    for i in range(n):
        for j in range(i):
            if rng.random() < p:
                A[i, j] = A[j, i] = 1
    return A


def structured_graph(rng, n):
    kind = rng.choice(["random", "random", "random", "matching", "cycle", "path",
                       "complete", "star", "two-cliques"])
    A = np.zeros((n, n), dtype=np.int8)
    if kind == "random":
        return kind, rand_graph(rng, n, rng.choice([0.2, 0.35, 0.5, 0.7]))
    if kind == "matching":
        perm = list(range(n))
        rng.shuffle(perm)
        for a, b in zip(perm[::2], perm[1::2]):
            A[a, b] = A[b, a] = 1
    elif kind == "cycle":
        for a in range(n):
            A[a, (a + 1) % n] = A[(a + 1) % n, a] = 1
    elif kind == "path":
        for a in range(n - 1):
            A[a, a + 1] = A[a + 1, a] = 1
    elif kind == "complete":
        A[:] = 1
        np.fill_diagonal(A, 0)
    elif kind == "star":
        A[0, 1:] = A[1:, 0] = 1
    else:
        h = n // 2
        A[:h, :h] = 1
        A[h:, h:] = 1
        np.fill_diagonal(A, 0)
    return kind, A


def dist_matrix(rng, n):
    """symmetric zero-diagonal integer matrix (real distances = entries / 4)"""
    kind = rng.choice(["const", "line", "ring", "rand3", "rand8", "grid", "asym"])
    D = np.zeros((n, n), dtype=np.int64)
    if kind == "const":
        D[:] = rng.choice([1, 4])
    elif kind == "line":
        x = [rng.randrange(0, 6) for _ in range(n)]
        for i in range(n):
            for j in range(n):
                D[i, j] = abs(x[i] - x[j])
    elif kind == "ring":
        for i in range(n):
            for j in range(n):
                D[i, j] = min((i - j) % n, (j - i) % n)
    elif kind in ("rand3", "rand8"):
        top = 3 if kind == "rand3" else 8
        for i in range(n):
            for j in range(i):
                D[i, j] = D[j, i] = rng.randrange(1, top + 1)
    elif kind == "asym":
        # not a metric: exercises the index order inside the conditions (correspondence only)
        for i in range(n):
            for j in range(n):
                D[i, j] = rng.randrange(1, 4)
    else:
        pts = [(rng.randrange(0, 3), rng.randrange(0, 3)) for _ in range(n)]
        for i in range(n):
            for j in range(n):
                D[i, j] = abs(pts[i][0] - pts[j][0]) + abs(pts[i][1] - pts[j][1])
    np.fill_diagonal(D, 0)
    return kind, D


def edge_list(A):
    n = A.shape[0]
    return [(i, j) for i in range(n) for j in range(i + 1, n) if A[i, j]]


# --------------------------------------------------------------------------
# oracles (independent of the Lean model)
# --------------------------------------------------------------------------

def simple_undirected(A):
    A = np.asarray(A)
    return (A.shape[0] == A.shape[1] and np.array_equal(A, A.T)
            and not np.any(np.diag(A)) and set(np.unique(A)) <= {0, 1})


def match_within(old, new, eps):
    """is there a bijection old<->new with |a-b| < eps for every matched pair?
    (lists of exact numbers, tiny)"""
    if len(old) != len(new):
        return False
    for perm in itertools.permutations(range(len(new))):
        if all(abs(old[i] - new[perm[i]]) < eps for i in range(len(old))):
            return True
    return False


def geo_oracle(ctx, mode, A0, A1, edges1, D, eps, level, replay, single):
    """documented invariants of randomly_rewire_geomodel_{I,II,III} on the real
    before/after adjacency; `single`: at most one rewiring happened"""
    def bad(inv, what):
        sig = {"kind": "geo", "level": level, "mode": mode, "invariant": inv}
        ctx.fail(sig, f"geomodel_{mode} ({level}): {what}", dict(replay, invariant=inv))

    n = A0.shape[0]
    if not simple_undirected(A1):
        bad("simple", "result is not a simple undirected graph")
        return
    if not np.array_equal(A0.sum(axis=1), A1.sum(axis=1)):
        bad("degree", f"degree sequence changed {A0.sum(axis=1).tolist()} -> {A1.sum(axis=1).tolist()}")
    if edges1 is not None:
        es = sorted(tuple(sorted(map(int, e))) for e in edges1)
        if es != edge_list(A1):
            bad("edge-list", "edge array is no longer the edge list of A")
    if single:
        removed = [(i, j) for (i, j) in edge_list(A0) if not A1[i, j]]
        added = [(i, j) for (i, j) in edge_list(A1) if not A0[i, j]]
        if len(removed) not in (0, 2) or len(added) != len(removed):
            bad("two-links", f"one rewiring removed {removed} and added {added}")
            return
        if removed and np.array_equal(D, D.T):
            lo = [Fraction(int(D[i, j]), 4) for i, j in removed]
            ln = [Fraction(int(D[i, j]), 4) for i, j in added]
            if not match_within(lo, ln, Fraction(eps, 4)):
                bad("link-length", f"removed lengths {lo} cannot be matched with added {ln} within {Fraction(eps, 4)}")
            if mode in ("II", "III"):
                # per node: the link lost and the link gained differ by < eps
                for v in range(n):
                    lost = [Fraction(int(D[v, w]), 4) for w in range(n) if A0[v, w] and not A1[v, w]]
                    got = [Fraction(int(D[v, w]), 4) for w in range(n) if A1[v, w] and not A0[v, w]]
                    if not match_within(lost, got, Fraction(eps, 4)):
                        bad("node-link-length", f"node {v}: lost {lost}, gained {got}, eps {Fraction(eps, 4)}")
                        break
            if mode == "III":
                deg = A0.sum(axis=1)
                p0 = sorted(tuple(sorted((int(deg[i]), int(deg[j])))) for i, j in removed)
                p1 = sorted(tuple(sorted((int(deg[i]), int(deg[j])))) for i, j in added)
                if p0 != p1:
                    bad("degree-pairs", f"degree pairs of removed links {p0} != of added links {p1}")
    if mode == "III":
        deg = A0.sum(axis=1)
        p0 = sorted(tuple(sorted((int(deg[i]), int(deg[j])))) for i, j in edge_list(A0))
        p1 = sorted(tuple(sorted((int(deg[i]), int(deg[j])))) for i, j in edge_list(A1))
        if p0 != p1:
            bad("degree-pairs", "multiset of degree pairs over all links changed")


def cross_oracle(ctx, op, level, A0, A1, n1, n2, expect_count, replay, keep_degrees):
    def bad(inv, what):
        sig = {"kind": "cross", "op": op, "level": level, "invariant": inv}
        ctx.fail(sig, f"{op} ({level}): {what}", dict(replay, invariant=inv))

    A0, A1 = np.asarray(A0), np.asarray(A1)
    if not simple_undirected(A1):
        bad("simple", "result is not a simple undirected graph")
        return
    mask = np.zeros(A0.shape, dtype=bool)
    mask[np.ix_(n1, n2)] = True
    mask[np.ix_(n2, n1)] = True
    if not np.array_equal(A0[~mask], A1[~mask]):
        bad("untouched", "entries outside the cross block changed")
    for nl in (n1, n2):
        if not np.array_equal(A0[np.ix_(nl, nl)], A1[np.ix_(nl, nl)]):
            bad("internal", "links inside a group changed")
    C1 = A1[np.ix_(n1, n2)]
    if expect_count is not None and int(C1.sum()) != expect_count:
        bad("count", f"{int(C1.sum())} cross links, prescribed {expect_count}")
    if keep_degrees:
        C0 = A0[np.ix_(n1, n2)]
        if not (np.array_equal(C0.sum(axis=1), C1.sum(axis=1))
                and np.array_equal(C0.sum(axis=0), C1.sum(axis=0))):
            bad("cross-degree", "cross degrees changed")
        if not np.array_equal(A0.sum(axis=1), A1.sum(axis=1)):
            bad("degree", "degree sequence changed")


# --------------------------------------------------------------------------

MODES = {"I": "1", "II": "2", "III": "3"}


def run(ctx):
    from pyunicorn.core._ext import numerics as K
    from pyunicorn.core._ext.types import ADJ, FIELD, NODE, DEGREE
    from pyunicorn.core import Network, SpatialNetwork, Grid, InteractingNetworks, GeoNetwork, GeoGrid
    import pyunicorn.core.interacting_networks as IN
    rng = ctx.rng
    quick = ctx.tier == "quick"
    scale = 8 if quick else 50
    ctx.rule = ("case = (operation, level, input network / partition / distance matrix / tolerance / "
                "parameters, recorded draw stream); distinct = distinct canonical encodings; "
                "non-trivial = at least one rewiring / link placement actually happened "
                "(generators: at least one link)")
    ctx.trusted = common.DEFAULT_TRUSTED + [
        "igraph generators and Graph.rewire (Erdos_Renyi, Degree_Sequence, Watts_Strogatz, Barabasi, rewire): "
        "trusted; the contracts the theorems use (simple graph with the requested number of links / incidence "
        "counts) are checked on every call, pyunicorn's part (dispatch, simplify, adjacency read-out, "
        "set_edge_list) is modelled and proved",
        "the C compiler evaluates `a - b` on float operands as one IEEE binary32 subtraction and numpy `u * E` "
        "as one binary64 multiplication (compared on every run with rnd32 / rnd64, which are proved to be "
        "round-to-nearest-even)",
    ]
    ctx.proofs()

    reqs, impl = [], []

    def geo_kernel(mode):
        return getattr(K, "_randomly_rewire_geomodel_" + mode)

    # ------------------------------------------------------------------
    # 1. geographical rewiring, kernel level
    # ------------------------------------------------------------------
    def geo_case(level):
        n = rng.choice([2, 3, 4, 4, 5, 5, 6, 7, 8, 9] if quick else [2, 3, 4, 5, 6, 7, 8, 9, 10, 12, 16])
        gk, A = structured_graph(rng, n)
        if rng.random() < 0.2 and n >= 4:
            # degenerate: isolated nodes (also the last ones), several components
            for v in rng.sample(range(n), rng.randrange(1, max(2, n // 2))):
                A[v, :] = A[:, v] = 0
            gk += "+isolated"
        dk, D = dist_matrix(rng, n)
        eps = rng.choice([1, 1, 2, 3, 5, 400, 2 ** 40])
        mode = rng.choice(["I", "II", "III"])
        ctx.count(f"geo:{level}:mode={mode}")
        ctx.count(f"geo:graph={gk}")
        ctx.count(f"geo:D={dk}:eps={'big' if eps >= 400 else eps}")
        return n, A, D, eps, mode

    def pow2_shift():
        """extreme-but-exact rescaling of distances and tolerance: the conditions are scale invariant,
        and quarter-integers below 2^42 times 2^sh are exact in float32"""
        sh = rng.choice([0, 0, 0, 0, -20, 20, -60, 60, -100, 80])
        ctx.count(f"geo:pow2-shift={'0' if sh == 0 else ('neg' if sh < 0 else 'pos')}")
        return sh

    def uniform_pairs(E, budget):
        """supplier for numpy.random.random(): u with floor(u*E) = chosen edge index"""
        ps = PairStream(rng, E, E, budget)
        state = {"n": 0, "idx": [], "k": [], "ps": ps}

        def sup(kind, arg):
            assert kind == "random" and arg is None, (kind, arg)
            idx = ps.first() if state["n"] % 2 == 0 else ps.second()
            state["n"] += 1
            # the RNG value is the dyadic rational k / 2^20 (so that u * E is exact in double and the
            # model can evaluate the source's draw expression on the same value): lowest / highest /
            # some k with floor(k * E / 2^20) = idx
            lo = -((-idx * 2 ** 20) // E)
            hi = -((-(idx + 1) * 2 ** 20) // E) - 1
            k = rng.choice([lo, hi, (lo + hi) // 2, rng.randrange(lo, hi + 1)])
            u = k / 2.0 ** 20
            assert 0 <= u < 1 and int(np.floor(u * E)) == idx, (k, E, idx)
            state["idx"].append(idx)
            state["k"].append(k)
            return u
        return sup, state

    last_offered = {"all": False}     # did the last kernel call see every pair of edge indices?
    adm_reqs, adm_impl = [], []       # existence of an admissible swap: model vs exhaustive stream

    def call_geo_kernel(mode, iterations, A, D, eps, edges, deg, budget, sh=0):
        """runs the compiled kernel in place; returns (completed, draws)"""
        E = len(edges)
        sup, state = uniform_pairs(E, budget)
        Df = (D * 2.0 ** sh / 4.0).astype(FIELD)
        assert np.array_equal(Df.astype(np.float64), D * 2.0 ** sh / 4.0)      # exact in float32
        args = [iterations, eps * 2.0 ** sh / 4.0, A, Df, E, edges]
        if mode == "III":
            args.append(deg)
        completed = True
        with Patched(K, sup):
            try:
                geo_kernel(mode)(*args)
            except Stop:
                completed = False
            except Exception as e:  # noqa
                completed = False
                ctx.fail({"kind": "geo", "level": "kernel", "mode": mode, "invariant": "raises",
                          "error": type(e).__name__},
                         f"_randomly_rewire_geomodel_{mode} raised {e!r}",
                         {"call": f"_randomly_rewire_geomodel_{mode}", "iterations": iterations, "E": E,
                          "edges": np.asarray(edges).tolist(), "rd_random_values": [k / 2.0 ** 20 for k in state["k"]]})
        idx = state["idx"]
        if len(idx) % 2:
            idx = idx[:-1]      # second index of the pair was never drawn
        last_offered["all"] = set(zip(idx[::2], idx[1::2])) >= set(state["ps"].all)
        last_offered["cycles"] = state["ps"].cycles()
        return completed, list(zip(idx[::2], idx[1::2]))

    def geo_req(tag, mode, n, A0, D, eps, deg, edges0, iterations, draws):
        return (f"{tag} {MODES[mode]} {n} {enc_mat(A0)} {enc_mat(D)} {eps} {enc_vec(deg)} "
                f"{enc_mat(edges0)} {iterations} {enc_mat(draws)}")

    n_geo = (900 if quick else 8000)
    for _ in range(n_geo):
        n, A, D, eps, mode = geo_case("kernel")
        A = A.astype(ADJ)
        el = edge_list(A)
        rng.shuffle(el)
        el = [e if rng.random() < 0.5 else (e[1], e[0]) for e in el]
        edges = np.array(el, dtype=NODE).reshape(len(el), 2)
        deg = A.sum(axis=1).astype(DEGREE)
        sh = pow2_shift()
        if len(el) == 0:
            # E = 0: only iterations = 0 is defined
            A0, e0 = A.copy(), edges.copy()
            completed, draws = call_geo_kernel(mode, 0, A, D, eps, edges, deg, 4)
            reqs.append(geo_req("geo", mode, n, A0, D, eps, deg, e0, 0, draws))
            impl.append(f"{enc_mat(A)}|{enc_mat(edges)}|0")
            ctx.case(("geo", mode, n, A0.tobytes().hex(), 0), False)
            continue
        # (a) a sequence of single rewirings on the evolving state
        steps = rng.choice([1, 2, 4, 8])
        admissible = False      # once a swap was made one exists for ever (geoRun_admissible_invariant)
        for _s in range(steps):
            A0, e0 = A.copy(), edges.copy()
            completed, draws = call_geo_kernel(mode, 1, A, D, eps, edges, deg, len(el) ** 2 + 5, sh)
            reqs.append(geo_req("geo", mode, n, A0, D, eps, deg, e0, 1, draws))
            impl.append(f"{enc_mat(A)}|{enc_mat(edges)}|{'1' if completed else '<'}")
            if completed or last_offered["all"]:
                # a swap was made <=> an admissible pair exists (every pair was offered otherwise)
                adm_reqs.append(f"geoadm {MODES[mode]} {enc_mat(A0)} {enc_mat(D)} {eps} {enc_vec(deg)} {enc_mat(e0)}")
                adm_impl.append("1" if completed else "0")
                ctx.count("geo:admissible-swap:" + ("exists" if completed else "none (all pairs rejected)"))
            rp = {"call": f"_randomly_rewire_geomodel_{mode}", "iterations": 1, "eps": eps / 4.0,
                  "scale_all_distances_by_2**": sh,
                  "A": A0.tolist(), "D": (D / 4.0).tolist(), "edges": e0.tolist(),
                  "degree": deg.tolist(), "edge_index_draws": draws, "A_after": A.tolist()}
            geo_oracle(ctx, mode, A0, A, edges, D, eps, "kernel", rp, True)
            ctx.case(("geo1", mode, A0.tobytes().hex(), e0.tobytes().hex(), D.tobytes().hex(), eps, draws),
                     not np.array_equal(A0, A),
                     {"op": f"_randomly_rewire_geomodel_{mode}", "n": n, "A": enc_mat(A0),
                      "D/4": enc_mat(D), "eps*4": eps, "draws": draws[:6]} if n <= 5 else None)
            ctx.count("geo:single-step:" + ("rewired" if completed else "budget-exhausted"))
            admissible = admissible or completed
            if not completed:
                break
        # (b) a whole run
        iters = rng.choice([0, 2, 3, 5, 10, 20, 60])
        A0, e0 = A.copy(), edges.copy()
        completed, draws = call_geo_kernel(mode, iters, A, D, eps, edges, deg,
                                           min(2500, 5 + iters * (len(el) ** 2 + 5)), sh)
        reqs.append(geo_req("geo", mode, n, A0, D, eps, deg, e0, iters, draws))
        impl.append(f"{enc_mat(A)}|{enc_mat(edges)}|{iters if completed else '<'}")
        rp = {"call": f"_randomly_rewire_geomodel_{mode}", "iterations": iters, "eps": eps / 4.0,
              "scale_all_distances_by_2**": sh,
              "A": A0.tolist(), "D": (D / 4.0).tolist(), "edges": e0.tolist(),
              "degree": deg.tolist(), "edge_index_draws": draws, "A_after": A.tolist()}
        geo_oracle(ctx, mode, A0, A, edges, D, eps, "kernel", rp, False)
        ctx.case(("geoN", mode, A0.tobytes().hex(), e0.tobytes().hex(), D.tobytes().hex(), eps, iters, draws),
                 not np.array_equal(A0, A))
        ctx.count("geo:run:" + ("completed" if completed else "budget-exhausted"))
        # termination (oracle, independent of the model): a state that once admitted a swap admits one
        # for ever, and `iters` complete passes through all pairs of edge indices make `iters` rewirings
        if admissible:
            if completed:
                ctx.count("geo:termination:admissible-run-completed")
            elif last_offered["cycles"] >= iters:
                ctx.fail({"kind": "geo", "level": "kernel", "mode": mode, "invariant": "termination"},
                         f"_randomly_rewire_geomodel_{mode}: a swap was admissible before, every pair of edge "
                         f"indices was offered {last_offered['cycles']} times, but fewer than {iters} rewirings "
                         "were made", rp)
            else:
                ctx.count("geo:termination:stream-too-short (not judged)")
    ctx.correspond("Lean geoRun == compiled _randomly_rewire_geomodel_I/II/III "
                   "(adjacency, edge array, loop counter; recorded draws)", reqs, impl)

    # ------------------------------------------------------------------
    # 1b. round 4: ARBITRARY binary32 data (no dyadic restriction).  Distances and tolerance are sent
    #     to the model as integers in units of a common power of two (every finite binary32 number is
    #     an integer multiple of 2^-149); the model rounds every subtraction with `rnd32`
    #     (`geoRunFl`); the oracle judges the real result with exact Fractions of the binary32 values
    #     (theorem `float_conditions_sound`: whatever the compiled test accepts is exactly within eps).
    # ------------------------------------------------------------------
    def units(vals):
        """common power-of-two denominator of exact float values, and the values as integers in that unit"""
        fr = [Fraction(float(v)) for v in vals]
        den = max(f.denominator for f in fr)
        return den, [int(f * den) for f in fr]

    def f32_value(kind):
        if kind == "uniform":
            return np.float32(rng.uniform(0, 10))
        if kind == "mixed-exponents":
            return np.float32((1 + rng.randrange(2 ** 23) / 2.0 ** 23) * 2.0 ** rng.randrange(-3, 27))
        if kind == "near-2^24":
            return np.float32(rng.choice([16777216.0, 16777218.0, 33554432.0, 1.0, 3.0, 0.5]) + rng.randrange(0, 8))
        if kind == "overflow":
            # round 5: entries of both signs near the top of the binary32 range — differences overflow to
            # +-inf in hardware (`fabsf(inf) < eps` is false); theorem binary32_overflow_rejected
            return np.float32(rng.choice([-1.0, 1.0]) * (1 + rng.randrange(2 ** 23) / 2.0 ** 23)
                              * 2.0 ** rng.choice([127, 127, 126, 125]))
        return np.float32(rng.choice([2.0 ** -140 * rng.randrange(1, 1000), 2.0 ** 100 * (1 + rng.random()),
                                      rng.uniform(0, 4)]))

    def f32_matrix(n):
        kind = rng.choice(["uniform", "mixed-exponents", "mixed-exponents", "near-2^24", "tiny+huge", "overflow"])
        D = np.zeros((n, n), dtype=np.float32)
        for i in range(n):
            for j in range(i):
                D[i, j] = D[j, i] = f32_value(kind)
        if rng.random() < 0.15:
            for i in range(n):
                for j in range(n):
                    if i != j:
                        D[i, j] = f32_value(kind)          # not symmetric (correspondence only)
        # tolerance: on / next to the boundary of `<` for some difference as binary32 computes it
        cells = [(i, j) for i in range(n) for j in range(n) if i != j]
        (a, b), (c_, d) = rng.choice(cells), rng.choice(cells)
        with np.errstate(all="ignore"):
            z = np.abs(np.float32(D[a, b] - D[c_, d]))
        ek = rng.choice(["boundary", "next-up", "next-down", "value", "huge"])
        if not np.isfinite(z):
            ctx.count("geo:f32:the probed difference overflows to inf")
        if kind == "overflow":
            eps = rng.choice([np.finfo(np.float32).max, np.float32(2.0 ** 127), abs(f32_value(kind)),
                              np.float32(2.0 ** 120)])
        elif ek == "huge" or not np.isfinite(z) or z == 0:
            eps = np.float32(2.0 ** 120) if ek == "huge" else f32_value(kind)
        elif ek == "boundary":
            eps = z
        elif ek == "next-up":
            eps = np.nextafter(z, np.float32(np.inf))
        elif ek == "next-down":
            eps = np.nextafter(z, np.float32(0))
        else:
            eps = f32_value(kind)
        if not (eps > 0 and np.isfinite(eps)):
            eps = np.float32(1.0)
        with np.errstate(all="ignore"):
            inexact = any(not np.isfinite(np.float32(D[i, j] - D[k_, l_]))
                          or Fraction(float(np.float32(D[i, j] - D[k_, l_])))
                          != Fraction(float(D[i, j])) - Fraction(float(D[k_, l_]))
                          for (i, j) in cells[:12] for (k_, l_) in cells[:12])
        ctx.count(f"geo:f32:D={kind}:eps={ek}")
        ctx.count("geo:f32:" + ("some differences are rounded" if inexact else "all sampled differences exact"))
        den, ints = units(list(D.flatten()) + [eps])
        Dint = np.array(ints[:-1], dtype=object).reshape(n, n)
        return D, np.float32(eps), Dint, ints[-1], den

    def call_geo_kernel_f32(mode, iterations, A, Df, epsf, edges, deg, budget):
        E = len(edges)
        sup, state = uniform_pairs(E, budget)
        args = [iterations, float(epsf), A, Df, E, edges]
        if mode == "III":
            args.append(deg)
        completed = True
        with Patched(K, sup):
            try:
                geo_kernel(mode)(*args)
            except Stop:
                completed = False
            except Exception as e:  # noqa
                completed = False
                ctx.fail({"kind": "geo", "level": "kernel-f32", "mode": mode, "invariant": "raises",
                          "error": type(e).__name__},
                         f"_randomly_rewire_geomodel_{mode} raised {e!r}",
                         {"call": f"_randomly_rewire_geomodel_{mode}", "iterations": iterations, "E": E,
                          "edges": np.asarray(edges).tolist(), "rd_random_values": [k / 2.0 ** 20 for k in state["k"]]})
        idx = state["idx"]
        if len(idx) % 2:
            idx = idx[:-1]
        return completed, list(zip(idx[::2], idx[1::2]))

    reqs, impl = [], []
    for _ in range(250 if quick else 2500):
        n = rng.choice([4, 4, 5, 5, 6, 7, 8])
        gk, A = structured_graph(rng, n)
        if A.sum() == 0:
            continue
        mode = rng.choice(["I", "II", "III"])
        Df, epsf, Dint, epsint, den = f32_matrix(n)
        A = A.astype(ADJ)
        el = edge_list(A)
        rng.shuffle(el)
        el = [e if rng.random() < 0.5 else (e[1], e[0]) for e in el]
        edges = np.array(el, dtype=NODE).reshape(len(el), 2)
        deg = A.sum(axis=1).astype(DEGREE)
        for iters in ([1, 1, 1] if rng.random() < 0.6 else [rng.choice([2, 5, 12])]):
            A0, e0 = A.copy(), edges.copy()
            completed, draws = call_geo_kernel_f32(mode, iters, A, Df, epsf, edges, deg,
                                                   min(1500, 5 + iters * (len(el) ** 2 + 5)))
            reqs.append(f"geoF {MODES[mode]} {n} {enc_mat(A0)} {enc_mat(Dint)} {epsint} {enc_vec(deg)} "
                        f"{enc_mat(e0)} {iters} {enc_mat(draws)}")
            impl.append(f"{enc_mat(A)}|{enc_mat(edges)}|{iters if completed else '<'}")
            rp = {"call": f"_randomly_rewire_geomodel_{mode}", "iterations": iters, "eps_float32": float(epsf),
                  "A": A0.tolist(), "D_float32": Df.astype(np.float64).tolist(), "edges": e0.tolist(),
                  "degree": deg.tolist(), "edge_index_draws": draws, "A_after": A.tolist()}
            # the oracle's `/4` scaling of distances and tolerance cancels
            geo_oracle(ctx, mode, A0, A, edges, Dint, epsint, "kernel-f32", rp, iters == 1)
            ctx.case(("geoF", mode, A0.tobytes().hex(), e0.tobytes().hex(), Df.tobytes().hex(), float(epsf), iters,
                      tuple(draws)), not np.array_equal(A0, A))
            ctx.count("geo:f32:kernel:" + ("completed" if completed else "budget-exhausted"))
            if not completed:
                break
    # the two roundings themselves, against the hardware: binary32 subtraction, binary64 `u * E`
    xs, got, ovf = [], [], []
    for _ in range(300 if quick else 3000):
        kind = rng.choice(["uniform", "mixed-exponents", "near-2^24", "tiny+huge", "overflow"])
        x, y = f32_value(kind), f32_value(kind)
        if rng.random() < 0.3:
            y = -y
        with np.errstate(all="ignore"):
            z = np.float32(x - y)
        exact = Fraction(float(x)) - Fraction(float(y))
        if not np.isfinite(z):
            ovf.append(int(exact * 2 ** 149))
            ctx.count("rnd32:overflow (hardware inf)")
            continue
        xs.append(int(exact * 2 ** 149))
        got.append(int(Fraction(float(z)) * 2 ** 149))
        ctx.count("rnd32:" + ("rounded" if Fraction(float(z)) != exact else "exact"))
    reqs.append("rnd32 " + ",".join(map(str, xs)))
    impl.append(",".join(map(str, got)))
    # where the hardware overflows the model's value is beyond every finite binary32 number
    reqs.append("rnd32ovf " + (",".join(map(str, ovf)) or "-"))
    impl.append(",".join("1" for _ in ovf) or "-")
    for _ in range(40 if quick else 400):
        E = rng.choice([1, 2, 3, 7, 2 ** 31 - 1, 2 ** 30 + 1, 2 ** 24 + 1, rng.randrange(1, 2 ** 31), rng.randrange(1, 300)])
        ks = []
        for _k in range(12):
            idx = rng.randrange(E)
            lo = -((-idx * 2 ** 53) // E)
            hi = -((-(idx + 1) * 2 ** 53) // E) - 1
            ks.append(rng.choice([lo, hi, max(lo - 1, 0), 2 ** 53 - 1, 0, rng.randrange(2 ** 53)]))
        outs = [int(np.floor((k / 2.0 ** 53) * E)) for k in ks]
        if any(not 0 <= o < E for o in outs):
            ctx.fail({"kind": "geo", "level": "draw", "invariant": "index-range"},
                     f"np.floor(u * {E}) left [0, E) for a double u in [0, 1)", {"E": E, "k_over_2^53": ks})
        reqs.append(f"drawD {','.join(map(str, ks))} {E}")
        impl.append(",".join(map(str, outs)))
        ctx.count("drawD:" + ("E>=2^24" if E >= 2 ** 24 else "small-E"))
        if any(o != (k * E) // 2 ** 53 for o, k in zip(outs, ks)):
            ctx.count("drawD:rounding changed the index (floor(fl(u*E)) != floor(u*E))")
    # round 5: `rnd64` / `rndQ 24` on arguments that are NOT on the grid of the format (quotients of
    # doubles / of binary32 numbers, p/q with odd q), against three independent correctly rounded
    # operations: hardware binary64 division and multiplication, hardware binary32 division, and
    # CPython's int/int true division
    def fr(v):
        return Fraction(float(v))

    def sr(q):
        return str(q.numerator) if q.denominator == 1 else f"{q.numerator}/{q.denominator}"

    def f64_value():
        k = rng.choice(["unit", "int", "wide", "subnormal", "53bit"])
        if k == "unit":
            return rng.randrange(2 ** 53) / 2.0 ** 53
        if k == "int":
            return float(rng.randrange(1, 2 ** 31))
        if k == "wide":
            return float(np.ldexp(rng.randrange(1, 2 ** 53), rng.randrange(-200, 200)))
        if k == "subnormal":
            return float(np.ldexp(float(rng.randrange(1, 2 ** 20)), -1074))
        return float(rng.randrange(2 ** 52, 2 ** 53))
    q64, g64, q32, g32 = [], [], [], []
    for _ in range(200 if quick else 2000):
        op = rng.choice(["div", "div", "mul", "pq", "tie", "sub-quot"])
        if op in ("div", "mul", "sub-quot"):
            a, b = f64_value(), f64_value()
            if rng.random() < 0.3:
                a = -a
            if op == "sub-quot":      # results in the subnormal range: grid step 2^-1074, ties possible
                a, b = float(np.ldexp(rng.randrange(1, 2 ** 12), -1074)), float(rng.choice([2, 3, 4, 5, 7, 8]))
            with np.errstate(all="ignore"):
                z = np.float64(a) / np.float64(b) if op != "mul" else np.float64(a) * np.float64(b)
            exact = fr(a) / fr(b) if op != "mul" else fr(a) * fr(b)
            if not np.isfinite(z):
                continue
        elif op == "pq":
            pn, qd = rng.randrange(-2 ** 70, 2 ** 70), rng.choice([3, 5, 7, 10, 2 ** 60 + 1, rng.randrange(1, 2 ** 40)])
            z, exact = pn / qd, Fraction(pn, qd)          # CPython: correctly rounded
        else:                                             # exact ties between neighbouring doubles
            m, e = rng.randrange(2 ** 52, 2 ** 53), rng.randrange(1, 40)
            exact = Fraction(2 * m + 1, 2) * 2 ** e * rng.choice([1, -1])
            z = exact.numerator / exact.denominator
        q64.append(sr(exact))
        g64.append(sr(fr(z)))
        ctx.count(f"rnd64:{op}:" + ("rounded" if fr(z) != exact else "exact")
                  + (":off-grid" if (exact * 2 ** 1074).denominator != 1 else ""))
    for _ in range(150 if quick else 1500):
        a, b = f32_value(rng.choice(["uniform", "mixed-exponents", "near-2^24"])), \
            f32_value(rng.choice(["uniform", "mixed-exponents", "near-2^24"]))
        if float(b) == 0.0:
            continue
        with np.errstate(all="ignore"):
            z = np.float32(a) / np.float32(b)
        if not np.isfinite(z):
            continue
        exact = fr(a) / fr(b)
        q32.append(sr(exact))
        g32.append(sr(fr(z)))
        ctx.count("rnd32q:div:" + ("rounded" if fr(z) != exact else "exact")
                  + (":off-grid" if (exact * 2 ** 149).denominator != 1 else ""))
    reqs.append("rnd64 " + (",".join(q64) or "-"))
    impl.append(",".join(g64) or "-")
    reqs.append("rnd32q " + (",".join(q32) or "-"))
    impl.append(",".join(g32) or "-")
    ctx.correspond("Lean geoRunFl rnd32 == compiled _randomly_rewire_geomodel_I/II/III on arbitrary binary32 "
                   "distances / tolerances (integers in units of a power of two); rnd32 == binary32 subtraction; "
                   "geoDrawR rnd64 == numpy's floor(u * E) for 53-bit u; rnd64 / rndQ 24 on off-grid rationals == "
                   "hardware binary64 / binary32 division, multiplication, CPython int/int", reqs, impl)

    # ------------------------------------------------------------------
    # 2. geographical rewiring through the public methods: histories on one object
    #    (the model derives edge list, E and the degree array itself: `geoMethod`)
    # ------------------------------------------------------------------
    def dist_variant(D, sh):
        """the caller's distance matrix in different widths / layouts"""
        base = D * 2.0 ** sh / 4.0
        v = rng.choice(["f64", "f64", "f32", "fortran", "strided", "f32-fortran"])
        ctx.count(f"geo:method:distance_matrix={v}")
        if v == "f64":
            return base.copy()
        if v == "f32":
            return base.astype(np.float32)
        if v == "fortran":
            return np.asfortranarray(base)
        if v == "f32-fortran":
            return np.asfortranarray(base.astype(np.float32))
        big = np.full((2 * base.shape[0], 2 * base.shape[1]), -7.0)
        big[::2, ::2] = base
        return big[::2, ::2]

    def frac_mat(M):
        return ";".join(",".join(f"{Fraction(float(x)).numerator}/{Fraction(float(x)).denominator}"
                                 for x in row) for row in np.asarray(M))

    def make_spatial(n, A):
        kind = rng.choice(["SpatialNetwork", "SpatialNetwork", "GeoNetwork"])
        ctx.count(f"geo:method:class={kind}")
        if kind == "GeoNetwork":
            lat = np.array([rng.uniform(-80, 80) for _ in range(n)])
            lon = np.array([rng.uniform(-170, 170) for _ in range(n)])
            grid = GeoGrid(np.arange(2.0), lat, lon, silence_level=3)
            return GeoNetwork(grid=grid, adjacency=A, directed=False, silence_level=3)
        grid = Grid(np.arange(2.0), np.array([[rng.uniform(-3, 3) for _ in range(n)],
                                              [rng.uniform(-3, 3) for _ in range(n)]]), silence_level=3)
        return SpatialNetwork(grid=grid, adjacency=A, directed=False, silence_level=3)

    def object_coherent(net, A1):
        return (net.N == A1.shape[0] and net.n_links == len(edge_list(A1))
                and sorted(map(tuple, net.graph.get_edgelist())) == edge_list(A1)
                and np.array_equal(net.degree(), A1.sum(axis=1))
                and np.array_equal(np.asarray(net.sp_A.todense()), A1))

    def dist_step(net, hist):
        """one call of set_random_links_by_distance on `net`, compared with the model"""
        n = net.N
        A0 = net.adjacency.copy()
        a, b = rng.choice([0.0, -0.5, -1.0, 0.25]), rng.choice([0.0, -0.1, -0.5, -4.0, 0.3])
        with np.errstate(all="ignore"):
            pm = np.exp(a + b * net.grid.distance())        # the same expression as the method's
        Pm = np.array([[rng.randrange(0, 64) / 64.0 for _ in range(n)] for _ in range(n)])
        tie = rng.random() < 0.3
        if tie:
            # hit the boundary of `>=` exactly: P[i,j] = P[j,i] = p[i,j] where p < 1
            for i in range(n):
                for j in range(i):
                    if rng.random() < 0.5 and 0 <= pm[i, j] < 1 and pm[i, j] == pm[j, i]:
                        Pm[i, j] = Pm[j, i] = float(pm[i, j])
        ctx.count("dist:" + ("with-ties" if tie else "dyadic-P"))
        seen = {}

        def sup(kind, arg):
            assert kind == "random" and tuple(arg) == (n, n), (kind, arg)
            seen["shape"] = tuple(arg)
            return Pm.copy()
        rp = {"call": f"{type(net).__name__}.set_random_links_by_distance", "a": a, "b": b,
              "history": list(hist), "A": A0.tolist(), "random_matrix": Pm.tolist()}
        try:
            with Patched(K, sup):
                net.set_random_links_by_distance(a=a, b=b)
        except Exception as e:  # noqa
            ctx.fail({"kind": "model", "generator": "set_random_links_by_distance", "invariant": "raises",
                      "error": type(e).__name__}, f"set_random_links_by_distance raised {e!r}", rp)
            return False
        A1 = net.adjacency
        rp["A_after"] = A1.tolist()
        if not np.all(np.isfinite(pm)):
            ctx.count("dist:non-finite-p (not compared)")
        else:
            reqs.append(f"dist {n} {frac_mat(pm)} {frac_mat(Pm)}")
            impl.append(enc_mat(A1))
        if A1.shape != A0.shape or not simple_undirected(A1) or not object_coherent(net, A1) or \
                (a == 0.0 and b == 0.0 and int(A1.sum()) != n * (n - 1)):
            ctx.fail({"kind": "model", "generator": "set_random_links_by_distance", "invariant": "simple"},
                     "set_random_links_by_distance: result not undirected loop-free on the same nodes / "
                     "p=1 not complete / object incoherent", rp)
        ctx.case(("dist", n, a, b, Pm.tobytes().hex(), A1.tobytes().hex()), A1.sum() > 0)
        ctx.count(f"set_random_links_by_distance:{type(net).__name__}")
        return True

    reqs, impl = [], []
    for _ in range(450 if quick else 2500):
        for _try in range(12):
            n, A, D, eps, mode = geo_case("method")
            D = np.maximum(D, D.T)
            if A.sum() == 0:
                continue
            # screen with the compiled kernel itself: is any rewiring admissible?
            el = edge_list(A)
            ok, _d = call_geo_kernel(mode, 1, A.astype(ADJ), D, eps, np.array(el, dtype=NODE),
                                     A.sum(axis=1).astype(DEGREE), len(el) ** 2 + 5)
            if ok or rng.random() < 0.1:
                break
        if A.sum() == 0 or n < 2:
            continue
        net = make_spatial(n, A)
        hist = []
        for step in range(rng.choice([1, 1, 2, 3, 5])):
            if step > 0:
                # a further operation on the same object: new mode / distances / tolerance
                if rng.random() < 0.3:
                    if not dist_step(net, hist):
                        break
                    hist.append("set_random_links_by_distance")
                    if rng.random() < 0.5:
                        continue
                mode = rng.choice(["I", "II", "III"])
                if rng.random() < 0.5:
                    _dk, D = dist_matrix(rng, n)
                    D = np.maximum(D, D.T)
                eps = rng.choice([1, 2, 3, 5, 400, 2 ** 40])
            if rng.random() < 0.5:
                net.degree()                                # fill the caches with the current state
            A0 = net.adjacency.copy()
            e0 = np.array(net.graph.get_edgelist()).reshape(-1, 2)
            E0 = int(net.n_links)
            if len(e0) == 0:
                break
            iters = rng.choice([1, 1, 2, 5, 12, 0])
            sh = pow2_shift()
            sup, state = uniform_pairs(len(e0), min(2500, 5 + iters * (len(e0) ** 2 + 5)))
            completed, err = True, None
            Dm = dist_variant(D, sh)
            Dm_before = Dm.copy()
            with Patched(K, sup):
                try:
                    getattr(net, "randomly_rewire_geomodel_" + mode)(
                        distance_matrix=Dm, iterations=iters, inaccuracy=eps * 2.0 ** sh / 4.0)
                except Stop:
                    completed = False
                except Exception as e:  # noqa
                    err = e
            rp = {"call": f"{type(net).__name__}.randomly_rewire_geomodel_{mode}", "iterations": iters,
                  "history_on_this_object": list(hist), "scale_all_distances_by_2**": sh,
                  "inaccuracy": eps / 4.0, "A": A0.tolist(), "distance_matrix": (D / 4.0).tolist()}
            if err is not None:
                ctx.fail({"kind": "geo", "level": "method", "mode": mode, "invariant": "raises",
                          "error": type(err).__name__},
                         f"randomly_rewire_geomodel_{mode} raised {err!r}", rp)
                break
            if not completed:
                ctx.count("geo:method:budget-exhausted")
                break               # the object was not updated (exception inside the kernel)
            idx = state["idx"]
            draws = list(zip(idx[::2], idx[1::2]))
            ks = list(zip(state["k"][::2], state["k"][1::2]))
            A1 = net.adjacency
            rp.update(edge_index_draws=draws, rd_random_values_times_2_pow_20=ks, A_after=A1.tolist())
            if rng.random() < 0.5:
                reqs.append(f"geoM {MODES[mode]} {n} {enc_mat(A0)} {enc_mat(D)} {eps} {iters} {enc_mat(draws)}")
            else:
                # the model evaluates the source's `np.floor(rd.random() * E)` on the RNG values itself
                reqs.append(f"geoMU {MODES[mode]} {n} {enc_mat(A0)} {enc_mat(D)} {eps} {iters} {enc_mat(ks)}")
                ctx.count("geo:method:draws-from-rng-values")
            impl.append(f"{enc_mat(A1)}|{enc_mat(e0)}|{E0}|{iters}")
            geo_oracle(ctx, mode, A0, A1, None, D, eps, "method", rp, iters == 1)
            if not object_coherent(net, A1):
                ctx.fail({"kind": "geo", "level": "method", "mode": mode, "invariant": "object-state"},
                         "N / n_links / graph / degree() / sp_A disagree with the rewired adjacency", rp)
            if not np.array_equal(Dm, Dm_before):
                ctx.fail({"kind": "geo", "level": "method", "mode": mode, "invariant": "caller-array"},
                         "the caller's distance matrix was modified", rp)
            ctx.case(("geoM", mode, A0.tobytes().hex(), D.tobytes().hex(), eps, iters, draws, sh),
                     not np.array_equal(A0, A1))
            ctx.count("geo:method:completed")
            ctx.count(f"geo:method:history-position={min(step, 3)}")
            hist.append(f"randomly_rewire_geomodel_{mode}(iterations={iters})")
    # ---- 2b. round 4, method level: (f32) the caller's distance matrix and `inaccuracy` are arbitrary
    #      doubles; the method converts them to binary32 (`to_cy(.., FIELD)`, C `float eps`) and the model
    #      gets exactly these binary32 values as integers (`geoMethodFl rnd32`); (b64) the RNG returns
    #      53-bit doubles k / 2^53 as numpy does and the model evaluates `floor(fl64(u * E))` itself
    def uniform_pairs53(E, budget):
        ps = PairStream(rng, E, E, budget)
        state = {"n": 0, "idx": [], "k": [], "ps": ps}

        def sup(kind, arg):
            assert kind == "random" and arg is None, (kind, arg)
            idx = ps.first() if state["n"] % 2 == 0 else ps.second()
            state["n"] += 1
            lo = -((-idx * 2 ** 53) // E)
            hi = -((-(idx + 1) * 2 ** 53) // E) - 1
            k = rng.choice([lo, hi, (lo + hi) // 2, rng.randrange(lo, hi + 1)])
            u = k / 2.0 ** 53
            real = int(np.floor(u * E))        # may be idx + 1 when the product rounds up to an integer
            if real != idx:
                ctx.count("geo:method:b64:rounded product reached the next index")
            state["idx"].append(real)
            state["k"].append(k)
            return u
        return sup, state

    for _ in range(200 if quick else 2000):
        n = rng.choice([4, 5, 5, 6, 7, 9])
        gk, A = structured_graph(rng, n)
        if A.sum() == 0:
            continue
        mode = rng.choice(["I", "II", "III"])
        flavour = rng.choice(["f32", "f32", "b64"])
        net = make_spatial(n, A)
        for step in range(rng.choice([1, 2])):
            A0 = net.adjacency.copy()
            e0 = np.array(net.graph.get_edgelist()).reshape(-1, 2)
            E0 = int(net.n_links)
            iters = rng.choice([1, 1, 2, 5])
            budget = min(1500, 5 + iters * (len(e0) ** 2 + 5))
            if flavour == "f32":
                D64 = np.zeros((n, n))
                kind = rng.choice(["uniform", "mixed-exponents", "near-2^24"])
                for i in range(n):
                    for j in range(i):
                        # doubles that are NOT binary32 numbers: the method's conversion rounds them
                        D64[i, j] = D64[j, i] = float(f32_value(kind)) * (1 + rng.randrange(1, 2 ** 20) * 2.0 ** -45)
                inacc = float(rng.choice([0.1, 0.3, rng.uniform(0, 5), 7.3, 1e4, 5e7, 1e30, 1e30,
                                          abs(float(np.float32(D64[0, 1])) - float(np.float32(D64[1, 2 % n])))]) or 0.5)
                D32 = D64.astype(np.float32)
                eps32 = np.float32(inacc)
                if not eps32 > 0:
                    continue
                den, ints = units(list(D32.flatten()) + [eps32])
                Dint, epsint = np.array(ints[:-1], dtype=object).reshape(n, n), ints[-1]
                sup, state = uniform_pairs(len(e0), budget)
                call_D, call_eps = D64, inacc
            else:
                _dk, Dq = dist_matrix(rng, n)
                Dq = np.maximum(Dq, Dq.T)
                epsq = rng.choice([2, 3, 5, 400, 400, 2 ** 40])
                Dint, epsint = Dq, epsq
                sup, state = uniform_pairs53(len(e0), budget)
                call_D, call_eps = Dq / 4.0, epsq / 4.0
            completed, err = True, None
            Dm_before = np.array(call_D, copy=True)
            with Patched(K, sup):
                try:
                    getattr(net, "randomly_rewire_geomodel_" + mode)(
                        distance_matrix=call_D, iterations=iters, inaccuracy=call_eps)
                except Stop:
                    completed = False
                except Exception as e:  # noqa
                    err = e
            rp = {"call": f"{type(net).__name__}.randomly_rewire_geomodel_{mode}", "iterations": iters,
                  "flavour": flavour, "inaccuracy": float(call_eps), "A": A0.tolist(),
                  "distance_matrix": np.asarray(call_D, dtype=np.float64).tolist()}
            if err is not None:
                ctx.fail({"kind": "geo", "level": "method", "mode": mode, "invariant": "raises",
                          "error": type(err).__name__},
                         f"randomly_rewire_geomodel_{mode} raised {err!r}", rp)
                break
            if not completed:
                ctx.count(f"geo:method:{flavour}:budget-exhausted")
                break
            idx = state["idx"]
            draws = list(zip(idx[::2], idx[1::2]))
            A1 = net.adjacency
            rp.update(edge_index_draws=draws, A_after=A1.tolist())
            if flavour == "f32":
                reqs.append(f"geoFM {MODES[mode]} {n} {enc_mat(A0)} {enc_mat(Dint)} {epsint} {iters} {enc_mat(draws)}")
            else:
                ks = list(zip(state["k"][::2], state["k"][1::2]))
                rp["rd_random_values_times_2_pow_53"] = ks
                reqs.append(f"geoMD {MODES[mode]} {n} {enc_mat(A0)} {enc_mat(Dint)} {epsint} {iters} {enc_mat(ks)}")
            impl.append(f"{enc_mat(A1)}|{enc_mat(e0)}|{E0}|{iters}")
            geo_oracle(ctx, mode, A0, A1, None, Dint, epsint, "method-" + flavour, rp, iters == 1)
            if not object_coherent(net, A1):
                ctx.fail({"kind": "geo", "level": "method", "mode": mode, "invariant": "object-state"},
                         "N / n_links / graph / degree() / sp_A disagree with the rewired adjacency", rp)
            if not np.array_equal(np.asarray(call_D), Dm_before):
                ctx.fail({"kind": "geo", "level": "method", "mode": mode, "invariant": "caller-array"},
                         "the caller's distance matrix was modified", rp)
            ctx.case(("geoM4", flavour, mode, A0.tobytes().hex(), str(rp["distance_matrix"]), float(call_eps), iters,
                      tuple(draws)), not np.array_equal(A0, A1))
            ctx.count(f"geo:method:{flavour}:completed")
    ctx.correspond("Lean geoMethod / distKernel == SpatialNetwork / GeoNetwork.randomly_rewire_geomodel_I/II/III, "
                   "set_random_links_by_distance (adjacency after; edge list, E and degree array derived by "
                   "the model; histories on one object); geoMethodFl rnd32 on arbitrary double distance matrices / "
                   "tolerances as converted to binary32 by the method; draws from 53-bit RNG values through "
                   "geoDrawR rnd64", reqs, impl)

    # ------------------------------------------------------------------
    # 3. cross links
    # ------------------------------------------------------------------
    def partition(n):
        k = rng.choice(["cover", "partial", "partial", "single"])
        nodes = list(range(n))
        rng.shuffle(nodes)
        if k == "cover":
            c = rng.randrange(1, n)
            return k, nodes[:c], nodes[c:]
        if k == "single":
            return k, nodes[:1], nodes[1:rng.randrange(2, n + 1)]
        a = rng.randrange(1, n - 1)
        b = rng.randrange(a + 1, n)
        return k, nodes[:a], nodes[a:b]

    def int_supplier(b1, b2, budget):
        """supplier for randint(b1), randint(b2) / int(random()*b1), int(random()*b2)"""
        ps = PairStream(rng, b1, b2, budget)
        state = {"n": 0, "vals": [], "ps": ps}

        def sup(kind, arg):
            first = state["n"] % 2 == 0
            idx = ps.first() if first else ps.second()
            state["n"] += 1
            if kind == "randint":
                assert int(arg) == (b1 if first else b2), (arg, b1, b2)
                state["vals"].append(idx)
                return idx
            assert kind == "random" and arg is None, (kind, arg)
            u = (idx + 0.5) / (b1 if first else b2)
            state["vals"].append(u)
            return u
        return sup, state

    reqs, impl = [], []
    for it_ in range(400 if quick else 5000):
        n = rng.choice([4, 5, 6, 7, 8, 9, 10, 11])
        gk, A = structured_graph(rng, n)
        if rng.random() < 0.5:
            gk, A = "random", rand_graph(rng, n, rng.choice([0.3, 0.5]))
        big = it_ < (2 if quick else 8)
        if big:
            # more than 127 cross links: counts (`cross_A.sum()` of an int8 matrix, `number_cross_links`,
            # `NODE(swaps * number_cross_links)`) beyond the range of the ADJ element type
            n = 26
            gk, A = "dense-26", rand_graph(rng, n, 0.93)
        ctx.count(f"cross:graph={gk}")
        pk, n1, n2 = partition(n)
        if big:
            nodes_ = list(range(n))
            rng.shuffle(nodes_)
            pk, n1, n2 = "cover-13+13", nodes_[:13], nodes_[13:]
        m1, m2 = len(n1), len(n2)
        A0 = A.astype(ADJ)
        nodes1, nodes2 = np.array(n1, dtype=NODE), np.array(n2, dtype=NODE)
        ctx.count(f"cross:partition={pk}")
        # ---- set, kernel level (also from a non-empty cross matrix)
        C0 = np.zeros((m1, m2), dtype=ADJ)
        if rng.random() < 0.3:
            C0 = (np.array([[rng.random() < 0.3 for _ in range(m2)] for _ in range(m1)])).astype(ADJ)
        free = int(m1 * m2 - C0.sum())
        k = rng.choice([0, free, rng.randrange(0, free + 1), rng.randrange(0, free + 1)])
        A1, C1 = A0.copy(), C0.copy()
        sup, state = int_supplier(m1, m2, 5 + k * (m1 * m2 + 2))
        completed = True
        with Patched(K, sup):
            try:
                K._randomlySetCrossLinks(A1, C1, k, nodes1, nodes2, m1, m2)
            except Stop:
                completed = False
        v = state["vals"]
        draws = list(zip(v[::2], v[1::2]))
        reqs.append(f"crossset {int(completed)} {n} {enc_mat(A0)} {m1} {m2} {enc_mat(C0)} {k} "
                    f"{enc_vec(n1)} {enc_vec(n2)} {enc_mat(draws)}")
        impl.append(f"{enc_mat(A1)}|{enc_mat(C1)}|{k if completed else '<'}")
        rp = {"call": "_randomlySetCrossLinks", "A": A0.tolist(), "cross_A": C0.tolist(),
              "number_cross_links": k, "nodes1": n1, "nodes2": n2, "randint_draws": draws,
              "A_after": A1.tolist()}
        if completed:
            cross_oracle(ctx, "set", "kernel", A0, A1, n1, n2, int(C0.sum()) + k, rp, False)
            if not np.array_equal(A1[np.ix_(n1, n2)], C1):
                ctx.fail({"kind": "cross", "op": "set", "level": "kernel", "invariant": "block"},
                         "cross block of A differs from cross_A", rp)
        ctx.case(("cset", A0.tobytes().hex(), C0.tobytes().hex(), k, tuple(n1), tuple(n2), draws), k > 0,
                 {"op": "_randomlySetCrossLinks", "A": enc_mat(A0), "nodes1": n1, "nodes2": n2,
                  "number_cross_links": k, "draws": draws[:6]} if n <= 5 else None)
        ctx.count("cross:set:kernel:" + ("completed" if completed else "budget-exhausted"))

        # ---- rewire, kernel level
        C0 = A0[np.ix_(n1, n2)].copy()
        links = np.array(C0.nonzero(), dtype=NODE).transpose().copy()
        if rng.random() < 0.5 and len(links):
            perm = list(range(len(links)))
            rng.shuffle(perm)
            links = links[perm].copy()
        L = len(links)
        swaps = 0 if L < 2 else rng.choice([0, 1, 1, 2, 5, 10])
        A1, C1, links1 = A0.copy(), C0.copy(), links.copy()
        sup, state = int_supplier(L, L, 5 + swaps * (L * L + 2))
        completed = True
        with Patched(K, sup):
            try:
                K._randomlyRewireCrossLinks(A1, C1, links1, nodes1, nodes2, L, swaps)
            except Stop:
                completed = False
        v = state["vals"]
        draws = list(zip(v[::2], v[1::2]))
        main_completed, main_cycles = completed, state["ps"].cycles()
        reqs.append(f"crossrewire {int(completed)} {n} {enc_mat(A0)} {m1} {m2} {enc_mat(C0)} "
                    f"{enc_mat(links)} {enc_vec(n1)} {enc_vec(n2)} {swaps} {enc_mat(draws)}")
        impl.append(f"{enc_mat(A1)}|{enc_mat(C1)}|{enc_mat(links1)}|{swaps if completed else '<'}")
        rp = {"call": "_randomlyRewireCrossLinks", "A": A0.tolist(), "cross_A": C0.tolist(),
              "cross_links": links.tolist(), "nodes1": n1, "nodes2": n2, "number_swaps": swaps,
              "randint_draws": draws, "A_after": A1.tolist()}
        if completed:
            cross_oracle(ctx, "rewire", "kernel", A0, A1, n1, n2, int(C0.sum()), rp, True)
        if sorted(map(tuple, links1.tolist())) != sorted(zip(*map(lambda x: x.tolist(), C1.nonzero()))):
            ctx.fail({"kind": "cross", "op": "rewire", "level": "kernel", "invariant": "link-list"},
                     "cross_links is no longer the list of ones of cross_A", rp)
        ctx.case(("crew", A0.tobytes().hex(), tuple(n1), tuple(n2), links.tobytes().hex(), swaps, draws),
                 not np.array_equal(C0, C1))
        if L >= 1:
            # existence of an admissible swap: one swap from the initial state under a stream that
            # offers every pair of link indices
            A2, C2, links2 = A0.copy(), C0.copy(), links.copy()
            sup, state = int_supplier(L, L, L * L + 5)
            done1 = True
            with Patched(K, sup):
                try:
                    K._randomlyRewireCrossLinks(A2, C2, links2, nodes1, nodes2, L, 1)
                except Stop:
                    done1 = False
            v = state["vals"]
            offered = set(zip(v[::2], v[1::2]))
            if done1 or offered >= {(i_, j_) for i_ in range(L) for j_ in range(L)}:
                adm_reqs.append(f"crossadm {enc_mat(C0)} {enc_mat(links)}")
                adm_impl.append("1" if done1 else "0")
                ctx.count("cross:admissible-swap:" + ("exists" if done1 else "none (all pairs rejected)"))
            # termination (oracle): admissible at the start => admissible for ever; `swaps` complete passes
            # through all pairs of link indices make `swaps` swaps
            if done1 and swaps > 0:
                if main_completed:
                    ctx.count("cross:termination:admissible-run-completed")
                elif main_cycles >= swaps:
                    ctx.fail({"kind": "cross", "op": "rewire", "level": "kernel", "invariant": "termination"},
                             f"_randomlyRewireCrossLinks: a swap is admissible, every pair of link indices was "
                             f"offered {main_cycles} times, but fewer than {swaps} swaps were made", rp)
                else:
                    ctx.count("cross:termination:stream-too-short (not judged)")
        ctx.count("cross:rewire:kernel:" + ("completed" if completed else "budget-exhausted"))

        # ---- public methods: histories (the result of one call is the input of the next); the model
        #      derives cross block, link list, link / swap counts itself; kernel arguments observed by spies
        def as_container(nl):
            k = rng.choice(["list", "list", "tuple", "int64-array", "NODE-array"])
            ctx.count(f"cross:method:node_list={k}")
            return {"list": list(nl), "tuple": tuple(nl), "int64-array": np.array(nl, dtype=np.int64),
                    "NODE-array": np.array(nl, dtype=NODE)}[k]

        weights = None if rng.random() < 0.5 else np.array([rng.randrange(1, 5) / 2.0 for _ in range(n)])
        net = InteractingNetworks(adjacency=A0, directed=False, node_weights=weights, silence_level=3)
        variants = ["number", "density", "null", "toomany", "sparse-number", "sparse-density",
                    "sparse-null", "sparse-toomany", "rewire", "rewire"]
        rng.shuffle(variants)
        hist = []
        for variant in variants:
            seen = {}
            Acur = net.adjacency.copy()
            Lc = int(Acur[np.ix_(n1, n2)].sum())
            l1, l2 = as_container(n1), as_container(n2)
            if variant == "rewire":
                if Lc < 2:
                    continue
                sw = rng.choice([0.5, 1.0, 2.0, 1.5, 0.25, 0.0, 3.0, 2, 1])
                orig = IN._randomlyRewireCrossLinks

                def spy(A_, C_, links_, a_, b_, ncl, nsw, orig=orig, seen=seen):
                    seen.update(C=C_.copy(), links=links_.copy(), ncl=int(ncl), nsw=int(nsw))
                    return orig(A_, C_, links_, a_, b_, ncl, nsw)
                IN._randomlyRewireCrossLinks = spy
                sup, state = int_supplier(Lc, Lc, 5 + int(sw * Lc) * (Lc * Lc + 2))
                completed, out, err = True, None, None
                try:
                    with Patched(K, sup):
                        try:
                            out = InteractingNetworks.RandomlyRewireCrossLinks(net, l1, l2, sw)
                        except Stop:
                            completed = False
                        except Exception as e:  # noqa
                            err = e
                finally:
                    IN._randomlyRewireCrossLinks = orig
                rp = {"call": "InteractingNetworks.RandomlyRewireCrossLinks", "A": Acur.tolist(),
                      "node_list1": n1, "node_list2": n2, "swaps": sw, "history": list(hist)}
                if err is not None:
                    ctx.fail({"kind": "cross", "op": "rewire", "level": "method", "invariant": "raises",
                              "error": type(err).__name__},
                             f"RandomlyRewireCrossLinks(swaps={sw}) raised {err!r}", rp)
                    continue
                if not completed:
                    ctx.count("cross:rewire:method:budget-exhausted")
                    continue
                v = state["vals"]
                draws = list(zip(v[::2], v[1::2]))
                A1 = out.adjacency
                rp.update(randint_draws=draws, A_after=A1.tolist())
                swf = Fraction(sw)
                reqs.append(f"crossrewireM {n} {enc_mat(Acur)} {enc_vec(n1)} {enc_vec(n2)} "
                            f"{swf.numerator}/{swf.denominator} {enc_mat(draws)}")
                impl.append(f"{enc_mat(A1)}|{enc_mat(seen['C'])}|{enc_mat(seen['links'])}|{seen['nsw']}|{seen['nsw']}")
                if seen["ncl"] != Lc:
                    ctx.fail({"kind": "cross", "op": "rewire", "level": "method", "invariant": "swap-count"},
                             f"kernel called with number_cross_links={seen['ncl']}, there are {Lc}", rp)
                cross_oracle(ctx, "rewire", "method", Acur, A1, n1, n2, Lc, rp, True)
                ctx.case(("crewM", Acur.tobytes().hex(), tuple(n1), tuple(n2), sw, draws),
                         not np.array_equal(Acur, A1))
                ctx.count("cross:rewire:method:completed")
            else:
                # ---- RandomlySetCrossLinks(_sparse)
                kw, expect = {}, None
                base = variant.replace("sparse-", "")
                dens_s, num_s = "-", "-"
                if base == "number":
                    kk = rng.randrange(0, m1 * m2 + 1)
                    kw, expect = {"number_cross_links": kk}, kk
                    num_s = str(kk)
                elif base == "density":
                    dens = rng.choice([0.0, 0.25, 0.5, 0.75, 1.0, 0.125, 0.375, 0.9375, 1.5])
                    expect = int(Fraction(dens) * m1 * m2)
                    kw = {"cross_link_density": dens}
                    if rng.random() < 0.3:
                        kw["number_cross_links"] = rng.randrange(0, m1 * m2 + 1)    # density has priority
                        num_s = str(kw["number_cross_links"])
                    if expect > m1 * m2:
                        expect = Lc
                    dens_s = f"{Fraction(dens).numerator}/{Fraction(dens).denominator}"
                elif base == "null":
                    kw, expect = {}, Lc
                else:
                    kw, expect = {"number_cross_links": m1 * m2 + rng.randrange(1, 4)}, Lc
                    num_s = str(kw["number_cross_links"])
                sparse = variant.startswith("sparse")
                fn = InteractingNetworks.RandomlySetCrossLinks_sparse if sparse \
                    else InteractingNetworks.RandomlySetCrossLinks
                orig = IN._randomlySetCrossLinks

                def spy2(A_, C_, kk_, a_, b_, mm, nn, orig=orig, seen=seen):
                    seen.update(k=int(kk_), C=C_.copy())
                    return orig(A_, C_, kk_, a_, b_, mm, nn)
                IN._randomlySetCrossLinks = spy2
                sup, state = int_supplier(m1, m2, 5 + expect * (m1 * m2 + 2))
                completed, out, err = True, None, None
                try:
                    with Patched(K, sup):
                        try:
                            with contextlib.redirect_stdout(io.StringIO()):
                                out = fn(net, l1, l2, **kw)
                        except Stop:
                            completed = False
                        except Exception as e:  # noqa
                            err = e
                finally:
                    IN._randomlySetCrossLinks = orig
                rp = {"call": fn.__name__, "A": Acur.tolist(), "node_list1": n1, "node_list2": n2,
                      "history": list(hist), **kw}
                if err is not None:
                    ctx.fail({"kind": "cross", "op": "set", "level": "method", "variant": variant,
                              "invariant": "raises", "error": type(err).__name__},
                             f"{fn.__name__}({kw}) raised {type(err).__name__}: {err}", rp)
                    continue
                if not completed:
                    ctx.count("cross:set:method:budget-exhausted")
                    continue
                v = state["vals"]
                if sparse:
                    draws = [(int(a * m1), int(b * m2)) for a, b in zip(v[::2], v[1::2])]
                else:
                    draws = list(zip(v[::2], v[1::2]))
                A1 = np.asarray(out.adjacency)
                kreal = int(A1[np.ix_(n1, n2)].sum()) if sparse else seen["k"]
                rp.update(draws=draws, A_after=A1.tolist())
                reqs.append(f"crosssetM {'sparse' if sparse else 'dense'} {n} {enc_mat(Acur)} {enc_vec(n1)} "
                            f"{enc_vec(n2)} {dens_s} {num_s} {enc_mat(draws)}")
                impl.append(f"{enc_mat(A1)}|{kreal}|{kreal}")
                cross_oracle(ctx, "set:" + variant, "method", Acur, A1, n1, n2, expect, rp, False)
                ctx.case(("csetM", variant, Acur.tobytes().hex(), tuple(n1), tuple(n2), str(kw), draws), expect > 0)
                ctx.count(f"cross:set:method:{variant}")
            # the input network and the caller's node lists are left as they were; the result is coherent
            if not np.array_equal(net.adjacency, Acur) or list(l1) != list(n1) or list(l2) != list(n2):
                ctx.fail({"kind": "cross", "op": variant, "level": "method", "invariant": "input-unchanged"},
                         "the input network / node lists were modified", rp)
            if out.N != n or out.n_links != int(A1.sum()) // 2 or \
                    not np.array_equal(out.degree(), A1.sum(axis=1)) or \
                    not (weights is None or np.array_equal(out.node_weights, weights)):
                ctx.fail({"kind": "cross", "op": variant, "level": "method", "invariant": "object-state"},
                         "N / n_links / degree() / node_weights of the returned network are incoherent", rp)
            if rng.random() < 0.5:
                net = out                                   # history: go on from the result
                hist.append(variant)
                ctx.count(f"cross:method:history-length={min(len(hist), 4)}")

    ctx.correspond("Lean geoAdmissible / crossAdmissible == 'the compiled kernel makes a swap when every pair of "
                   "link indices is offered' (existence of an admissible swap = termination)", adm_reqs, adm_impl)
    ctx.correspond("Lean crossSetRun/crossRun/overwrite == compiled cross-link kernels; "
                   "randomlySetCrossLinks/setCount(Sparse)/randomlyRewireCrossLinks/swapCount/crossBlock/onesList == "
                   "InteractingNetworks.RandomlySetCrossLinks(_sparse)/RandomlyRewireCrossLinks "
                   "(adjacency, cross matrix and link list handed to the kernel, link / swap counts; histories)",
                   reqs, impl)

    # ------------------------------------------------------------------
    # 4. Barabasi-Albert (own implementation); `targets` and `last_child` observed through np.zeros
    # ------------------------------------------------------------------
    reqs, impl = [], []
    for c in range(400 if quick else 5000):
        m = rng.choice([1, 1, 2, 2, 3, 4, 6] if quick else [1, 2, 3, 4, 5, 6, 9])
        N = m + 1 + rng.choice([0, 1, 2, 3, 5, 8, 12] if quick else [0, 1, 2, 3, 5, 8, 12, 20, 40])
        natural = rng.random() < 0.3
        state = {"left": 60 * m * N + 50, "idx": []}
        nseed = rng.randrange(2 ** 31)
        nprs = np.random.RandomState(nseed)

        def sup(kind, arg, state=state, natural=natural, nprs=nprs):
            assert kind == "uniform", kind
            low, high, size = arg
            assert low == 0 and size is None
            if state["left"] <= 0:
                raise Stop()
            state["left"] -= 1
            u = float(nprs.uniform(low, high)) if natural else \
                rng.randrange(int(high)) + rng.choice([0.0, 0.5, 0.25, 0.999])
            state["idx"].append(int(u))
            return u
        out, err = None, None
        with Patched(K, sup, spy_zeros=True) as pt:
            try:
                out = Network.BarabasiAlbert(n_nodes=N, n_links_each=m)
            except Stop:
                pass
            except Exception as e:  # noqa
                err = e
        rp = {"call": "Network.BarabasiAlbert", "n_nodes": N, "n_links_each": m,
              "target_index_draws": state["idx"]}

        def badba(inv, what, rp=rp):
            ctx.fail({"kind": "model", "generator": "BarabasiAlbert", "invariant": inv},
                     f"BarabasiAlbert(n_nodes={rp['n_nodes']}, n_links_each={rp['n_links_each']}): {what}", rp)
        if err is not None:
            badba("raises", f"raised {err!r}")
            continue
        if out is None:
            ctx.count("ba:budget-exhausted")
            continue
        A1 = np.asarray(out.toarray())
        rp["A"] = A1.tolist()
        arrs = [z for z in pt.zeros]
        if len(arrs) >= 2 and len(arrs[1]) == N:
            targets, last_child = arrs[0], arrs[1]
            reqs.append(f"baT {N} {m} {enc_vec(state['idx'])}")
            impl.append(f"{enc_mat(A1)}|{N}|0|{enc_vec(targets)}|{enc_vec(last_child)}")
            ctx.count("ba:targets-observed")
        else:
            reqs.append(f"ba {N} {m} {enc_vec(state['idx'])}")
            impl.append(f"{enc_mat(A1)}|{N}|0")
            ctx.count("ba:targets-not-observed")
        if not simple_undirected(A1):
            badba("simple", "not a simple undirected graph")
        elif A1.shape != (N, N) or int(A1.sum()) // 2 != m * (N - m):
            badba("link-count", f"{int(A1.sum()) // 2} links, documented {m * (N - m)}")
        else:
            for j in range(m + 1, N):
                if int(A1[j, :j].sum()) != m:
                    badba("links-each", f"node {j} got {int(A1[j, :j].sum())} links to older nodes")
                    break
        ctx.case(("ba", N, m, tuple(state["idx"])), N > m + 1,
                 {"op": "BarabasiAlbert", "N": N, "m": m, "draws": state["idx"][:10]} if N <= 6 else None)
        ctx.count("ba:" + ("numpy-stream" if natural else "driven-stream"))
    ctx.correspond("Lean baRun == Network.BarabasiAlbert (adjacency, final `targets` and `last_child` arrays; "
                   "recorded target-index draws)", reqs, impl)

    # ------------------------------------------------------------------
    # 5. igraph-backed generators / rewiring, distance-kernel model: invariants only
    # ------------------------------------------------------------------
    def quiet(f, *a, **k):
        with contextlib.redirect_stdout(io.StringIO()):
            return f(*a, **k)

    def gen_call(name, f, **kw):
        """a generator call inside "defined": an exception of the real code is a reported failure, not a
        crash of the harness"""
        try:
            return np.asarray(quiet(f, **kw))
        except Exception as e:  # noqa
            ctx.fail({"kind": "model", "generator": name, "invariant": "raises", "error": type(e).__name__},
                     f"{name}({kw}) raised {e!r}", {"call": name, "kwargs": {k_: (v_ if isinstance(v_, (int, float)) else float(v_)) for k_, v_ in kw.items()}})
            return None

    reqs, impl = [], []
    for c in range(40 * scale):
        N = rng.randrange(2, 14) if rng.random() < 0.9 else rng.randrange(14, 60)
        maxl = N * (N - 1) // 2
        L = rng.choice([0, maxl, rng.randrange(0, maxl + 1)])
        with IgraphSpy("Erdos_Renyi") as spy:
            A = gen_call("ErdosRenyi", Network.ErdosRenyi, n_nodes=N, n_links=L)
        ctx.count("generator:ErdosRenyi(n_links)")
        if A is None:
            continue
        ctx.case(("er", N, L, A.tobytes().hex()), L > 0)
        # round 5: igraph's contract (simple graph on N nodes with exactly L links) is checked on every
        # call; the model reads the adjacency matrix out of the graph igraph returned
        # (theorems generator_adjacency_spec / erdosRenyi_spec)
        if spy.edges:
            es = spy.edges[-1]
            if spy.vcount[-1] != N or len(es) != L or any(a_ == b_ for a_, b_ in es) \
                    or len({frozenset(e) for e in es}) != len(es):
                ctx.count("ErdosRenyi:igraph-contract-broken")
            reqs.append(f"edges {N} {enc_mat(es) if es else '-'}")
            impl.append(enc_mat(A.reshape(N, N)))
            # the arguments handed to igraph: exactly (n=n_nodes, m=n_links)
            reqs.append("ercall 0 1")
            impl.append("m" if igraph_call(spy.calls[-1], ER_NAMES, ER_DEFAULTS) == {"n": N, "m": L}
                        else f"other:{spy.calls[-1]}")
        else:
            ctx.count("ErdosRenyi:igraph-call-not-observed")
        if not simple_undirected(A) or int(A.sum()) // 2 != L:
            ctx.fail({"kind": "model", "generator": "ErdosRenyi", "invariant": "link-count"},
                     f"ErdosRenyi(n_nodes={N}, n_links={L}) gave {int(A.sum()) // 2} links / not simple",
                     {"n_nodes": N, "n_links": L, "A": A.tolist()})
        p = rng.choice([0.0, 0.3, 1.0])
        with IgraphSpy("Erdos_Renyi") as spy:
            A = gen_call("ErdosRenyi", Network.ErdosRenyi, n_nodes=N, link_probability=p)
        ctx.count("generator:ErdosRenyi(p)")
        if A is None:
            continue
        if spy.edges:
            es = spy.edges[-1]
            if spy.vcount[-1] != N or any(a_ == b_ for a_, b_ in es) or len({frozenset(e) for e in es}) != len(es):
                ctx.count("ErdosRenyi:igraph-contract-broken")
            reqs.append(f"edges {N} {enc_mat(es) if es else '-'}")
            impl.append(enc_mat(A.reshape(N, N)))
            reqs.append("ercall 1 0")
            impl.append("p" if igraph_call(spy.calls[-1], ER_NAMES, ER_DEFAULTS) == {"n": N, "p": p}
                        else f"other:{spy.calls[-1]}")
            if p in (0.0, 1.0) and int(A.sum()) // 2 != (0 if p == 0.0 else maxl):
                ctx.fail({"kind": "model", "generator": "ErdosRenyi", "invariant": "p-extreme"},
                         f"ErdosRenyi(n_nodes={N}, link_probability={p}) gave {int(A.sum()) // 2} links",
                         {"n_nodes": N, "p": p, "A": A.tolist()})
        # the argument dispatch: both or neither argument -> ValueError, never a silent result
        if c < 8:
            for hp_, hm_ in [(0, 0), (1, 1), (1, 0), (0, 1)]:
                kw = {"n_nodes": N}
                if hp_:
                    kw["link_probability"] = rng.choice([0.0, 0.5, 1.0])   # 0.0 is "given" (`is not None`)
                if hm_:
                    kw["n_links"] = rng.choice([0, L])                      # so is n_links=0
                try:
                    quiet(Network.ErdosRenyi, **kw)
                    out = "p" if hp_ else "m"
                except ValueError:
                    out = "raise:ValueError"
                except Exception as e:  # noqa
                    out = "raise:" + type(e).__name__
                reqs.append(f"ercall {hp_} {hm_}")
                impl.append(out)
                ctx.count(f"generator:ErdosRenyi:dispatch p={'given' if hp_ else 'None'} m={'given' if hm_ else 'None'} -> {out}")
                if hp_ == hm_ and out != "raise:ValueError":
                    ctx.fail({"kind": "model", "generator": "ErdosRenyi", "invariant": "dispatch"},
                             f"ErdosRenyi({kw}) did not raise ValueError", {"kwargs": {k_: float(v_) for k_, v_ in kw.items()}})
        if not simple_undirected(A):
            ctx.fail({"kind": "model", "generator": "ErdosRenyi", "invariant": "simple"},
                     "ErdosRenyi(p) not simple", {"n_nodes": N, "p": p, "A": A.tolist()})
        # configuration model: graphical sequences (degrees of a random graph) and arbitrary even-sum
        # sequences (hubs beyond N-1, a single node, all in one node: igraph then returns loops /
        # multiple links, which `simplify()` removes); the multigraph igraph produced is observed by a
        # spy and handed to the model (`simplified`); igraph's contract is checked on every call
        G = rand_graph(rng, N, rng.choice([0.2, 0.5, 0.8]))
        want = G.sum(axis=1).tolist()
        ck = rng.choice(["graphical", "graphical", "arbitrary", "hub", "one-node", "zeros"])
        if ck == "arbitrary":
            want = [rng.randrange(0, N + 2) for _ in range(N)]
        elif ck == "hub":
            want = [1] * N
            want[rng.randrange(N)] = N + rng.randrange(0, 6)
        elif ck == "one-node":
            want = [0] * N
            want[rng.randrange(N)] = 2 * rng.randrange(1, 4)
        elif ck == "zeros":
            want = [0] * N
        if sum(want) % 2:
            want[rng.randrange(N)] += 1
        container = rng.choice(["list", "int-array", "tuple"])
        arg = {"list": list(want), "int-array": np.array(want, dtype=rng.choice([np.int64, np.int32, np.int16])),
               "tuple": tuple(want)}[container]
        with IgraphSpy("Degree_Sequence") as spy:
            try:
                A, err = np.asarray(quiet(Network.Configuration, arg)), None
            except Exception as e:  # noqa
                A, err = None, e
        rpc = {"call": "Network.Configuration", "degree": want, "container": container}
        ctx.count(f"generator:Configuration:{ck}")
        if err is not None:
            ctx.fail({"kind": "model", "generator": "Configuration", "invariant": "raises",
                      "error": type(err).__name__}, f"Configuration({want}) raised {err!r}", rpc)
        else:
            A = A.reshape(N, N) if A.size == 0 else A
            es = spy.edges[-1] if spy.edges else None
            rpc.update(igraph_edges=es, A=A.tolist())
            ctx.case(("conf", tuple(want), A.tobytes().hex()), sum(want) > 0)
            if es is not None:
                inc = np.zeros(N, dtype=int)
                for a_, b_ in es:
                    inc[a_] += 1
                    inc[b_] += 1
                if spy.vcount[-1] != N or not np.array_equal(inc, np.array(want)):
                    ctx.count("Configuration:igraph-contract-broken")
                reqs.append(f"simplify {N} {enc_mat(es) if es else '-'}")
                impl.append(enc_mat(A))
                if any(a_ == b_ for a_, b_ in es) or len({frozenset(e) for e in es}) != len(es):
                    ctx.count("Configuration:igraph-returned-loops-or-multiple-links")
            if not simple_undirected(A) or A.shape != (N, N) or np.any(A.sum(axis=1) > np.array(want)) or \
                    (es is not None and any(not A[a_, b_] for a_, b_ in es if a_ != b_)):
                ctx.fail({"kind": "model", "generator": "Configuration", "invariant": "degree-bound"},
                         f"Configuration({want}) gave degrees {A.sum(axis=1).tolist()} / not simple / lost a link",
                         rpc)
        # an odd degree sum cannot be realised: igraph refuses (outside "defined"), never a silent result
        if rng.random() < 0.1:
            odd = list(want)
            odd[0] += 1
            try:
                quiet(Network.Configuration, odd)
                ctx.fail({"kind": "model", "generator": "Configuration", "invariant": "odd-sum-accepted"},
                         f"Configuration({odd}): odd degree sum accepted", {"degree": odd})
            except Exception:  # noqa
                ctx.count("generator:Configuration:odd-sum-refused")
        k = rng.randrange(1, 3)
        Nw = rng.randrange(2 * k + 2, 16)
        with IgraphSpy("Watts_Strogatz") as spy:
            pw = rng.choice([0.0, 0.2, 1.0])
            A = gen_call("WattsStrogatz", Network.WattsStrogatz, N=Nw, k=k, p=pw)
        ctx.count("generator:WattsStrogatz")
        if A is None:
            continue
        if spy.edges:
            es = spy.edges[-1]
            if spy.vcount[-1] != Nw or len(es) != Nw * k or any(a_ == b_ for a_, b_ in es) \
                    or len({frozenset(e) for e in es}) != len(es):
                ctx.count("WattsStrogatz:igraph-contract-broken")
            reqs.append(f"edges {Nw} {enc_mat(es) if es else '-'}")
            impl.append(enc_mat(A.reshape(Nw, Nw)))
            # the oracle below judges the result; a different way of calling igraph is only counted
            if igraph_call(spy.calls[-1], WS_NAMES, WS_DEFAULTS) != {"dim": 1, "size": Nw, "nei": k, "p": pw}:
                ctx.count("WattsStrogatz:unexpected igraph arguments")
        else:
            ctx.count("WattsStrogatz:igraph-call-not-observed")
        if not simple_undirected(A) or int(A.sum()) // 2 != Nw * k:
            ctx.fail({"kind": "model", "generator": "WattsStrogatz", "invariant": "link-count"},
                     f"WattsStrogatz(N={Nw}, k={k}) gave {int(A.sum()) // 2} links / not simple",
                     {"N": Nw, "k": k, "A": A.tolist()})
        # Network.Model / SpatialNetwork.Model / GeoNetwork.Model with every documented model name
        mm = rng.randrange(1, 4)
        NN = mm + 1 + rng.randrange(0, 8)
        G0 = rand_graph(rng, NN, 0.5)
        mname, kwargs, expect_links = rng.choice([
            ("BarabasiAlbert", {"n_nodes": NN, "n_links_each": mm}, mm * (NN - mm)),
            ("BarabasiAlbert", {"n_nodes": NN, "n_links_each": mm}, mm * (NN - mm)),
            ("ErdosRenyi", {"n_nodes": NN, "n_links": min(mm * 2, NN * (NN - 1) // 2)},
             min(mm * 2, NN * (NN - 1) // 2)),
            ("BarabasiAlbert_igraph", {"n_nodes": NN, "n_links_each": mm}, None),
            ("Configuration", {"degree": G0.sum(axis=1).tolist()}, None)])
        cls = rng.choice(["Network", "Network", "SpatialNetwork", "GeoNetwork"])
        try:
            if cls == "Network":
                net = quiet(Network.Model, mname, **kwargs)
            elif cls == "SpatialNetwork":
                grid = Grid(np.arange(2.0), np.array([np.arange(NN) * 1.0, np.arange(NN) * 2.0]), silence_level=3)
                net = quiet(SpatialNetwork.Model, mname, grid, **kwargs)
            else:
                grid = GeoGrid(np.arange(2.0), np.linspace(-60, 60, NN), np.linspace(-100, 100, NN), silence_level=3)
                net = quiet(GeoNetwork.Model, mname, grid, **kwargs)
            ctx.count(f"generator:{cls}.Model({mname})")
            ctx.case(("model", cls, mname, str(kwargs), net.adjacency.tobytes().hex()), NN > mm + 1)
            if net.N != NN or (expect_links is not None and net.n_links != expect_links) or \
                    not simple_undirected(net.adjacency) or \
                    net.n_links != int(net.adjacency.sum()) // 2 or \
                    not np.array_equal(net.degree(), net.adjacency.sum(axis=1)) or \
                    (mname == "Configuration" and np.any(net.degree() > G0.sum(axis=1))):
                ctx.fail({"kind": "model", "generator": f"Model({mname})", "class": cls, "invariant": "link-count"},
                         f"{cls}.Model('{mname}', {kwargs}): N={net.N}, n_links={net.n_links}, "
                         f"documented {expect_links}",
                         {"class": cls, "model": mname, "kwargs": kwargs, "A": net.adjacency.tolist()})
        except Exception as e:  # noqa
            ctx.fail({"kind": "model", "generator": f"Model({mname})", "class": cls, "invariant": "raises",
                      "error": type(e).__name__},
                     f"{cls}.Model('{mname}', {kwargs}) raised {e!r}", {"class": cls, "model": mname, "kwargs": kwargs})
        mb = rng.randrange(1, 4)
        with IgraphSpy("Barabasi") as spy:
            A = np.asarray(Network.BarabasiAlbert_igraph(n_nodes=N + 2, n_links_each=mb))
        ctx.count("generator:BarabasiAlbert_igraph")
        if spy.edges:
            reqs.append(f"simplify {N + 2} {enc_mat(spy.edges[-1]) if spy.edges[-1] else '-'}")
            impl.append(enc_mat(A))
        if not simple_undirected(A) or A.shape[0] != N + 2 or np.any(A.sum(axis=1)[mb + 1:] < 1):
            ctx.fail({"kind": "model", "generator": "BarabasiAlbert_igraph", "invariant": "simple"},
                     "BarabasiAlbert_igraph not simple / wrong node count", {"n_nodes": N + 2, "m": mb, "A": A.tolist()})
        # Network.randomly_rewire = igraph rewire (trusted, its contract is checked here) + set_edge_list,
        # which is modelled (`fromEdges`): the edge list handed over is observed by a spy.  Histories.
        n = rng.randrange(2, 10)
        gk, G = structured_graph(rng, n)
        if rng.random() < 0.3:
            G[n - 1, :] = G[:, n - 1] = 0      # trailing isolated node
        if rng.random() < 0.1:
            G[:] = 0                           # no links at all
        net = Network(adjacency=G, directed=False, silence_level=3)
        for _h in range(rng.choice([1, 1, 2, 3])):
            G0 = net.adjacency.copy()
            it = rng.choice([1, 3, 10, 50, 0])
            seen = {}
            orig_sel = net.set_edge_list

            def spy_sel(edge_list_, n_nodes=None, seen=seen, orig_sel=orig_sel):
                seen.update(edges=[tuple(map(int, e)) for e in edge_list_], n_nodes=n_nodes)
                return orig_sel(edge_list_, n_nodes=n_nodes)
            net.set_edge_list = spy_sel
            err = None
            try:
                net.randomly_rewire(it)
            except Exception as e:  # noqa
                err = e
            del net.set_edge_list
            rp = {"A": G0.tolist(), "iterations": it}
            if err is not None:
                ctx.fail({"kind": "rewire", "method": "randomly_rewire", "invariant": "raises",
                          "error": type(err).__name__}, f"randomly_rewire raised {err!r}", rp)
                break
            A1 = net.adjacency
            rp["A_after"] = A1.tolist()
            ctx.case(("rr", G0.tobytes().hex(), it, A1.tobytes().hex()), not np.array_equal(G0, A1))
            ctx.count("randomly_rewire")
            es = seen.get("edges", [])
            if seen.get("n_nodes") is not None:
                reqs.append(f"edges {int(seen['n_nodes'])} {enc_mat(es) if es else '-'}")
                impl.append(enc_mat(A1))
            # igraph's contract (trusted base): a simple edge list with the old incidence counts
            inc = np.zeros(n, dtype=int)
            for a_, b_ in es:
                inc[a_] += 1
                inc[b_] += 1
            if len({frozenset(e) for e in es}) != len(es) or any(a_ == b_ for a_, b_ in es) or \
                    not np.array_equal(inc, G0.sum(axis=1)):
                ctx.count("randomly_rewire:igraph-contract-broken")
            if A1.shape != G0.shape or not simple_undirected(A1) or \
                    not np.array_equal(A1.sum(axis=1), G0.sum(axis=1)) or \
                    net.n_links != int(G0.sum()) // 2 or net.N != n or \
                    not np.array_equal(net.degree(), A1.sum(axis=1)) or \
                    sorted(map(tuple, net.graph.get_edgelist())) != edge_list(A1):
                ctx.fail({"kind": "rewire", "method": "randomly_rewire", "invariant": "degree",
                          "n_nodes_changed": A1.shape != G0.shape},
                         f"randomly_rewire: {G0.shape[0]} nodes, degrees {G0.sum(axis=1).tolist()} -> "
                         f"{A1.shape[0]} nodes, degrees {A1.sum(axis=1).tolist()} / not simple / object incoherent",
                         rp)
                break
        # Network.set_edge_list directly: duplicates, both orientations, explicit node count
        n = rng.randrange(2, 9)
        es = [(rng.randrange(n), rng.randrange(n)) for _ in range(rng.randrange(1, 12))]
        es = [(a_, b_) for a_, b_ in es if a_ != b_] or [(0, 1)]
        if rng.random() < 0.3:
            es += [(b_, a_) for a_, b_ in es[:3]]
        nn_ = rng.choice([n, n, n + 2, max(a_ for e in es for a_ in e) + 1, max(a_ for e in es for a_ in e)])
        net = Network(adjacency=rand_graph(rng, 3, 0.5), directed=False, silence_level=3)
        try:
            net.set_edge_list(es if rng.random() < 0.5 else np.array(es), n_nodes=nn_)
            got = enc_mat(net.adjacency)
            if net.N != nn_ or not simple_undirected(net.adjacency):
                ctx.fail({"kind": "rewire", "method": "set_edge_list", "invariant": "node-count"},
                         f"set_edge_list(n_nodes={nn_}) gave N={net.N} / not simple", {"edges": es, "n_nodes": nn_})
        except ValueError:
            got = "raise:ValueError"
        reqs.append(f"edges {nn_} {enc_mat(es)}")
        impl.append(got)
        ctx.case(("sel", nn_, tuple(es)), True)
        ctx.count("set_edge_list:" + ("ValueError" if got.startswith("raise") else "built"))
        # distance-kernel model on a fresh object
        nn_ = rng.randrange(2, 9)
        net = make_spatial(nn_, rand_graph(rng, nn_, 0.4))
        dist_step(net, [])
    ctx.correspond("Lean fromEdges == Network.set_edge_list (directly and as called by randomly_rewire); "
                   "simplified == Network.Configuration / BarabasiAlbert_igraph given the (multi)graph igraph "
                   "produced; fromEdges == Network.ErdosRenyi / WattsStrogatz given the graph igraph produced; "
                   "erdosRenyiCall == the argument dispatch of ErdosRenyi; "
                   "distKernel == set_random_links_by_distance on fresh objects", reqs, impl)
